package checks

import (
	"fmt"
	"go/ast"
	"go/token"
	"go/types"
	"strings"

	"bmverif/internal/core"
	"golang.org/x/tools/go/packages"
)

func init() {
	register("C02", checkC02)
	describe("C02", Meta{
		Technique: "index-space (units-of-measure) inference over the type-checked AST: every int used to index the bond tables, stored into Links or compared is given the index space of its definition (range key/value, len, lookup, Map_to-guarded Res_id/Ext_id) and must agree with the space the container is declared to use",
		Claim:     "Decides one structural clause of C02: both back-ends (VM.Step and the Verilog top-level generator) and every helper that walks Links / Internal_inputs / Internal_outputs use internal-input indices, internal-output indices, external-port indices and processor indices only in the tables of the matching space, and a Map_to case names an endpoint kind that can occur in the list being walked. A swapped Links index or a transfer guarded by the wrong endpoint kind is reported. PORTORDER: the positional connections of a processor instance are emitted by a counted loop over the port number, as the architecture module's header is. FANIN: a walk that enumerates the inputs bonded to an output (`linked == o`) treats every such input alike (no filter on the machine's content), in the HDL generator as in the simulator — the structural form of 'received is the conjunction over ALL consumers'. LINKWALK: for every per-endpoint table the VM fills while ranging over Links, at least one walk moves every link (conditions on the link only), as the generated top level does with one assign per bond. Stream equality HDL vs. simulator, timing and the AND of received lines are not decided.",
		Note:      "Index spaces are declared per struct field in the checker (read off the data model's own comments); locals with two different definitions are ignored (no obligation). Flow-insensitive per function.",
		DesignRef: "DESIGN.md §2 C02",
	})
}

// the packages C02 is anchored in (both back-ends and the data model they walk)
var ikScope = []string{"pkg/bondmachine", "cmd/bondmachine"}

func checkC02(r *core.Run) {
	r.Explanation = "Decides the index-space clause of C02: in every function of the bond-graph packages, each index expression into Links / Internal_inputs(_regs, Valid, Recv) / Internal_outputs(...) / Inputs_regs / Outputs_regs / Processors and the per-processor port arrays, each value stored into Links and each comparison between two indices is checked to stay within one index space (II, IO, XIN, XOUT, PROC, PIN, POUT), with Bond.Res_id / Ext_id refined by the enclosing Map_to guard; a Map_to case must name an endpoint kind present in the list ranged over. " +
		"Does NOT decide: that HDL and simulator deliver the same streams, timing, the conjunction of received lines, positional port order of generated instances."
	prog := r.Load(core.LoadConfig{})
	if prog == nil {
		return
	}
	e := newIKEngine(r, prog, "C02")
	// simbox tables (C15) and topology editors (C10) are decided under their own property
	e.run(ikScope, func(pk *packages.Package, fd *ast.FuncDecl) bool {
		return !e.mentionsFieldOf(pk, fd, "pkg/bondmachine.SimDrive.", "pkg/bondmachine.SimReport.") && !e.storesTopology(pk, fd)
	})
	c02LinkWalk(r, prog)
	c02FanIn(r, prog)
	c02PortOrder(r, prog)
}

// c02PortOrder (C02/PORTORDER): the architecture module lists a processor's input ports, then its
// output ports, by ascending port number (Arch.Write_verilog: counted loops over N and M), and the top
// level connects an instance BY POSITION. So the code of Write_verilog_main that emits an instance's
// `<wire>, <wire>_valid, <wire>_received` triples must run inside a counted loop over the processor's
// port count (j < N, j < M), and not inside a loop over a list of names or a map — a list of names
// sorted as strings puts i10 before i2, and from eleven ports on every later bond lands on another port.
func c02PortOrder(r *core.Run, prog *core.Program) {
	pk := prog.Pkg("pkg/bondmachine")
	if pk == nil {
		return
	}
	info := pk.TypesInfo
	n := 0
	// helpers that render a connection triple (a literal containing "_valid, " in their body)
	emitters := map[types.Object]bool{}
	wireNamers := map[types.Object]bool{}
	core.FuncDecls(pk, func(_ *ast.File, fd *ast.FuncDecl) {
		if fd.Name.Name == "Write_verilog_main" {
			return
		}
		has := false
		ast.Inspect(fd.Body, func(m ast.Node) bool {
			if bl, ok := m.(*ast.BasicLit); ok && bl.Kind == token.STRING && strings.Contains(bl.Value, "_valid, ") {
				has = true
			}
			return !has
		})
		if has {
			if o := info.Defs[fd.Name]; o != nil {
				emitters[o] = true
			}
		}
		// ... or that return the three wire names of a connection separately (a tuple of at least
		// three strings, built from "_valid" and "_received")
		if fd.Type.Results != nil && fd.Type.Results.NumFields() >= 3 {
			v, rc := false, false
			ast.Inspect(fd.Body, func(m ast.Node) bool {
				if bl, ok := m.(*ast.BasicLit); ok && bl.Kind == token.STRING {
					v = v || strings.Contains(bl.Value, "_valid")
					rc = rc || strings.Contains(bl.Value, "_received")
				}
				return true
			})
			if v && rc {
				if o := info.Defs[fd.Name]; o != nil {
					wireNamers[o] = true
				}
			}
		}
	})
	core.FuncDecls(pk, func(_ *ast.File, fd *ast.FuncDecl) {
		if fd.Name.Name != "Write_verilog_main" {
			return
		}
		parents := map[ast.Node]ast.Node{}
		var stack []ast.Node
		ast.Inspect(fd.Body, func(m ast.Node) bool {
			if m == nil {
				stack = stack[:len(stack)-1]
				return true
			}
			if len(stack) > 0 {
				parents[m] = stack[len(stack)-1]
			}
			stack = append(stack, m)
			return true
		})
		k := 0
		// locals holding the wire names returned by a wire-namer helper
		wireLocal := map[types.Object]bool{}
		ast.Inspect(fd.Body, func(m ast.Node) bool {
			if as, ok := m.(*ast.AssignStmt); ok && len(as.Rhs) == 1 && len(as.Lhs) >= 3 {
				if call, ok := ast.Unparen(as.Rhs[0]).(*ast.CallExpr); ok && wireNamers[core.CalleeOf(info, call)] {
					for _, l := range as.Lhs {
						if id, ok := l.(*ast.Ident); ok {
							if o := info.ObjectOf(id); o != nil {
								wireLocal[o] = true
							}
						}
					}
				}
			}
			return true
		})
		ast.Inspect(fd.Body, func(m ast.Node) bool {
			as, ok := m.(*ast.AssignStmt)
			if !ok || len(as.Rhs) != 1 {
				return true
			}
			if call, ok := ast.Unparen(as.Rhs[0]).(*ast.CallExpr); ok && wireNamers[core.CalleeOf(info, call)] {
				return true
			}
			var leaves []ast.Expr
			flattenAdd(as.Rhs[0], &leaves)
			triple := false
			for _, l := range leaves {
				if sl, ok := constStr(info, l); ok && strings.Contains(sl, "_valid, ") {
					triple = true
				}
				if id, ok := ast.Unparen(l).(*ast.Ident); ok && wireLocal[info.ObjectOf(id)] {
					triple = true
				}
				ast.Inspect(l, func(q ast.Node) bool {
					if call, ok := q.(*ast.CallExpr); ok && emitters[core.CalleeOf(info, call)] {
						triple = true
					}
					return true
				})
			}
			if !triple {
				return true
			}
			k++
			n++
			inst := fmt.Sprintf("C02/PORTORDER:%s:emit%d", core.FuncKey(pk, fd), k)
			counted, named := false, ""
			for p := parents[ast.Node(as)]; p != nil; p = parents[p] {
				switch x := p.(type) {
				case *ast.ForStmt:
					if be, ok := x.Cond.(*ast.BinaryExpr); ok && (be.Op == token.LSS || be.Op == token.LEQ) {
						ast.Inspect(be.Y, func(q ast.Node) bool {
							if sel, ok := q.(*ast.SelectorExpr); ok {
								if f := core.FieldOf(info, sel); f != nil && (f.Name() == "N" || f.Name() == "M") {
									counted = true
								}
							}
							return true
						})
					}
				case *ast.RangeStmt:
					t := info.TypeOf(x.X)
					if t == nil {
						continue
					}
					switch u := t.Underlying().(type) {
					case *types.Map:
						named = "a map (" + types.ExprString(x.X) + ")"
					case *types.Slice:
						if b, ok := u.Elem().Underlying().(*types.Basic); ok && b.Info()&types.IsString != 0 {
							named = "a list of names (" + types.ExprString(x.X) + ")"
						}
					case *types.Basic:
						if u.Info()&types.IsInteger != 0 {
							ast.Inspect(x.X, func(q ast.Node) bool {
								if sel, ok := q.(*ast.SelectorExpr); ok {
									if f := core.FieldOf(info, sel); f != nil && (f.Name() == "N" || f.Name() == "M") {
										counted = true
									}
								}
								return true
							})
						}
					}
				}
			}
			switch {
			case named != "":
				r.Violation("C02/PORTORDER", inst, prog.Pos(as.Pos()), fmt.Sprintf("%s emits the positional connections of a processor instance while ranging over %s: the architecture module declares its ports by ascending port number, so the instance is wired in another order whenever that order differs (names sorted as strings put i10 before i2) — the generated top level then implements another bond graph than the one the simulator runs", core.FuncKey(pk, fd), named))
			case !counted:
				r.Violation("C02/PORTORDER", inst, prog.Pos(as.Pos()), fmt.Sprintf("%s emits the positional connections of a processor instance outside a counted loop over the processor's port count (j < N / j < M): nothing ties their order to the port order of the architecture module", core.FuncKey(pk, fd)))
			default:
				r.OK("C02/PORTORDER", inst, prog.Pos(as.Pos()), "instance connections are emitted by a counted loop over the port number")
			}
			return true
		})
	})
	r.Count("instance_connection_emissions", n)
}

// c02FanIn (C02/FANIN): "an output's received line is the conjunction of the received lines of ALL
// inputs bonded to it". A consumers-of walk is a `for i, linked := range Links` whose body tests
// `linked == o` with o an internal-output position (range key over Internal_outputs, or an int
// parameter). Whatever such a walk does for a consumer (count it, declare its wire, add its term to
// the AND) it must do for every consumer: besides the `linked == o` test, the governing conditions
// may not read the machine's content. A filter on the consumer's kind drops terms from the
// conjunction (and from the count that chooses between the 1-consumer and n-consumer forms).
func c02FanIn(r *core.Run, prog *core.Program) {
	pk := prog.Pkg("pkg/bondmachine")
	if pk == nil {
		return
	}
	info := pk.TypesInfo
	n := 0
	core.FuncDecls(pk, func(_ *ast.File, fd *ast.FuncDecl) {
		// output-position variables: range keys over Internal_outputs, int parameters
		outPos := map[types.Object]bool{}
		for _, p := range fd.Type.Params.List {
			for _, nm := range p.Names {
				if o := info.ObjectOf(nm); o != nil {
					if b, ok := o.Type().Underlying().(*types.Basic); ok && b.Kind() == types.Int {
						outPos[o] = true
					}
				}
			}
		}
		ast.Inspect(fd.Body, func(k ast.Node) bool {
			if rs, ok := k.(*ast.RangeStmt); ok {
				if f := core.FieldOf(info, rs.X); f != nil && core.IsField(f, "pkg/bondmachine", "Internal_outputs") {
					if id, ok := rs.Key.(*ast.Ident); ok && id.Name != "_" {
						outPos[info.ObjectOf(id)] = true
					}
				}
			}
			return true
		})
		wn := 0
		ast.Inspect(fd.Body, func(k ast.Node) bool {
			rs, ok := k.(*ast.RangeStmt)
			if !ok {
				return true
			}
			f := core.FieldOf(info, rs.X)
			if f == nil || !core.IsField(f, "pkg/bondmachine", "Links") {
				return true
			}
			lid, ok := rs.Value.(*ast.Ident)
			if !ok || lid.Name == "_" {
				return true
			}
			lobj := info.ObjectOf(lid)
			isFanTest := func(e ast.Expr) bool {
				be, ok := ast.Unparen(e).(*ast.BinaryExpr)
				if !ok || be.Op != token.EQL {
					return false
				}
				for _, pr := range [][2]ast.Expr{{be.X, be.Y}, {be.Y, be.X}} {
					a, ok1 := ast.Unparen(pr[0]).(*ast.Ident)
					b, ok2 := ast.Unparen(pr[1]).(*ast.Ident)
					if ok1 && ok2 && info.ObjectOf(a) == lobj && outPos[info.ObjectOf(b)] {
						return true
					}
				}
				return false
			}
			// conjuncts of a condition
			var conj func(e ast.Expr) []ast.Expr
			conj = func(e ast.Expr) []ast.Expr {
				if be, ok := ast.Unparen(e).(*ast.BinaryExpr); ok && be.Op == token.LAND {
					return append(conj(be.X), conj(be.Y)...)
				}
				return []ast.Expr{e}
			}
			content := func(e ast.Expr) string {
				bad := ""
				ast.Inspect(e, func(m ast.Node) bool {
					switch x := m.(type) {
					case *ast.SelectorExpr:
						if fv := core.FieldOf(info, x); fv != nil && bad == "" {
							bad = types.ExprString(x)
						}
					case *ast.CallExpr:
						if id, ok := x.Fun.(*ast.Ident); ok && (id.Name == "len" || id.Name == "int") {
							return true
						}
						if tv, ok := info.Types[x.Fun]; ok && tv.IsType() {
							return true
						}
						if bad == "" {
							bad = types.ExprString(x)
						}
					}
					return true
				})
				return bad
			}
			// is this a consumers-of walk? find ifs in the body (any depth) with a fan test conjunct
			var visit func(list []ast.Stmt, outer []ast.Expr)
			visit = func(list []ast.Stmt, outer []ast.Expr) {
				for _, st := range list {
					ifs, ok := st.(*ast.IfStmt)
					if !ok {
						continue
					}
					cs := conj(ifs.Cond)
					hasFan := false
					for _, c := range cs {
						if isFanTest(c) {
							hasFan = true
						}
					}
					all := append(append([]ast.Expr{}, outer...), cs...)
					if hasFan {
						wn++
						n++
						inst := fmt.Sprintf("C02/FANIN:%s:walk%d", core.FuncKey(pk, fd), wn)
						bad := ""
						for _, c := range all {
							if isFanTest(c) {
								continue
							}
							if b := content(c); b != "" && bad == "" {
								bad = b
							}
						}
						// nested conditions inside the consumer branch that wrap everything
						if bad == "" && len(ifs.Body.List) == 1 {
							if in, ok := ifs.Body.List[0].(*ast.IfStmt); ok && in.Else == nil {
								for _, c := range conj(in.Cond) {
									if b := content(c); b != "" && bad == "" {
										bad = b
									}
								}
							}
						}
						if bad == "" {
							r.OK("C02/FANIN", inst, prog.Pos(ifs.Pos()), "the walk treats every input bonded to the output alike")
						} else {
							r.Violation("C02/FANIN", inst, prog.Pos(ifs.Pos()), fmt.Sprintf("%s enumerates the inputs bonded to an output but keeps only those for which a condition on the machine's content holds (%s): the received line of a fanned-out output is then the conjunction of only some of its consumers (and the consumer count that selects the 1-input / n-input form is off), so the producer can be acknowledged before every consumer has taken the value; the simulator ANDs all of them", core.FuncKey(pk, fd), bad))
						}
						continue
					}
					visit(ifs.Body.List, all)
				}
			}
			visit(rs.Body.List, nil)
			return true
		})
	})
	r.Count("consumer_walks", n)
}

// c02LinkWalk (C02/LINKWALK): the simulator moves data, valid and received along EVERY bond. In each
// `for i, j := range Links` of the VM's step functions, a statement that stores into a per-endpoint
// table may only be conditioned on the link itself (the loop variables, locals derived from them,
// constants): a condition that reads the machine's content (a struct field such as Map_to) makes the
// walk skip a class of bonds, which the generated top level — one assign per link — does not.
// Decided per (function, table): at least one walk must move every link into the table; a violation
// is reported only when every walk storing into the table is content-conditioned.
func c02LinkWalk(r *core.Run, prog *core.Program) {
	pk := prog.Pkg("pkg/bondmachine")
	if pk == nil {
		return
	}
	info := pk.TypesInfo
	nWalks, nStores := 0, 0
	seenT := map[string]bool{}
	var order []string
	full := map[string]string{}        // table -> position of a walk that moves every link
	filtered := map[string][2]string{} // table -> (content condition, position) of a filtered walk
	core.FuncDecls(pk, func(_ *ast.File, fd *ast.FuncDecl) {
		if core.RecvTypeName(info, fd) != "VM" {
			return
		}
		ast.Inspect(fd.Body, func(n ast.Node) bool {
			rs, ok := n.(*ast.RangeStmt)
			if !ok {
				return true
			}
			f := core.FieldOf(info, rs.X)
			if f == nil || f.Name() != "Links" || !core.IsField(f, "pkg/bondmachine", "Links") {
				return true
			}
			nWalks++
			// content-dependent condition?
			contentCond := func(e ast.Expr) string {
				bad := ""
				ast.Inspect(e, func(k ast.Node) bool {
					switch x := k.(type) {
					case *ast.SelectorExpr:
						if fv := core.FieldOf(info, x); fv != nil && bad == "" {
							bad = types.ExprString(x)
						}
					case *ast.CallExpr:
						if tv, ok := info.Types[x.Fun]; ok && tv.IsType() {
							return true
						}
						if id, ok := x.Fun.(*ast.Ident); ok && (id.Name == "len" || id.Name == "int") {
							return true
						}
						if bad == "" {
							bad = types.ExprString(x)
						}
					}
					return true
				})
				return bad
			}
			// walk the loop body keeping the stack of governing conditions
			type gov struct {
				cond ast.Expr
				pos  token.Pos
			}
			k := 0
			var walk func(list []ast.Stmt, govs []gov)
			endsInJump := func(b *ast.BlockStmt) bool {
				if len(b.List) == 0 {
					return false
				}
				switch x := b.List[len(b.List)-1].(type) {
				case *ast.BranchStmt:
					return x.Tok == token.CONTINUE || x.Tok == token.BREAK
				case *ast.ReturnStmt:
					return true
				}
				return false
			}
			walk = func(list []ast.Stmt, govs []gov) {
				for _, st := range list {
					switch x := st.(type) {
					case *ast.IfStmt:
						g2 := append(append([]gov{}, govs...), gov{x.Cond, x.Pos()})
						walk(x.Body.List, g2)
						switch el := x.Else.(type) {
						case *ast.BlockStmt:
							walk(el.List, g2)
						case *ast.IfStmt:
							walk([]ast.Stmt{el}, g2)
						}
						if endsInJump(x.Body) {
							govs = g2 // the rest of the block runs only when the condition is false
						}
					case *ast.BlockStmt:
						walk(x.List, govs)
					case *ast.SwitchStmt:
						g2 := govs
						if x.Tag != nil {
							g2 = append(append([]gov{}, govs...), gov{x.Tag, x.Pos()})
						}
						for _, c := range x.Body.List {
							cc := c.(*ast.CaseClause)
							g3 := g2
							if x.Tag == nil {
								for _, e := range cc.List {
									g3 = append(append([]gov{}, g3...), gov{e, cc.Pos()})
								}
							}
							walk(cc.Body, g3)
						}
					case *ast.ForStmt:
						walk(x.Body.List, govs)
					case *ast.RangeStmt:
						walk(x.Body.List, govs)
					case *ast.AssignStmt:
						for _, l := range x.Lhs {
							ie, ok := ast.Unparen(l).(*ast.IndexExpr)
							if !ok {
								continue
							}
							// per-endpoint table: a field of the VM, or a local map keyed by an endpoint index
							isTable := core.FieldOf(info, ie.X) != nil
							if id, ok := ast.Unparen(ie.X).(*ast.Ident); ok {
								if _, isMap := info.TypeOf(id).Underlying().(*types.Map); isMap {
									if b, ok := info.TypeOf(l).Underlying().(*types.Basic); !ok || b.Info()&types.IsString == 0 {
										isTable = true
									}
								}
							}
							if !isTable {
								continue
							}
							k++
							nStores++
							bad, badPos := "", token.NoPos
							for _, g := range govs {
								if b := contentCond(g.cond); b != "" && bad == "" {
									bad, badPos = b, g.pos
								}
							}
							tk := core.FuncKey(pk, fd) + ":" + types.ExprString(ie.X)
							if !seenT[tk] {
								seenT[tk] = true
								order = append(order, tk)
							}
							if bad == "" {
								full[tk] = prog.Pos(x.Pos())
							} else if _, dup := filtered[tk]; !dup {
								filtered[tk] = [2]string{bad, prog.Pos(badPos)}
							}
						}
					}
				}
			}
			walk(rs.Body.List, nil)
			return true
		})
	})
	for _, tk := range order {
		inst := "C02/LINKWALK:" + tk
		if pos, ok := full[tk]; ok {
			r.OK("C02/LINKWALK", inst, pos, "a walk over Links moves every bond into this table (conditioned on the link only)")
			continue
		}
		f := filtered[tk]
		r.Violation("C02/LINKWALK", inst, f[1], fmt.Sprintf("every walk over Links that transfers into %s does so only when a condition on the machine's content holds (%s): bonds of the excluded kind are never moved by the simulator, while the generated top level wires every link unconditionally (one assign per bond) — the two back-ends disagree on those bonds", tk, f[0]))
	}
	r.Count("vm_link_walks", nWalks)
	r.Count("vm_link_walk_transfers", nStores)
}
