#!/bin/bash
# try_patch.sh <patch.diff> <Cnn> [<Cnn>...]: applies a patch to a scratch worktree of /repo's HEAD
# (outside /repo and /verif), runs the named checks against it, removes the worktree.
# Exit status: 0 if at least one check reported a VIOLATION (the patch is detected), 1 otherwise.
PATCH=$(readlink -f "$1"); shift
WT=$(mktemp -d /tmp/bmverif-mut.XXXXXX)
EV=$(mktemp -d /tmp/bmverif-ev.XXXXXX)
git -C /repo worktree add --detach "$WT" HEAD >/dev/null 2>&1 || { echo "worktree failed"; exit 2; }
if ! git -C "$WT" apply "$PATCH" 2>/dev/null; then
  if ! git -C "$WT" apply -3 "$PATCH" 2>/dev/null; then echo "PATCH DOES NOT APPLY"; git -C /repo worktree remove --force "$WT"; rm -rf "$EV"; exit 2; fi
fi
detected=1
for id in "$@"; do
  out=$(BMVERIF_REPO="$WT" BMVERIF_EVIDENCE="$EV" ${TIER:+VERIF_TIER=$TIER} /verif/bin/bmverif check "$id" 2>&1)
  rc=$?
  echo "== $id exit=$rc"
  echo "$out" | grep -E "^(VIOLATED|UNDECIDED|FATAL)" | sed "s#$WT/##g" | head -${MAXLINES:-12}
  if echo "$out" | grep -q "^VIOLATION"; then detected=0; fi
done
git -C /repo worktree remove --force "$WT"; rm -rf "$EV"
exit $detected
