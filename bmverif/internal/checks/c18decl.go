package checks

// C18/DECLCOND and C18/LISTCLOSE: the two rules that need the fragment tree with path conditions and
// loop multiplicities (gentext.go).
//
// DECLCOND. The processor module is written by Conproc.Write_verilog (the host) and by fragments that
// end up inside it: the opcodes' header / reset / state / state-machine / footer methods and the shared
// helpers they call (NextInstruction, ThreadInstructionStart, ExecutionCase …). For every identifier the
// host declares with a literal `reg|wire|localparam … NAME` under a path condition D, every fragment
// that spells NAME literally under its own path condition U needs U => D for every execution mode and
// every valuation of the remaining conditions — otherwise there is a configuration whose pN.v uses an
// undeclared identifier. Conditions are compared semantically (finite enumeration), not textually.
//
// LISTCLOSE. A comma-separated `localparam`/`parameter` list opened by a generator must be closed by `;`
// before the next module item on every path, counting loops 0, 1, 2 and "3 or more" times with the
// first/last-iteration tests evaluated per iteration.

import (
	"fmt"
	"go/ast"
	"go/token"
	"go/types"
	"os"
	"regexp"
	"sort"
	"strings"

	"bmverif/internal/core"

	"golang.org/x/tools/go/packages"
)

var (
	vSizedLit  = regexp.MustCompile(`[0-9§]*'[sS]?[bdhoBDHO][0-9a-fA-FxzXZ_?§]+`)
	vLineCmt   = regexp.MustCompile(`//[^\n]*`)
	vDeclKwRe  = regexp.MustCompile(`(?m)\b(reg|wire|integer|localparam|parameter|genvar)\b\s*(?:signed\s+)?(?:\[[^\]]*\]\s*)?([A-Za-z_§][^;()]*)`)
	vFragMeths = map[string]bool{"OpInstructionVerilogHeader": true, "Op_instruction_verilog_reset": true, "Op_instruction_verilog_internal_state": true, "Op_instruction_verilog_default_state": true, "Op_instruction_verilog_state_machine": true, "Op_instruction_verilog_footer": true, "Op_instruction_verilog_extra_block": true}
)

func vStrip(text string) string {
	text = vLineCmt.ReplaceAllString(text, "")
	return vSizedLit.ReplaceAllString(text, " 0 ")
}

type declSite struct {
	cond gtCond
	pos  token.Pos
}

// gtWalk visits every literal with its path condition (conditions of enclosing Alt nodes; a loop that
// may run zero times contributes an opaque "runs" atom).
func gtWalk(n gtNode, pc gtCond, visit func(l *gtLit, pc gtCond), call func(c *gtCall, pc gtCond)) {
	switch x := n.(type) {
	case *gtLit:
		visit(x, pc)
	case *gtCall:
		if call != nil {
			call(x, pc)
		}
	case *gtSeq:
		for _, it := range x.items {
			gtWalk(it, pc, visit, call)
		}
	case *gtAlt:
		gtWalk(x.then, gtAnd(pc, x.c), visit, call)
		gtWalk(x.els, gtAnd(pc, gcNot{x.c}), visit, call)
	case *gtLoop:
		c := pc
		if x.tripMin == 0 {
			c = gtAnd(pc, gcAtom{fmt.Sprintf("loop(%s..%s) runs", x.start, x.bound)})
		}
		gtWalk(x.body, c, visit, call)
	case *gtRange:
		gtWalk(x.body, gtAnd(pc, gcAtom{fmt.Sprintf("loop@%d runs", int(x.pos))}), visit, call)
	}
}

func c18DeclCond(r *core.Run, prog *core.Program) {
	pk := prog.Pkg("pkg/procbuilder")
	if pk == nil {
		return
	}
	info := pk.TypesInfo
	var host *gtFunc
	frags := map[*types.Func]*gtFunc{}
	decls := map[*types.Func]*ast.FuncDecl{}
	core.FuncDecls(pk, func(_ *ast.File, fd *ast.FuncDecl) {
		fn, _ := info.ObjectOf(fd.Name).(*types.Func)
		if fn == nil || fd.Body == nil {
			return
		}
		decls[fn] = fd
		if fd.Name.Name == "Write_verilog" && core.RecvTypeName(info, fd) == "Conproc" {
			host = gtBuild(info, fd)
			frags[fn] = host
			return
		}
		if fd.Recv != nil && vFragMeths[fd.Name.Name] {
			frags[fn] = gtBuild(info, fd)
		}
	})
	if host == nil {
		r.Undecided("C18/DECLCOND", "C18/DECLCOND:host", "", "Conproc.Write_verilog not found")
		return
	}
	// helpers reached through calls from the fragments (transitively), unless they emit whole modules
	work := []*gtFunc{}
	for _, f := range frags {
		work = append(work, f)
	}
	for len(work) > 0 {
		f := work[len(work)-1]
		work = work[:len(work)-1]
		// callees: sibling generators called anywhere in the body (also `if th := Helper(…); th != ""`)
		var callees []*types.Func
		ast.Inspect(f.fd.Body, func(m ast.Node) bool {
			if call, ok := m.(*ast.CallExpr); ok {
				if fn, ok := core_CalleeFunc(info, call); ok && fn.Pkg() == pk.Types && !gtNameFunc(fn) {
					if sig, ok := fn.Type().(*types.Signature); ok && sig.Recv() == nil && sig.Results().Len() == 1 {
						if b, ok := sig.Results().At(0).Type().Underlying().(*types.Basic); ok && b.Info()&types.IsString != 0 {
							callees = append(callees, fn)
						}
					}
				}
			}
			return true
		})
		for _, cfn := range callees {
			c := &gtCall{fn: cfn}
			if _, ok := frags[c.fn]; ok {
				continue
			}
			fd := decls[c.fn]
			if fd == nil {
				continue
			}
			g := gtBuild(info, fd)
			if g == nil {
				continue
			}
			whole := false
			gtWalk(g.tree, gcTrue{}, func(l *gtLit, _ gtCond) {
				if strings.Contains(l.text, "endmodule") {
					whole = true
				}
			}, nil)
			if whole {
				continue
			}
			frags[c.fn] = g
			work = append(work, g)
		}
	}
	funcs := map[types.Object]*gtFunc{}
	modesSet := map[string]bool{}
	for _, f := range frags {
		for o := range f.consts {
			funcs[o] = f
		}
	}
	// declarations of the host
	declared := map[string][]declSite{}
	var declVisit func(l *gtLit, pc gtCond)
	var declCall func(c *gtCall, pc gtCond)
	declDepth := 0
	helperPC := map[*types.Func]gtCond{} // helpers of the host: the condition under which the host calls them
	declCall = func(c *gtCall, pc gtCond) {
		// declarations kept in a helper of the host (not an opcode fragment): its literals are declared
		// under the call's condition and the helper's own
		if fd := decls[c.fn]; fd != nil && declDepth < 2 && !(fd.Recv != nil && vFragMeths[fd.Name.Name]) {
			g := frags[c.fn]
			if g == nil {
				g = gtBuild(info, fd)
				if g == nil {
					return
				}
				frags[c.fn] = g
				for o := range g.consts {
					funcs[o] = g
				}
			}
			if old, ok := helperPC[c.fn]; ok {
				helperPC[c.fn] = gcOr{old, pc}
			} else {
				helperPC[c.fn] = pc
			}
			declDepth++
			gtWalk(g.tree, pc, declVisit, declCall)
			declDepth--
		}
	}
	declVisit = func(l *gtLit, pc gtCond) {
		gtAtoms(pc, funcs, map[string]bool{}, modesSet, map[types.Object]bool{})
		text := vStrip(l.text)
		for _, mm := range vDeclKwRe.FindAllStringSubmatch(text, -1) {
			for _, nm := range strings.Split(mm[2], ",") {
				nm = strings.TrimSpace(nm)
				if i := strings.IndexAny(nm, " =[\t\n"); i >= 0 {
					nm = nm[:i]
				}
				if nm == "" || strings.Contains(nm, hole) || !identRe.MatchString(nm) {
					continue
				}
				declared[nm] = append(declared[nm], declSite{pc, l.pos})
			}
		}
	}
	gtWalk(host.tree, gcTrue{}, declVisit, declCall)
	var modes []string
	for m := range modesSet {
		modes = append(modes, m)
	}
	sort.Strings(modes)
	if len(modes) == 0 {
		modes = []string{"ha"}
	}
	r.Count("declcond_host_identifiers", len(declared))
	r.Assumptions = append(r.Assumptions, "DECLCOND: the execution mode is one of "+strings.Join(modes, "/")+" (the values Conproc.Write_verilog switches on)")
	// uses
	type useKey struct {
		fn *types.Func
		id string
	}
	uses := map[useKey][]declSite{}
	for fn, f := range frags {
		fn := fn
		var start gtCond = gcTrue{}
		if pc, ok := helperPC[fn]; ok {
			start = pc
		}
		gtWalk(f.tree, start, func(l *gtLit, pc gtCond) {
			text := vStrip(l.text)
			// in the host, the declaring literal itself is not a use
			for _, tok := range identRe.FindAllString(text, -1) {
				if strings.Contains(tok, hole) {
					continue
				}
				if _, ok := declared[tok]; !ok {
					continue
				}
				uses[useKey{fn, tok}] = append(uses[useKey{fn, tok}], declSite{pc, l.pos})
			}
		}, nil)
	}
	var keys []useKey
	for k := range uses {
		keys = append(keys, k)
	}
	sort.Slice(keys, func(i, j int) bool {
		if keys[i].fn.FullName() != keys[j].fn.FullName() {
			return keys[i].fn.FullName() < keys[j].fn.FullName()
		}
		return keys[i].id < keys[j].id
	})
	nUse := 0
	if os.Getenv("BMVERIF_DEBUG") != "" {
		var ids []string
		for id, ds := range declared {
			for _, d := range ds {
				ids = append(ids, id+" under "+gtCondString(d.cond))
			}
		}
		sort.Strings(ids)
		fmt.Println("DECLCOND declared:", strings.Join(ids, "; "))
		for _, k := range keys {
			for _, u := range uses[k] {
				fmt.Printf("DECLCOND use %s %s under %s\n", k.fn.FullName(), k.id, gtCondString(u.cond))
			}
		}
	}
	for _, k := range keys {
		var d gtCond
		for _, s := range declared[k.id] {
			if d == nil {
				d = s.cond
			} else {
				d = gcOr{d, s.cond}
			}
		}
		fkey := gtFuncKey(pk, decls[k.fn])
		inst := fmt.Sprintf("C18/DECLCOND:%s:%s", fkey, k.id)
		bad := ""
		var badPos token.Pos
		undec := false
		for _, u := range uses[k] {
			holds, wit, ok := gtImplies(u.cond, d, funcs, modes)
			if !ok {
				undec = true
				badPos = u.pos
				continue
			}
			if !holds {
				bad = wit
				badPos = u.pos
				break
			}
		}
		nUse++
		switch {
		case bad != "":
			r.Violation("C18/DECLCOND", inst, prog.Pos(badPos), fmt.Sprintf("%s spells %q (here under: %s) but Conproc.Write_verilog declares it only under: %s — with %s the processor module uses it undeclared", fkey, k.id, gtCondString(usesCond(uses[k], badPos)), gtCondString(d), bad))
		case undec:
			r.Undecided("C18/DECLCOND", inst, prog.Pos(badPos), "too many independent conditions to enumerate")
		default:
			r.OK("C18/DECLCOND", inst, prog.Pos(uses[k][0].pos), "every emission of the identifier lies under the condition of its declaration in Conproc.Write_verilog")
		}
	}
	r.Count("declcond_fragment_functions", len(frags))
	r.Count("declcond_uses", nUse)
}

func usesCond(us []declSite, pos token.Pos) gtCond {
	for _, u := range us {
		if u.pos == pos {
			return u.cond
		}
	}
	return gcTrue{}
}

func gtFuncKey(pk *packages.Package, fd *ast.FuncDecl) string { return core.FuncKey(pk, fd) }

// ---- LISTCLOSE ----------------------------------------------------------------------------------

var (
	vItemKw = map[string]bool{"reg": true, "wire": true, "always": true, "assign": true, "initial": true, "localparam": true, "endmodule": true, "integer": true, "genvar": true, "generate": true, "module": true, "input": true, "output": true, "inout": true}
	vTokRe  = regexp.MustCompile(`[A-Za-z_§$][A-Za-z0-9_§$]*|;`)
)

// lcSet: the set of reachable list states: 0 = no list open, otherwise the position of the literal that
// opened the list which is still open.
type lcSet map[token.Pos]bool

func (a lcSet) union(b lcSet) lcSet {
	out := lcSet{}
	for k := range a {
		out[k] = true
	}
	for k := range b {
		out[k] = true
	}
	return out
}

type lcRun struct {
	f     *gtFunc
	env   *gtEnv
	trips map[types.Object]int
	viol  map[token.Pos]string // opener position -> the module item reached while the list is open
	sawKw bool
}

// eval3: 1 true, 0 false, -1 unknown
func (lr *lcRun) eval3(c gtCond) int {
	switch x := c.(type) {
	case gcTrue:
		return 1
	case gcAtom:
		return -1
	case gcNot:
		v := lr.eval3(x.c)
		if v < 0 {
			return -1
		}
		return 1 - v
	case gcAnd:
		a, b := lr.eval3(x.a), lr.eval3(x.b)
		if a == 0 || b == 0 {
			return 0
		}
		if a == 1 && b == 1 {
			return 1
		}
		return -1
	case gcOr:
		a, b := lr.eval3(x.a), lr.eval3(x.b)
		if a == 1 || b == 1 {
			return 1
		}
		if a == 0 && b == 0 {
			return 0
		}
		return -1
	case gcMode:
		if lr.env.mode == x.val {
			return 1
		}
		return 0
	case gcIter:
		st, ok := lr.env.iter[x.iv]
		if !ok {
			return -1
		}
		if (x.last && st.last) || (!x.last && st.first) {
			return 1
		}
		return 0
	case gcLocal:
		for _, a := range lr.f.assigns[x.obj] {
			if lr.eval3(a.cond) < 0 {
				return -1
			}
		}
		if lr.env.eval(x) {
			return 1
		}
		return 0
	case gcTrip:
		t, ok := lr.trips[x.iv]
		if !ok {
			return -1
		}
		if t >= 3 && x.k >= 3 {
			return -1
		}
		var b bool
		switch x.op {
		case token.EQL:
			b = int64(t) == x.k
		case token.NEQ:
			b = int64(t) != x.k
		case token.GTR:
			b = int64(t) > x.k
		case token.LSS:
			b = int64(t) < x.k
		case token.GEQ:
			b = int64(t) >= x.k
		case token.LEQ:
			b = int64(t) <= x.k
		}
		if b {
			return 1
		}
		return 0
	}
	return -1
}

// exec runs a node on a set of list states.
func (lr *lcRun) exec(n gtNode, s lcSet) lcSet {
	if len(s) == 0 {
		return s
	}
	switch x := n.(type) {
	case *gtLit:
		toks := vTokRe.FindAllString(vStrip(x.text), -1)
		if len(toks) == 0 {
			return s
		}
		out := lcSet{}
		for st := range s {
			open := st
			for _, tok := range toks {
				switch {
				case tok == ";":
					open = 0
				case tok == "localparam":
					lr.sawKw = true
					if open != 0 {
						lr.viol[open] = tok
					}
					open = x.pos
				case vItemKw[tok]:
					if open != 0 {
						lr.viol[open] = tok
						open = 0
					}
				}
			}
			out[open] = true
		}
		return out
	case *gtSeq:
		for _, it := range x.items {
			s = lr.exec(it, s)
		}
		return s
	case *gtAlt:
		switch lr.eval3(x.c) {
		case 1:
			return lr.exec(x.then, s)
		case 0:
			return lr.exec(x.els, s)
		}
		return lr.exec(x.then, s).union(lr.exec(x.els, s))
	case *gtLoop:
		out := lcSet{}
		for t := x.tripMin; ; t++ {
			cur := s
			lr.trips[x.iv] = t
			n := t
			if n > 3 {
				n = 3
			}
			for j := 0; j < n; j++ {
				lr.env.iter[x.iv] = gtIterState{first: j == 0, last: j == n-1}
				cur = lr.exec(x.body, cur)
				if t >= 3 && j == 1 {
					// "3 or more": the middle iteration may repeat
					cur = cur.union(lr.exec(x.body, cur))
				}
			}
			delete(lr.env.iter, x.iv)
			delete(lr.trips, x.iv)
			out = out.union(cur)
			if t >= 3 {
				break
			}
		}
		return out
	case *gtRange:
		cur := s
		for k := 0; k < 3; k++ {
			cur = cur.union(lr.exec(x.body, cur))
		}
		return cur
	}
	return s
}

func c18ListClose(r *core.Run, prog *core.Program) {
	nFuncs, nLists := 0, 0
	for _, rel := range []string{"pkg/procbuilder", "pkg/bondmachine"} {
		pk := prog.Pkg(rel)
		if pk == nil {
			continue
		}
		info := pk.TypesInfo
		core.FuncDecls(pk, func(_ *ast.File, fd *ast.FuncDecl) {
			if fd.Body == nil {
				return
			}
			// only generators that spell a parameter list in pieces
			has := false
			ast.Inspect(fd.Body, func(m ast.Node) bool {
				if e, ok := m.(ast.Expr); ok {
					if sv, ok := constStr(info, e); ok && len(sv) < 1500 && strings.Contains(sv, "localparam") {
						has = true
					}
				}
				return !has
			})
			if !has {
				return
			}
			f := gtBuild(info, fd)
			if f == nil || f.acc == nil {
				return
			}
			funcs := map[types.Object]*gtFunc{}
			for o := range f.consts {
				funcs[o] = f
			}
			modes := map[string]bool{}
			gtWalk(f.tree, gcTrue{}, func(_ *gtLit, pc gtCond) { gtAtoms(pc, funcs, map[string]bool{}, modes, map[types.Object]bool{}) }, nil)
			var ms []string
			for m := range modes {
				ms = append(ms, m)
			}
			sort.Strings(ms)
			if len(ms) == 0 {
				ms = []string{"ha"}
			}
			viol := map[token.Pos]string{}
			saw := false
			for _, m := range ms {
				lr := &lcRun{f: f, env: &gtEnv{mode: m, atoms: map[string]bool{}, iter: map[types.Object]gtIterState{}, funcs: funcs}, trips: map[types.Object]int{}, viol: viol}
				lr.exec(f.tree, lcSet{0: true})
				saw = saw || lr.sawKw
			}
			if !saw {
				return
			}
			nFuncs++
			fkey := core.FuncKey(pk, fd)
			if len(viol) == 0 {
				nLists++
				r.OK("C18/LISTCLOSE", "C18/LISTCLOSE:"+fkey, prog.Pos(fd.Pos()), "every parameter list is closed before the next module item on every path (loops counted 0, 1, 2, 3+ times)")
				return
			}
			var ps []token.Pos
			for p := range viol {
				ps = append(ps, p)
			}
			sort.Slice(ps, func(i, j int) bool { return ps[i] < ps[j] })
			for i, p := range ps {
				nLists++
				r.Violation("C18/LISTCLOSE", fmt.Sprintf("C18/LISTCLOSE:%s:list#%d-open-before-%s", fkey, i, viol[p]), prog.Pos(p), fmt.Sprintf("the localparam list %s opens here can still be open when the next module item (`%s`) is emitted: its terminating `;` comes only from an iteration of a loop that may not run, or under another condition — the emitted file does not parse", fkey, viol[p]))
			}
		})
	}
	r.Count("listclose_generators", nFuncs)
}
