package checks

import (
	"fmt"
	"go/ast"
	"go/token"
	"go/types"
	"sort"
	"strings"

	"bmverif/internal/core"
	"golang.org/x/tools/go/ssa"
)

func init() {
	register("C09", checkC09)
	describe("C09", Meta{
		Technique: "effect/ownership (confinement) analysis on go/ssa with interprocedural write summaries: every store, map update, append/copy and write-assumed external call on the simulation path is traced to the root of the written address (parameter, package-level variable, captured variable, fresh memory), resolving go/ssa's spilled value receivers",
		Claim:     "Decides the confinement clauses of C09: (R1) every Opcode.Simulate implementation and its callees write only memory reachable from the *VM argument (not through vm.Mach) or fresh memory — never through the process-wide opcode singleton, a package-level variable or the Machine shared by processors; (R2) nothing reachable from the per-tick simulation entry points writes package-level state; (R3) the per-processor worker touches vm.Processors only at its own procId; (R7) CopyState assigns no map or slice of the source VM to the copy; (R4) between telling the workers to step and collecting their completion messages the coordinator stores nothing into the processors' state; (R5) a loop that receives the workers' completion messages (a channel field several goroutines send on) builds no order-sensitive result (string concatenation, unsorted append) in arrival order. A necessary condition for schedule- and co-simulation-independence; data races inside one VM between the stepping goroutines and the driver, and DelayDistribution randomness, are not decided. (NONBLOCK) no select with a default clause receives from a channel in the simulator packages.",
		Note:      "Calls through interfaces fan out to every implementation in the module; external (stdlib) methods with pointer receivers are assumed to write their receiver unless on a short read-only list; call results of module functions are mapped through a one-level return summary. Summaries are depth-bounded (8).",
		DesignRef: "DESIGN.md §2 C09",
	})
}

// entry points of the per-tick simulation path (R2)
var c09Entries = []struct{ rel, recv, name string }{
	{"pkg/bondmachine", "VM", "Step"},
	{"pkg/bondmachine", "VM", "Processor_execute"},
	{"pkg/bondmachine", "Bondmachine", "SinglePipelineSimulate"},
	{"pkg/bondmachine", "Bondmachine", "Fitness_default"},
	{"pkg/procbuilder", "VM", "Step"},
	{"pkg/procbuilder", "Machine", "Simulation_fitness"},
}

// c09BenignGlobals: package-level effects on the simulation path that are part of the stated
// behaviour (one named effect, one reason).
var c09BenignGlobals = map[string]string{
	"math/rand (process-wide generator) written in pkg/simbox.DelayDistribution.GetValue": "stochastic instruction delays are the documented purpose of SimDelays; they are drawn only when a delay distribution is configured for the opcode, and the property's 'given stimuli' excludes a random delay model",
}

func checkC09(r *core.Run) {
	r.Explanation = "Decides confinement clauses of C09 on the SSA form of the whole module: R1 over every Simulate method of pkg/procbuilder (and pkg/bondmachine shared-object Simulate-like callees it reaches), R2 over everything reachable from the simulation entry points through module-internal calls, R3 over the per-processor worker. " +
		"Does NOT decide: races on VM-internal state ordered only by the channel handshake, determinism of DelayDistribution.GetValue, cross-process effects."
	r.Assumptions = []string{"opcode objects in Allopcodes are process-wide singletons shared by every processor and simulation (machine.go)", "a Machine (vm.Mach) is shared by all processors of a domain and by concurrent simulations"}
	prog := r.Load(core.LoadConfig{SSA: true})
	if prog == nil {
		return
	}
	c := newConfiner(prog)

	// ---- R1
	sims := methodsNamed(prog, "pkg/procbuilder", "Simulate")
	r.Count("simulate_methods", len(sims))
	nEff := 0
	for _, fn := range sims {
		fkey := core.SSAFuncKey(fn)
		// which parameter is the *VM ?
		vmIdx := -1
		for i, p := range fn.Params {
			if strings.HasSuffix(p.Type().String(), "pkg/procbuilder.VM") {
				vmIdx = i
			}
		}
		if vmIdx < 0 {
			continue // not the opcode Simulate signature
		}
		bad := map[string]effect{}
		for _, e := range c.summary(fn, 0) {
			nEff++
			if e.r.kind == rkParam && e.r.idx == vmIdx && !e.r.viaMach {
				continue
			}
			where := ""
			switch {
			case e.r.kind == rkParam && e.r.idx == 0 && vmIdx != 0:
				where = "receiver"
			case e.r.kind == rkParam && e.r.viaMach:
				where = "vm.Mach"
			case e.r.kind == rkParam:
				where = fmt.Sprintf("param%d", e.r.idx)
			case e.r.kind == rkGlobal:
				where = "global:" + e.r.name
			case e.r.kind == rkFree:
				where = "captured:" + e.r.name
			default:
				where = "unknown"
			}
			if _, dup := bad[where]; !dup {
				bad[where] = e
			}
		}
		if len(bad) == 0 {
			r.OK("C09/CONFINE", "C09/CONFINE:"+fkey, prog.Pos(fn.Pos()), "writes only memory reachable from the *VM argument or fresh memory")
			continue
		}
		var ws []string
		for w := range bad {
			ws = append(ws, w)
		}
		sort.Strings(ws)
		for _, w := range ws {
			e := bad[w]
			detail := ""
			switch {
			case w == "receiver":
				detail = "writes through a pointer held by the opcode object itself; opcode objects are process-wide singletons (Allopcodes), so two processors or two simulations executing this opcode share that state"
			case w == "vm.Mach":
				detail = "writes through vm.Mach: the Machine is shared by every processor of the domain and by concurrent simulations"
			case strings.HasPrefix(w, "global:"):
				detail = "writes package-level state " + e.r.name + " during instruction execution: concurrent or successive simulations in one process influence one another"
			default:
				detail = "writes memory that is not owned by the executing VM (" + w + ")"
			}
			r.Violation("C09/CONFINE", "C09/CONFINE:"+fkey+":"+w, prog.Pos(e.pos), fmt.Sprintf("%s (%s at %s): %s", fkey, e.what, r.Rel(prog.Pos(e.pos)), detail), e.via...)
		}
	}
	r.Count("simulate_effects_traced", nEff)

	// ---- R2: package-level writes reachable from the simulation entry points
	var entries []*ssa.Function
	for _, e := range c09Entries {
		for _, fn := range methodsNamed(prog, e.rel, e.name) {
			if strings.Contains(core.SSAFuncKey(fn), "."+e.recv+".") {
				entries = append(entries, fn)
			}
		}
	}
	r.Count("simulation_entry_points", len(entries))
	type gw struct {
		e     effect
		entry string
	}
	globals := map[string]gw{}
	for _, en := range entries {
		for _, e := range c.summary(en, 0) {
			if e.r.kind != rkGlobal {
				continue
			}
			writer := core.SSAFuncKey(en)
			if len(e.via) > 0 {
				writer = e.via[len(e.via)-1]
			}
			k := e.r.name + " written in " + writer
			if _, dup := globals[k]; !dup {
				globals[k] = gw{e, core.SSAFuncKey(en)}
			}
		}
	}
	var gks []string
	for k := range globals {
		gks = append(gks, k)
	}
	sort.Strings(gks)
	for _, k := range gks {
		g := globals[k]
		path := append([]string{g.entry}, g.e.via...)
		if why, ok := c09BenignGlobals[k]; ok {
			r.Note("C09/GLOBALWRITE", "C09/GLOBALWRITE:"+k, prog.Pos(g.e.pos), "benign exception: "+why)
			continue
		}
		r.Violation("C09/GLOBALWRITE", "C09/GLOBALWRITE:"+k, prog.Pos(g.e.pos), fmt.Sprintf("package-level state %s (%s) is reachable from the per-tick simulation path: simulations running concurrently or one after the other in one process share it", k, g.e.what), path...)
	}
	if len(gks) == 0 {
		r.OK("C09/GLOBALWRITE", "C09/GLOBALWRITE:none", "", "no package-level write reachable from the simulation entry points")
	}
	r.Count("global_writes_on_sim_path", len(gks))

	// ---- R6: per-VM deferred instructions act on the VM they are executed for
	deferredClosureConfinement(r, prog, "C09")

	// ---- R5: arrival order of the workers' completion messages does not reach the reports
	c09Arrival(r, prog)

	// ---- R7: a state copy shares no mutable container with its source
	c09CopyAlias(r, prog)

	// ---- R4: the coordinator does not touch the processors while the workers are stepping them
	c09Phase(r, prog)

	// ---- R3: the worker only touches its own processor
	for _, fn := range methodsNamed(prog, "pkg/bondmachine", "Processor_execute") {
		fkey := core.SSAFuncKey(fn)
		var procID *ssa.Parameter
		for _, p := range fn.Params {
			if p.Name() == "procId" || (p.Type().String() == "int" && procID == nil) {
				procID = p
			}
		}
		okAll := true
		n := 0
		for _, b := range fn.Blocks {
			for _, ins := range b.Instrs {
				ia, ok := ins.(*ssa.IndexAddr)
				if !ok {
					continue
				}
				// base is a load of vm.Processors ?
				u, ok := ia.X.(*ssa.UnOp)
				if !ok {
					continue
				}
				fa, ok := u.X.(*ssa.FieldAddr)
				if !ok {
					continue
				}
				st := fa.X.Type().Underlying().(*types.Pointer).Elem().Underlying().(*types.Struct)
				if st.Field(fa.Field).Name() != "Processors" {
					continue
				}
				n++
				if ia.Index != ssa.Value(procID) {
					okAll = false
					r.Violation("C09/WORKER", "C09/WORKER:"+fkey+":index", prog.Pos(ia.Pos()), "the per-processor worker indexes vm.Processors with something other than its own procId: two workers may step the same processor VM concurrently")
				}
			}
		}
		// no direct store to vm fields
		for _, e := range c.summary(fn, 0) {
			if e.r.kind == rkParam && e.r.idx == 0 && len(e.via) == 0 {
				okAll = false
				r.Violation("C09/WORKER", "C09/WORKER:"+fkey+":store", prog.Pos(e.pos), "the per-processor worker stores directly into the shared bondmachine VM (outside its own processor): unsynchronised with the other workers")
			}
		}
		r.Count("worker_processor_index_sites", n)
		if okAll {
			r.OK("C09/WORKER", "C09/WORKER:"+fkey, prog.Pos(fn.Pos()), "worker touches vm.Processors only at procId and stores nothing else into the VM directly")
		}
	}
	c09NonBlocking(r, prog)
}


// c09Arrival (C09/ARRIVAL): a channel stored in a struct field on which several goroutines send
// (the same field is handed, unindexed, to a function launched with `go` inside a loop, and that
// function sends on it) delivers its messages in scheduler order. A loop that receives from that
// field and, in the same iteration, builds an order-sensitive result (string concatenation, append
// without a later sort) makes that result depend on the interleaving of the workers.
func c09Arrival(r *core.Run, prog *core.Program) {
	n := 0
	for _, rel := range []string{"pkg/bondmachine", "pkg/procbuilder"} {
		sp := prog.SSAPkg(rel)
		pk := prog.Pkg(rel)
		if sp == nil || pk == nil {
			continue
		}
		// 1. multi-sender channel fields
		multi := map[*types.Var]string{}
		fieldOfLoad := func(v ssa.Value) *types.Var {
			u, ok := stripConv(v).(*ssa.UnOp)
			if !ok || u.Op != token.MUL {
				return nil
			}
			fa, ok := u.X.(*ssa.FieldAddr)
			if !ok {
				return nil
			}
			return fieldOfAddr(fa)
		}
		var fns []*ssa.Function
		for fn := range allFuncsOf(prog, sp) {
			fns = append(fns, fn)
		}
		sort.Slice(fns, func(i, j int) bool { return fns[i].String() < fns[j].String() })
		for _, fn := range fns {
			for _, l := range launchesIn(prog, fn) {
				if !blockInCycle(l.g.Block()) {
					continue
				}
				for _, c := range l.callees {
					if c.Blocks == nil {
						continue
					}
					sum := summarizeGo(c)
					act := l.actuals[c]
					for si := range unionKeys(sum.sendLoop, sum.sendAfter) {
						if si >= len(act) {
							continue
						}
						if f := fieldOfLoad(act[si]); f != nil {
							multi[f] = core.SSAFuncKey(c)
						}
					}
				}
			}
		}
		// 2. receiving loops with an order-sensitive accumulation
		info := pk.TypesInfo
		core.FuncDecls(pk, func(_ *ast.File, fd *ast.FuncDecl) {
			k := 0
			ast.Inspect(fd.Body, func(nd ast.Node) bool {
				loop, ok := nd.(*ast.ForStmt)
				if !ok {
					return true
				}
				var recvF *types.Var
				var recvPos token.Pos
				ast.Inspect(loop.Body, func(m ast.Node) bool {
					if u, ok := m.(*ast.UnaryExpr); ok && u.Op == token.ARROW {
						if f := core.FieldOf(info, u.X); f != nil {
							if _, isMulti := multi[f]; isMulti && recvF == nil {
								recvF, recvPos = f, u.Pos()
							}
						}
					}
					return true
				})
				if recvF == nil {
					return true
				}
				k++
				n++
				inst := fmt.Sprintf("C09/ARRIVAL:%s:loop%d:%s", core.FuncKey(pk, fd), k, recvF.Name())
				what, wpos := "", token.NoPos
				ast.Inspect(loop.Body, func(m ast.Node) bool {
					as, ok := m.(*ast.AssignStmt)
					if !ok || what != "" || len(as.Lhs) != 1 || len(as.Rhs) != 1 {
						return true
					}
					t := info.TypeOf(as.Lhs[0])
					if t == nil {
						return true
					}
					if b, ok := t.Underlying().(*types.Basic); ok && b.Info()&types.IsString != 0 && as.Tok == token.ADD_ASSIGN {
						what, wpos = "string concatenation into "+types.ExprString(as.Lhs[0]), as.Pos()
					}
					if call, ok := as.Rhs[0].(*ast.CallExpr); ok {
						if id, ok := call.Fun.(*ast.Ident); ok && id.Name == "append" {
							what, wpos = "append to "+types.ExprString(as.Lhs[0]), as.Pos()
						}
					}
					return true
				})
				if what == "" {
					r.OK("C09/ARRIVAL", inst, prog.Pos(recvPos), "messages of the workers are consumed without building an order-sensitive result")
				} else {
					r.Violation("C09/ARRIVAL", inst, prog.Pos(wpos), fmt.Sprintf("%s receives the completion messages of the per-processor workers (%s, one goroutine per processor, all sending on %s) in scheduler order and builds its report in that order (%s): two runs of the same simulation give differently ordered reports whenever more than one processor has something to report in a tick", core.FuncKey(pk, fd), multi[recvF], recvF.Name(), what))
				}
				return true
			})
		})
	}
	r.Count("multi_sender_receive_loops", n)
}


// c09Phase (C09/PHASE): the per-tick barrier. In a function of pkg/bondmachine that tells the
// per-processor workers to step (a send on an element of a slice-of-channels field) and then collects
// their completion messages (receives from the channel field they all send on), everything the
// coordinator writes into the processors' state (memory reached through vm.Processors) must happen
// before the first go-ahead or after the last completion: a write placed between the two races with
// the worker that is executing an instruction on that very state, and whether the worker sees the old
// or the new value depends on the scheduler.
func c09Phase(r *core.Run, prog *core.Program) {
	sp := prog.SSAPkg("pkg/bondmachine")
	if sp == nil {
		return
	}
	fieldNameOfLoad := func(v ssa.Value) (string, bool) { // load of X.f  |  load of X.f[i]
		u, ok := stripConv(v).(*ssa.UnOp)
		if !ok || u.Op != token.MUL {
			return "", false
		}
		switch a := u.X.(type) {
		case *ssa.FieldAddr:
			if f := fieldOfAddr(a); f != nil {
				return f.Name(), false
			}
		case *ssa.IndexAddr:
			if u2, ok := a.X.(*ssa.UnOp); ok && u2.Op == token.MUL {
				if fa, ok := u2.X.(*ssa.FieldAddr); ok {
					if f := fieldOfAddr(fa); f != nil {
						return f.Name(), true
					}
				}
			}
		}
		return "", false
	}
	throughProcessors := func(addr ssa.Value) bool {
		v := addr
		for i := 0; i < 12; i++ {
			switch x := v.(type) {
			case *ssa.FieldAddr:
				if f := fieldOfAddr(x); f != nil && f.Name() == "Processors" && f.Pkg() != nil && strings.HasSuffix(f.Pkg().Path(), "pkg/bondmachine") {
					return true
				}
				v = x.X
			case *ssa.IndexAddr:
				v = x.X
			case *ssa.UnOp:
				v = x.X
			case *ssa.Field:
				v = x.X
			case *ssa.Index:
				v = x.X
			case *ssa.Lookup:
				v = x.X
			case *ssa.ChangeType:
				v = x.X
			case *ssa.Slice:
				v = x.X
			default:
				return false
			}
		}
		return false
	}
	reach := func(from, to ssa.Instruction) bool {
		if from.Block() == to.Block() && instrIndex(from) < instrIndex(to) {
			return true
		}
		return blockReaches(from.Block(), to.Block())
	}
	n := 0
	var fns []*ssa.Function
	for fn := range allFuncsOf(prog, sp) {
		fns = append(fns, fn)
	}
	sort.Slice(fns, func(i, j int) bool { return fns[i].String() < fns[j].String() })
	// helpers: functions that only dispatch, or only join (the two loops of VM.Step moved into methods)
	hasDispatch, hasJoin, hasProcWrite := map[*ssa.Function]bool{}, map[*ssa.Function]bool{}, map[*ssa.Function]bool{}
	for _, fn := range fns {
		for _, b := range fn.Blocks {
			for _, ins := range b.Instrs {
				switch x := ins.(type) {
				case *ssa.Store:
					if throughProcessors(x.Addr) {
						hasProcWrite[fn] = true
					}
				case *ssa.MapUpdate:
					if throughProcessors(x.Map) {
						hasProcWrite[fn] = true
					}
				case *ssa.Send:
					if _, indexed := fieldNameOfLoad(x.Chan); indexed {
						hasDispatch[fn] = true
					}
				case *ssa.UnOp:
					if x.Op == token.ARROW {
						if nm, indexed := fieldNameOfLoad(x.X); nm != "" && !indexed {
							hasJoin[fn] = true
						}
					}
				}
			}
		}
	}
	for _, fn := range fns {
		var dispatch, join, writes []ssa.Instruction
		for _, b := range fn.Blocks {
			for _, ins := range b.Instrs {
				if call, ok := ins.(*ssa.Call); ok {
					if c := call.Call.StaticCallee(); c != nil && c != fn {
						if hasDispatch[c] && !hasJoin[c] {
							dispatch = append(dispatch, ins)
						}
						if hasJoin[c] && !hasDispatch[c] {
							join = append(join, ins)
						}
						if hasProcWrite[c] && !hasDispatch[c] && !hasJoin[c] {
							writes = append(writes, ins) // a helper of the coordinator that writes processors' state
						}
					}
				}
				switch x := ins.(type) {
				case *ssa.Send:
					if _, indexed := fieldNameOfLoad(x.Chan); indexed {
						dispatch = append(dispatch, ins)
					}
				case *ssa.UnOp:
					if x.Op == token.ARROW {
						if nm, indexed := fieldNameOfLoad(x.X); nm != "" && !indexed {
							join = append(join, ins)
						}
					}
				case *ssa.Store:
					if throughProcessors(x.Addr) {
						writes = append(writes, ins)
					}
				case *ssa.MapUpdate:
					if throughProcessors(x.Map) {
						writes = append(writes, ins)
					}
				}
			}
		}
		if len(dispatch) == 0 || len(join) == 0 {
			continue
		}
		n++
		fkey := core.SSAFuncKey(fn)
		bad := 0
		for _, w := range writes {
			afterDispatch, beforeJoin := false, false
			for _, d := range dispatch {
				if reach(d, w) {
					afterDispatch = true
				}
			}
			for _, j := range join {
				if reach(w, j) {
					beforeJoin = true
				}
			}
			if afterDispatch && beforeJoin {
				bad++
				r.Violation("C09/PHASE", fmt.Sprintf("C09/PHASE:%s:write%d", fkey, bad), prog.Pos(w.Pos()), fmt.Sprintf("%s writes into a processor's state (through vm.Processors) after it has told the workers to step and before it has collected their completion messages: the worker executing an instruction on that processor reads the old or the new value depending on the scheduler (and the access is a data race)", fkey))
			}
		}
		if bad == 0 {
			r.OK("C09/PHASE", "C09/PHASE:"+fkey, prog.Pos(fn.Pos()), fmt.Sprintf("%d writes into the processors' state, all before the go-ahead or after the join", len(writes)))
		}
	}
	r.Count("dispatch_join_functions", n)
}


// c09CopyAlias (C09/COPYALIAS): VM.CopyState makes the checkpoints and what-if copies that
// simulations compare against and branch from. A map or slice field of the copy that is assigned the
// source's own map/slice (instead of a fresh one that is then filled) is shared: whatever the live VM
// — or the copy — inserts later shows up in the other, so a checkpoint follows the run and a what-if
// copy steers the original. Pointers to the (immutable) machine description and channels are shared by
// design and not reported.
func c09CopyAlias(r *core.Run, prog *core.Program) {
	n := 0
	for _, rel := range []string{"pkg/procbuilder", "pkg/bondmachine"} {
		pk := prog.Pkg(rel)
		if pk == nil {
			continue
		}
		info := pk.TypesInfo
		core.FuncDecls(pk, func(_ *ast.File, fd *ast.FuncDecl) {
			if fd.Name.Name != "CopyState" || fd.Recv == nil || len(fd.Recv.List[0].Names) == 0 || len(fd.Type.Params.List) == 0 || len(fd.Type.Params.List[0].Names) == 0 {
				return
			}
			dst := info.ObjectOf(fd.Recv.List[0].Names[0])
			src := info.ObjectOf(fd.Type.Params.List[0].Names[0])
			rootIs := func(e ast.Expr, o types.Object) bool {
				for {
					switch x := ast.Unparen(e).(type) {
					case *ast.Ident:
						return info.ObjectOf(x) == o
					case *ast.SelectorExpr:
						e = x.X
					case *ast.IndexExpr:
						e = x.X
					case *ast.SliceExpr:
						e = x.X
					case *ast.StarExpr:
						e = x.X
					default:
						return false
					}
				}
			}
			k := 0
			bad := 0
			ast.Inspect(fd.Body, func(m ast.Node) bool {
				as, ok := m.(*ast.AssignStmt)
				if !ok || len(as.Lhs) != len(as.Rhs) {
					return true
				}
				for i, l := range as.Lhs {
					f := core.FieldOf(info, l)
					if f == nil || !rootIs(l, dst) {
						continue
					}
					switch f.Type().Underlying().(type) {
					case *types.Map, *types.Slice:
					default:
						continue
					}
					k++
					n++
					if rootIs(as.Rhs[i], src) {
						bad++
						r.Violation("C09/COPYALIAS", fmt.Sprintf("C09/COPYALIAS:%s:%s", core.FuncKey(pk, fd), f.Name()), prog.Pos(as.Pos()), fmt.Sprintf("%s assigns the source's own %s to the copy on some path (%s = %s): the two VMs share that container from then on — an entry one of them inserts later (opcode state, a deferred instruction, …) appears in the other, so a checkpoint changes while the live VM runs and a what-if copy influences the simulation it was taken from", core.FuncKey(pk, fd), f.Name(), types.ExprString(l), types.ExprString(as.Rhs[i])))
					}
				}
				return true
			})
			if bad == 0 {
				r.OK("C09/COPYALIAS", "C09/COPYALIAS:"+core.FuncKey(pk, fd), prog.Pos(fd.Pos()), fmt.Sprintf("%d container field(s) of the copy are assigned fresh containers", k))
			}
		})
	}
	r.Count("copystate_container_assignments", n)
}
