package checks

import (
	"fmt"
	"go/token"
	"go/types"
	"sort"
	"strings"

	"bmverif/internal/core"
	"golang.org/x/tools/go/ssa"
)

// E3 CONFINE — effect / ownership analysis on go/ssa: which memory may a function write?
// Every store, map update, append/copy/delete and write-assumed external call is traced
// to the roots of the written address: a parameter (by index), a package-level variable,
// a free variable, or fresh memory. Calls are followed through summaries (module callees,
// interface calls fan out to every implementation in the module), depth-bounded.

type rootKind int

const (
	rkParam rootKind = iota
	rkGlobal
	rkFresh
	rkFree
	rkUnknown
)

type root struct {
	kind    rootKind
	idx     int    // parameter index
	name    string // global / free variable name
	viaMach bool   // reached through a load of (*VM).Mach — the Machine shared by processors and simulations
}

func (r root) String() string {
	s := ""
	switch r.kind {
	case rkParam:
		s = fmt.Sprintf("param#%d", r.idx)
	case rkGlobal:
		s = "global " + r.name
	case rkFresh:
		s = "fresh"
	case rkFree:
		s = "captured " + r.name
	default:
		s = "unknown"
	}
	if r.viaMach {
		s += " via .Mach"
	}
	return s
}

type rootSet map[root]bool

func (a rootSet) addAll(b rootSet) {
	for k := range b {
		a[k] = true
	}
}

// effect is one write a function may perform, in terms of its own roots.
type effect struct {
	r    root
	pos  token.Pos
	what string
	via  []string // call chain from the summarised function to the writing instruction
}

type confiner struct {
	prog     *core.Program
	sums     map[*ssa.Function][]effect
	inprog   map[*ssa.Function]bool
	rootMemo map[ssa.Value]rootSet
	maxDepth int
	implMemo map[string][]*ssa.Function
}

func newConfiner(prog *core.Program) *confiner {
	return &confiner{prog: prog, sums: map[*ssa.Function][]effect{}, inprog: map[*ssa.Function]bool{}, rootMemo: map[ssa.Value]rootSet{}, maxDepth: 8, implMemo: map[string][]*ssa.Function{}}
}

func allocsUnder(v ssa.Value, seen map[ssa.Value]bool, out map[*ssa.Alloc]bool) {
	if seen[v] {
		return
	}
	seen[v] = true
	switch x := v.(type) {
	case *ssa.Alloc:
		out[x] = true
	case *ssa.FieldAddr:
		allocsUnder(x.X, seen, out)
	case *ssa.IndexAddr:
		allocsUnder(x.X, seen, out)
	case *ssa.Phi:
		for _, e := range x.Edges {
			allocsUnder(e, seen, out)
		}
	}
}

// fieldPath describes an address as the chain of struct field indices below its base; ok=false
// when the chain contains an index step or a phi (then the comparison is not attempted).
func fieldPath(v ssa.Value) (string, bool) {
	path := ""
	for {
		switch x := v.(type) {
		case *ssa.FieldAddr:
			path = fmt.Sprintf(".%d%s", x.Field, path)
			v = x.X
		case *ssa.Alloc:
			return path, true
		default:
			return "", false
		}
	}
}

// differentFieldPaths: both addresses are pure field chains of a local and name different fields
// (neither is a prefix of the other), so a store to one cannot be observed by a load of the other.
func differentFieldPaths(a, b ssa.Value) bool {
	pa, oka := fieldPath(a)
	pb, okb := fieldPath(b)
	if !oka || !okb {
		return false
	}
	if strings.HasPrefix(pa, pb) || strings.HasPrefix(pb, pa) {
		return false
	}
	return true
}

func isMachField(fa *ssa.FieldAddr) bool {
	pt, ok := fa.X.Type().Underlying().(*types.Pointer)
	if !ok {
		return false
	}
	st, ok := pt.Elem().Underlying().(*types.Struct)
	if !ok {
		return false
	}
	f := st.Field(fa.Field)
	return f.Name() == "Mach" && f.Pkg() != nil && strings.HasSuffix(f.Pkg().Path(), "pkg/procbuilder")
}

func (c *confiner) rootsOf(v ssa.Value) rootSet {
	if r, ok := c.rootMemo[v]; ok {
		return r
	}
	out := rootSet{}
	c.rootMemo[v] = out // cycle guard (phis)
	switch x := v.(type) {
	case *ssa.Parameter:
		for i, p := range x.Parent().Params {
			if p == x {
				out[root{kind: rkParam, idx: i}] = true
			}
		}
	case *ssa.Global:
		out[root{kind: rkGlobal, name: x.Pkg.Pkg.Name() + "." + x.Name()}] = true
	case *ssa.FreeVar:
		out[root{kind: rkFree, name: x.Name()}] = true
	case *ssa.Alloc, *ssa.MakeMap, *ssa.MakeSlice, *ssa.MakeChan, *ssa.MakeClosure:
		out[root{kind: rkFresh}] = true
	case *ssa.FieldAddr:
		out.addAll(c.rootsOf(x.X))
	case *ssa.IndexAddr:
		out.addAll(c.rootsOf(x.X))
	case *ssa.Field:
		out.addAll(c.rootsOf(x.X))
	case *ssa.Index:
		out.addAll(c.rootsOf(x.X))
	case *ssa.Lookup:
		out.addAll(c.rootsOf(x.X))
	case *ssa.Slice:
		out.addAll(c.rootsOf(x.X))
	case *ssa.TypeAssert:
		out.addAll(c.rootsOf(x.X))
	case *ssa.ChangeType:
		out.addAll(c.rootsOf(x.X))
	case *ssa.ChangeInterface:
		out.addAll(c.rootsOf(x.X))
	case *ssa.MakeInterface:
		out.addAll(c.rootsOf(x.X))
	case *ssa.Convert:
		out.addAll(c.rootsOf(x.X))
	case *ssa.Extract:
		out.addAll(c.rootsOf(x.Tuple))
	case *ssa.Phi:
		for _, e := range x.Edges {
			out.addAll(c.rootsOf(e))
		}
	case *ssa.UnOp:
		if x.Op == token.MUL {
			// a load. go/ssa spills value receivers and address-taken locals into Allocs:
			// resolve the load through every store into the same local.
			as := map[*ssa.Alloc]bool{}
			allocsUnder(x.X, map[ssa.Value]bool{}, as)
			resolved := false
			for a := range as {
				if a.Parent() == nil {
					continue
				}
				for _, b := range a.Parent().Blocks {
					for _, ins := range b.Instrs {
						if st, ok := ins.(*ssa.Store); ok {
							as2 := map[*ssa.Alloc]bool{}
							allocsUnder(st.Addr, map[ssa.Value]bool{}, as2)
							if as2[a] && !differentFieldPaths(st.Addr, x.X) {
								out.addAll(c.rootsOf(st.Val))
								resolved = true
							}
						}
					}
				}
			}
			if len(as) == 0 || !resolved {
				out.addAll(c.rootsOf(x.X))
			}
			if len(as) > 0 {
				out[root{kind: rkFresh}] = true
			}
			if fa, ok := x.X.(*ssa.FieldAddr); ok && isMachField(fa) {
				marked := rootSet{}
				for r := range out {
					r.viaMach = true
					marked[r] = true
				}
				for k := range out {
					delete(out, k)
				}
				out.addAll(marked)
			}
		} else {
			out.addAll(c.rootsOf(x.X))
		}
	case *ssa.Call:
		// result of a call: roots of what the callee may return
		out.addAll(c.callResultRoots(x))
	case *ssa.Const, *ssa.Function, *ssa.Builtin:
	default:
		// arithmetic etc.: no memory root
	}
	return out
}

// callResultRoots maps what a callee returns to the caller's roots (depth 1: module callees
// returning a parameter-rooted or global-rooted pointer); anything else is fresh.
func (c *confiner) callResultRoots(call *ssa.Call) rootSet {
	out := rootSet{}
	callee := call.Call.StaticCallee()
	if callee == nil || callee.Blocks == nil || !core.InModule(callee) {
		out[root{kind: rkFresh}] = true
		return out
	}
	if !pointerLike(call.Type()) {
		return out
	}
	for _, b := range callee.Blocks {
		for _, ins := range b.Instrs {
			ret, ok := ins.(*ssa.Return)
			if !ok {
				continue
			}
			for _, res := range ret.Results {
				if !pointerLike(res.Type()) {
					continue
				}
				for r := range c.rootsOf(res) {
					switch r.kind {
					case rkParam:
						if r.idx < len(call.Call.Args) {
							for ar := range c.rootsOf(call.Call.Args[r.idx]) {
								if r.viaMach {
									ar.viaMach = true
								}
								out[ar] = true
							}
						}
					case rkGlobal:
						out[r] = true
					default:
						out[root{kind: rkFresh}] = true
					}
				}
			}
		}
	}
	if len(out) == 0 {
		out[root{kind: rkFresh}] = true
	}
	return out
}

func pointerLike(t types.Type) bool {
	switch u := t.Underlying().(type) {
	case *types.Pointer, *types.Slice, *types.Map, *types.Chan, *types.Interface, *types.Signature:
		return true
	case *types.Tuple:
		for i := 0; i < u.Len(); i++ {
			if pointerLike(u.At(i).Type()) {
				return true
			}
		}
	case *types.Struct:
		for i := 0; i < u.NumFields(); i++ {
			if pointerLike(u.Field(i).Type()) {
				return true
			}
		}
	}
	return false
}

// external callees assumed to write through an argument.
var externalWriters = map[string][]int{
	"sort.Sort": {0}, "sort.Stable": {0}, "sort.Slice": {0}, "sort.SliceStable": {0}, "sort.Strings": {0}, "sort.Ints": {0}, "sort.Float64s": {0},
	"slices.Sort": {0}, "slices.SortFunc": {0}, "slices.Reverse": {0},
	"encoding/json.Unmarshal": {1}, "encoding/binary.Read": {2},
}

// read-only methods of external pointer-receiver types (everything else is assumed to write its receiver).
var externalReadOnlyMethods = map[string]bool{
	"String": true, "Error": true, "Len": true, "Load": true, "Range": true, "Get": true,
	"MatchString": true, "Match": true, "FindStringSubmatch": true, "FindString": true, "FindAllString": true, "FindAllStringSubmatch": true, "ReplaceAllString": true, "SubexpNames": true, "SubexpIndex": true, "NumSubexp": true,
	"Bytes": true, "Text": true, "Err": true, "Done": true, "Value": true, "Deadline": true,
	"Cmp": true, "Sign": true, "Int64": true, "Uint64": true, "Float64": true, "Float32": true, "IsInt": true, "BitLen": true,
	"Lock": true, "Unlock": true, "RLock": true, "RUnlock": true,
}

func (c *confiner) summary(fn *ssa.Function, depth int) []effect {
	if s, ok := c.sums[fn]; ok {
		return s
	}
	if c.inprog[fn] || depth > c.maxDepth {
		return nil
	}
	c.inprog[fn] = true
	defer delete(c.inprog, fn)
	var effs []effect
	seen := map[string]bool{}
	add := func(r root, pos token.Pos, what string, via []string) {
		if r.kind == rkFresh {
			return
		}
		k := fmt.Sprintf("%v|%d|%s", r, pos, what)
		if seen[k] {
			return
		}
		seen[k] = true
		effs = append(effs, effect{r, pos, what, via})
	}
	addAddr := func(addr ssa.Value, pos token.Pos, what string) {
		for r := range c.rootsOf(addr) {
			add(r, pos, what, nil)
		}
	}
	for _, b := range fn.Blocks {
		for _, ins := range b.Instrs {
			switch x := ins.(type) {
			case *ssa.Store:
				// a store into a purely local alloc is not an effect
				addAddr(x.Addr, x.Pos(), "store")
			case *ssa.MapUpdate:
				addAddr(x.Map, x.Pos(), "map update")
			case ssa.CallInstruction:
				cc := x.Common()
				if bi, ok := cc.Value.(*ssa.Builtin); ok {
					switch bi.Name() {
					case "append", "copy", "delete", "clear":
						if len(cc.Args) > 0 {
							addAddr(cc.Args[0], x.Pos(), bi.Name())
						}
					}
					continue
				}
				var callees []*ssa.Function
				if sc := cc.StaticCallee(); sc != nil {
					callees = []*ssa.Function{sc}
				} else if cc.IsInvoke() {
					callees = c.implementations(cc)
				} else {
					// call of a function value: closures created in this function
					if mc, ok := cc.Value.(*ssa.MakeClosure); ok {
						if f, ok := mc.Fn.(*ssa.Function); ok {
							callees = []*ssa.Function{f}
						}
					}
				}
				for _, callee := range callees {
					args := cc.Args
					if cc.IsInvoke() {
						args = append([]ssa.Value{cc.Value}, cc.Args...)
					}
					if callee.Blocks == nil || !core.InModule(callee) {
						c.externalEffects(callee, cc, args, x.Pos(), add)
						continue
					}
					for _, e := range c.summary(callee, depth+1) {
						via := append([]string{core.SSAFuncKey(callee)}, e.via...)
						switch e.r.kind {
						case rkParam:
							if e.r.idx < len(args) {
								for ar := range c.rootsOf(args[e.r.idx]) {
									if e.r.viaMach {
										ar.viaMach = true
									}
									add(ar, e.pos, e.what, via)
								}
							}
						case rkGlobal:
							add(e.r, e.pos, e.what, via)
						case rkFree:
							// captured variable of a closure: roots of the binding
							if mc, ok := cc.Value.(*ssa.MakeClosure); ok {
								for i, fv := range callee.FreeVars {
									if fv.Name() == e.r.name && i < len(mc.Bindings) {
										for ar := range c.rootsOf(mc.Bindings[i]) {
											add(ar, e.pos, e.what, via)
										}
									}
								}
							} else {
								add(root{kind: rkUnknown}, e.pos, e.what, via)
							}
						default:
							add(e.r, e.pos, e.what, via)
						}
					}
				}
			}
		}
	}
	sort.Slice(effs, func(i, j int) bool { return effs[i].pos < effs[j].pos })
	c.sums[fn] = effs
	return effs
}

func (c *confiner) externalEffects(callee *ssa.Function, cc *ssa.CallCommon, args []ssa.Value, pos token.Pos, add func(root, token.Pos, string, []string)) {
	name := callee.Name()
	pkg := ""
	if callee.Pkg != nil {
		pkg = callee.Pkg.Pkg.Path()
	} else if o := callee.Object(); o != nil && o.Pkg() != nil {
		pkg = o.Pkg().Path()
	}
	if recv := callee.Signature.Recv(); recv != nil {
		if _, isPtr := recv.Type().(*types.Pointer); isPtr && !externalReadOnlyMethods[name] && len(args) > 0 {
			for r := range c.rootsOf(args[0]) {
				add(r, pos, "call of "+pkg+"."+name+" (external method assumed to write its receiver)", nil)
			}
		}
		return
	}
	if idxs, ok := externalWriters[pkg+"."+name]; ok {
		for _, i := range idxs {
			if i < len(args) {
				for r := range c.rootsOf(args[i]) {
					add(r, pos, "call of "+pkg+"."+name, nil)
				}
			}
		}
	}
	if pkg == "math/rand" || pkg == "math/rand/v2" {
		add(root{kind: rkGlobal, name: "math/rand (process-wide generator)"}, pos, "call of "+pkg+"."+name, nil)
	}
}

// implementations lists the module's concrete methods an interface call may reach.
func (c *confiner) implementations(cc *ssa.CallCommon) []*ssa.Function {
	key := cc.Value.Type().String() + "." + cc.Method.Name()
	if v, ok := c.implMemo[key]; ok {
		return v
	}
	iface, ok := cc.Value.Type().Underlying().(*types.Interface)
	var out []*ssa.Function
	if ok {
		for _, sp := range sortedSSAPkgs(c.prog) {
			for _, m := range sp.Members {
				t, ok := m.(*ssa.Type)
				if !ok {
					continue
				}
				for _, tt := range []types.Type{t.Type(), types.NewPointer(t.Type())} {
					if _, isIface := tt.Underlying().(*types.Interface); isIface {
						continue
					}
					if !types.Implements(tt, iface) {
						continue
					}
					sel := c.prog.SSA.MethodSets.MethodSet(tt).Lookup(cc.Method.Pkg(), cc.Method.Name())
					if sel == nil {
						continue
					}
					if fn := c.prog.SSA.MethodValue(sel); fn != nil {
						out = append(out, fn)
					}
				}
			}
		}
	}
	// de-duplicate
	seen := map[*ssa.Function]bool{}
	var uniq []*ssa.Function
	for _, f := range out {
		if !seen[f] {
			seen[f] = true
			uniq = append(uniq, f)
		}
	}
	sort.Slice(uniq, func(i, j int) bool { return uniq[i].String() < uniq[j].String() })
	c.implMemo[key] = uniq
	return uniq
}

// methodsNamed lists every concrete method `name` of the types of package rel (value and pointer receivers).
func methodsNamed(prog *core.Program, rel, name string) []*ssa.Function {
	sp := prog.SSAPkg(rel)
	if sp == nil {
		return nil
	}
	seen := map[*ssa.Function]bool{}
	var out []*ssa.Function
	for _, m := range sp.Members {
		t, ok := m.(*ssa.Type)
		if !ok {
			continue
		}
		for _, tt := range []types.Type{t.Type(), types.NewPointer(t.Type())} {
			ms := prog.SSA.MethodSets.MethodSet(tt)
			for i := 0; i < ms.Len(); i++ {
				if ms.At(i).Obj().Name() != name {
					continue
				}
				fn := prog.SSA.MethodValue(ms.At(i))
				if fn == nil || fn.Blocks == nil || fn.Synthetic != "" || seen[fn] {
					continue
				}
				seen[fn] = true
				out = append(out, fn)
			}
		}
	}
	sort.Slice(out, func(i, j int) bool { return out[i].String() < out[j].String() })
	return out
}

type ssaFn = ssa.Function
type ssaMakeClosure = ssa.MakeClosure
type ssaCallInstr = ssa.CallInstruction
