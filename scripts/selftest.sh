#!/bin/bash
# selftest.sh: (1) every registered check is silent (exit 0) on /repo as it is; (2) every variant under
# /verif/mutants (own, one seeded construct each) and every confirmed change under /verif/seeded that is
# recorded as detected is still reported by the check named for it; (3) every behaviour-preserving change
# under /verif/neutral leaves every check silent. Scratch worktrees live under /tmp and are removed. Not
# part of quick/thorough (it must not touch /repo). JOBS patches are tried at a time (default 8).
cd /verif
J=${JOBS:-8}
OUT=$(mktemp -d /tmp/selftest-out.XXXXXX)
main() {
for id in $(./bin/bmverif list); do
  (ulimit -v 30000000; ./bin/bmverif check $id >$OUT/clean.$id.out 2>&1); rc=$?
  if [ $rc -ne 0 ] || grep -q "^VIOLATION" $OUT/clean.$id.out; then echo "CLEAN-TREE FAIL $id (exit $rc)"; else echo "clean  $id  $(grep ^summary $OUT/clean.$id.out | cut -d' ' -f4-)"; fi
done
one_mutant() {
  m=$1; n=$(basename $m .diff); id=${n%%-*}
  if MAXLINES=1 scripts/try_patch.sh $m $id >$OUT/m.$n.out 2>&1; then echo "caught $n by $id: $(grep -m1 VIOLATED $OUT/m.$n.out | cut -c1-110)"; else echo "MISSED $n (expected $id)"; fi
}
one_seed() {
  d=$1; n=$(basename $d); det=$(python3 -c "import json;print(json.load(open('$d/meta.json')).get('detected_by',''))")
  case "$det" in
    NOT\ DETECTED*|see\ *) echo "seed   $n: recorded as not detected ($(echo $det | cut -c1-70)...)"; return;;
  esac
  ids=$(echo "$det" | grep -oE '\bC[0-9]{2}\b' | sort -u | tr '\n' ' ')
  ok=1
  for id in $ids; do
    if ! MAXLINES=1 scripts/try_patch.sh $d/patch.diff $id >$OUT/s.$n.$id.out 2>&1; then ok=0; echo "MISSED seed $n by $id"; fi
  done
  [ $ok -eq 1 ] && echo "caught seed $n by $ids"
}
one_neutral() {
  d=$1; n=$(basename $d)
  if MAXLINES=2 scripts/try_refactor.sh $d >$OUT/n.$n.out 2>&1; then echo "silent $n"; else echo "FALSE ALARM on $n"; grep -E "^(ALARM|VIOLATED|UNDECIDED|FATAL|PATCH)" $OUT/n.$n.out | cut -c1-200; fi
}
export -f one_mutant one_seed one_neutral
export OUT
ls mutants/*.diff | xargs -P $J -I{} bash -c 'one_mutant {}'
ls -d seeded/*/ | xargs -P $J -I{} bash -c 'one_seed {}'
# behaviour-preserving changes (refactors written by independent sub-agents and neutral twins of seeded
# changes) must leave EVERY check silent. Skipped with NEUTRAL=0.
if [ "${NEUTRAL:-1}" = "1" ]; then
  ls neutral/*.diff | xargs -P $J -I{} bash -c 'one_neutral {}'
fi
}
main 2>&1 | tee $OUT/log
if grep -qE "^(CLEAN-TREE FAIL|MISSED|FALSE ALARM)" $OUT/log; then echo "SELFTEST FAILED"; rc=1; else echo "SELFTEST OK"; rc=0; fi
rm -rf $OUT
exit $rc
