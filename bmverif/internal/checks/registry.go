// Package checks holds one file per property (cNN.go) plus the shared engines.
package checks

import (
	"encoding/json"
	"fmt"
	"go/types"
	"os"

	"bmverif/internal/core"
)

// Registry maps property ids to their check.
var Registry = map[string]func(r *core.Run){}

// Meta describes a claimed check for MANIFEST.json.
type Meta struct {
	Technique string // the deciding method
	Claim     string // level_claimed.text
	Note      string // level_note (assumptions / trusted base)
	DesignRef string
	Engines   string
}

var Metas = map[string]Meta{}

func register(id string, f func(r *core.Run)) { Registry[id] = f }

func describe(id string, m Meta) { Metas[id] = m }

// NotApplicable lists the properties that are not claimed, with the reason.
var NotApplicable = map[string]string{}

// Explain re-runs the check a replay file came from and prints the obligation
// it names as it stands on the current tree.
func Explain(path string) int {
	b, err := os.ReadFile(path)
	if err != nil {
		fmt.Fprintln(os.Stderr, err)
		return 2
	}
	var rp struct {
		Property   string          `json:"property"`
		Tier       string          `json:"tier"`
		Obligation core.Obligation `json:"obligation"`
	}
	if err := json.Unmarshal(b, &rp); err != nil {
		fmt.Fprintln(os.Stderr, err)
		return 2
	}
	fn, ok := Registry[rp.Property]
	if !ok {
		fmt.Fprintln(os.Stderr, "unknown property", rp.Property)
		return 2
	}
	fmt.Printf("recorded: %s %s %s %s: %s\n", rp.Obligation.Status, rp.Obligation.Rule, rp.Obligation.Instance, rp.Obligation.Pos, rp.Obligation.Detail)
	r := core.NewRun(rp.Property, rp.Tier)
	fn(r)
	found := false
	for _, o := range r.Obl {
		if o.Instance == rp.Obligation.Instance && o.Rule == rp.Obligation.Rule {
			found = true
			fmt.Printf("current:  %s %s %s %s: %s\n", o.Status, o.Rule, o.Instance, o.Pos, o.Detail)
			for _, p := range o.Path {
				fmt.Printf("    via %s\n", p)
			}
			if o.Status == core.Violated || o.Status == core.Undecided {
				return 1
			}
		}
	}
	if !found {
		fmt.Println("current:  obligation instance no longer present on this tree")
	}
	return 0
}

// ResetGlobals clears the process-wide memo tables of the engines (they are keyed by objects of one
// loaded Program; `check-all` runs several checks in one process).
func ResetGlobals() {
	moConfiner = nil
	moEffectMemo = map[types.Object]string{}
	moFxMemo = map[types.Object]*moFx{}
	fieldValCache = map[*types.Var]map[string]bool{}
	fieldValOK = map[*types.Var]bool{}
}
