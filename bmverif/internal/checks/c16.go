package checks

import (
	"fmt"
	"go/ast"
	"go/token"
	"go/types"
	"sort"
	"strings"

	"bmverif/internal/core"
	"golang.org/x/tools/go/packages"
	"golang.org/x/tools/go/ssa"
)

func init() {
	register("C16", checkC16)
	describe("C16", Meta{
		Technique: "typestate/dominance rules on go/ssa over every store to Conproc.Op and every Arch.Assembler call (sorted-before-store, frozen-after-assemble), per-iteration append counting for the opcode collection loops, plus the topology ownership/lock-step/index-space rules over the front-ends' bond-graph construction code",
		Claim:     "Decides structural clauses of C16: (a) every site that builds a processor's opcode list stores a slice that was sorted by name (sort.Sort(ByName(v)) dominates the store of the same SSA value) and whose collection loop appends each registry element at most once; (b) after a program has been assembled against an architecture, no encoding-relevant field of that architecture (Op, R, N, M, L, O, Rsize, WordSize, Modes, Shared_constraints) is stored again on a path to the machine being shipped; (c) front-ends build bond graphs only through the edit API or on machines they allocate, with Links made in step with Internal_inputs. PARALLEL: a front-end loop that numbers the elements it creates with its own index grows the machine's list exactly once on every path of an iteration. Necessary conditions for 'every emitted machine is well formed'; adequacy of R/N/M/O for the program (Needed_bits arithmetic) is not decided.",
		Note:      "Copies of another machine's Op (make+copy) and loaders (Dejsoner) are exempt from (a) by construction, not by name list: the exemption is 'the stored slice is made with the length of another Conproc.Op'.",
		DesignRef: "DESIGN.md §2 C16",
	})
}

var encodingFields = map[string]bool{"Op": true, "R": true, "N": true, "M": true, "L": true, "O": true, "Rsize": true, "WordSize": true, "Modes": true, "Shared_constraints": true}

func checkC16(r *core.Run) {
	r.Explanation = "Decides structural clauses of C16: opcode list sorted and collected without duplicates at every construction site (a); architecture frozen after Arch.Assembler on every path (b); bond-graph construction by front-ends goes through the edit API or fresh machines and keeps Links in step (c). " +
		"Does NOT decide: that R/N/M/L/O are large enough for the program, Needed_bits arithmetic, Rsize agreement across domains."
	prog := r.Load(core.LoadConfig{SSA: true})
	if prog == nil {
		return
	}
	pb := prog.Pkg("pkg/procbuilder")
	if pb == nil {
		r.Fatal("pkg/procbuilder not loaded")
		return
	}
	var opField *types.Var
	if tn, ok := pb.Types.Scope().Lookup("Conproc").(*types.TypeName); ok {
		st := tn.Type().Underlying().(*types.Struct)
		for i := 0; i < st.NumFields(); i++ {
			if st.Field(i).Name() == "Op" {
				opField = st.Field(i)
			}
		}
	}
	if opField == nil {
		r.Fatal("Conproc.Op not found")
		return
	}
	var fns []*ssa.Function
	for _, sp := range sortedSSAPkgs(prog) {
		for fn := range allFuncsOf(prog, sp) {
			fns = append(fns, fn)
		}
	}
	sort.Slice(fns, func(i, j int) bool { return fns[i].String() < fns[j].String() })

	opListSorted(r, prog, "C16", opField, fns)

	// ---- (a') at most one append per registry element
	nLoops := 0
	for _, pk := range prog.Pkgs {
		info := pk.TypesInfo
		core.FuncDecls(pk, func(_ *ast.File, fd *ast.FuncDecl) {
			// only functions that store to Conproc.Op
			stores := false
			ast.Inspect(fd.Body, func(n ast.Node) bool {
				if as, ok := n.(*ast.AssignStmt); ok {
					for _, l := range as.Lhs {
						if core.FieldOf(info, l) == opField {
							stores = true
						}
					}
				}
				return !stores
			})
			if !stores && fd.Type.Results != nil {
				// or a helper that returns an opcode list (its result is what a caller stores)
				for _, f := range fd.Type.Results.List {
					if sl, ok := info.TypeOf(f.Type).(*types.Slice); ok {
						if nm, ok := sl.Elem().(*types.Named); ok && nm.Obj().Name() == "Opcode" && opField.Type().(*types.Slice).Elem() == sl.Elem() {
							stores = true
						}
					}
				}
			}
			if !stores {
				return
			}
			ln := 0
			ast.Inspect(fd.Body, func(n ast.Node) bool {
				rs, ok := n.(*ast.RangeStmt)
				if !ok {
					return true
				}
				// range over the global registry Allopcodes with a value variable
				id, isID := ast.Unparen(rs.X).(*ast.Ident)
				sel, isSel := ast.Unparen(rs.X).(*ast.SelectorExpr)
				name := ""
				if isID {
					name = id.Name
				} else if isSel {
					name = sel.Sel.Name
				}
				if name != "Allopcodes" {
					return true
				}
				vid, ok := rs.Value.(*ast.Ident)
				if !ok {
					return true
				}
				vobj := info.ObjectOf(vid)
				isAppendOfV := func(s ast.Stmt) bool {
					as, ok := s.(*ast.AssignStmt)
					if !ok || len(as.Rhs) != 1 {
						return false
					}
					call, ok := as.Rhs[0].(*ast.CallExpr)
					if !ok {
						return false
					}
					if f, ok := call.Fun.(*ast.Ident); !ok || f.Name != "append" {
						return false
					}
					for _, a := range call.Args[1:] {
						if aid, ok := ast.Unparen(a).(*ast.Ident); ok && info.ObjectOf(aid) == vobj {
							return true
						}
					}
					return false
				}
				has := false
				ast.Inspect(rs.Body, func(m ast.Node) bool {
					if s, ok := m.(ast.Stmt); ok && isAppendOfV(s) {
						has = true
					}
					return !has
				})
				if !has {
					return true
				}
				// is this the outermost loop (not nested in a loop over names)? count per iteration
				ln++
				nLoops++
				pi := &pinterp{info: info, noReturn: noReturnCall(info), noFlags: true}
				pi.events = func(nd ast.Node) []pevent {
					var evs []pevent
					ast.Inspect(nd, func(k ast.Node) bool {
						switch x := k.(type) {
						case *ast.FuncLit:
							return false
						case *ast.BlockStmt:
							return k == nd
						case ast.Stmt:
							if isAppendOfV(x) {
								evs = append(evs, pevent{d: +1, pos: x.Pos()})
							}
						}
						return true
					})
					return evs
				}
				pi.containsEvent = func(ast.Node) bool { return false }
				pi.onError = func(token.Pos, pstate, string) {}
				undec := ""
				pi.undecided = func(_ token.Pos, what string) { undec = what }
				in := pset{}
				in.add(pstate{flags: map[types.Object]bool{}})
				out := pi.block(rs.Body.List, in)
				ends := pset{}
				ends.addAll(out.normal)
				for _, ss := range out.cont {
					ends.addAll(ss)
				}
				for _, ss := range out.brk {
					ends.addAll(ss)
				}
				many := false
				for _, s := range ends {
					if s.n > 1 {
						many = true
					}
				}
				inst := fmt.Sprintf("C16/NODUP:%s:loop%d", core.FuncKey(pk, fd), ln)
				pos := prog.Pos(rs.Pos())
				switch {
				case undec != "":
					r.Undecided("C16/NODUP", inst, pos, undec)
				case many:
					r.Violation("C16/NODUP", inst, pos, fmt.Sprintf("%s can append the same registry opcode more than once in one iteration of its collection loop over Allopcodes: the emitted opcode list is not duplicate-free (opcode bits and numbering are wrong, Decode_opcode picks the first)", core.FuncKey(pk, fd)))
				default:
					r.OK("C16/NODUP", inst, pos, "each registry opcode is appended at most once")
				}
				return true
			})
		})
	}
	r.Count("opcode_collection_loops", nLoops)
	c16Parallel(r, prog)

	// ---- (b) frozen after assemble
	nAsm := 0
	for _, fn := range fns {
		k := 0
		for _, b := range fn.Blocks {
			for _, ins := range b.Instrs {
				call, ok := ins.(*ssa.Call)
				if !ok {
					continue
				}
				callee := call.Call.StaticCallee()
				if callee == nil || callee.Name() != "Assembler" || callee.Signature.Recv() == nil || !strings.HasSuffix(callee.Signature.Recv().Type().String(), "pkg/procbuilder.Arch") {
					continue
				}
				k++
				nAsm++
				arch := call.Call.Args[0]
				akey := archKey(arch)
				inst := fmt.Sprintf("C16/FROZEN:%s:assemble%d", core.SSAFuncKey(fn), k)
				pos := prog.Pos(call.Pos())
				if a, ok := arch.(*ssa.Alloc); ok && !allocEscapes(a) {
					r.OK("C16/FROZEN", inst, pos, "the architecture assembled against is a function-local copy that is never stored, returned or captured: it is not part of a shipped machine")
					continue
				}
				var bad []string
				badPos := pos
				for _, st := range storesAfter(call, arch) {
					fa, ok := st.Addr.(*ssa.FieldAddr)
					if !ok {
						continue
					}
					f := fieldOfAddr(fa)
					if f == nil || !encodingFields[f.Name()] {
						continue
					}
					if akey == "" || archKey(rootArch(fa)) != akey {
						continue
					}
					bad = append(bad, f.Name())
					badPos = prog.Pos(st.Pos())
				}
				sort.Strings(bad)
				if len(bad) == 0 {
					r.OK("C16/FROZEN", inst, pos, "no encoding-relevant field of the architecture is stored after the program was assembled against it")
				} else {
					r.Violation("C16/FROZEN", inst+":"+strings.Join(uniqStrings(bad), ","), badPos, fmt.Sprintf("%s stores architecture field(s) %s after the program was assembled against that architecture (store at %s): the ROM words were encoded for the old value, so the shipped machine decodes them differently whenever the new value differs", core.SSAFuncKey(fn), strings.Join(uniqStrings(bad), ","), r.Rel(badPos)))
				}
			}
		}
	}
	r.Count("assembler_call_sites", nAsm)

	// ---- (c) bond graph construction by front-ends (ownership / lock-step / index kinds)
	e := newIKEngine(r, prog, "C16")
	e.run([]string{"pkg/basm", "pkg/bondgo", "pkg/bmbuilder", "pkg/neuralbond", "pkg/bmqsim", "pkg/bondirect", "cmd/basm", "cmd/bondgo"}, func(pk *packages.Package, fd *ast.FuncDecl) bool {
		return e.mentionsFieldOf(pk, fd, "pkg/bondmachine.Bondmachine.")
	})
}

func uniqStrings(a []string) []string {
	var out []string
	for i, s := range a {
		if i == 0 || a[i-1] != s {
			out = append(out, s)
		}
	}
	return out
}

func stripConv(v ssa.Value) ssa.Value {
	for {
		switch x := v.(type) {
		case *ssa.ChangeType:
			v = x.X
		case *ssa.MakeInterface:
			v = x.X
		case *ssa.Convert:
			v = x.X
		default:
			return v
		}
	}
}

func sortedValue(arg ssa.Value) ssa.Value { return stripConv(arg) }

// sortedByNameAt: the slice value v is name-sorted when instruction `at` of fn executes: either a
// sort.Sort/Stable(ByName(v)) of that very value dominates `at`, or v is the result of a module
// function all of whose returns return a slice that is name-sorted at the return (helper idiom).
func sortedByNameAt(fn *ssa.Function, v ssa.Value, at ssa.Instruction, depth int) bool {
	v = stripConv(v)
	for _, b2 := range fn.Blocks {
		for _, i2 := range b2.Instrs {
			call, ok := i2.(*ssa.Call)
			if !ok {
				continue
			}
			callee := call.Call.StaticCallee()
			if callee == nil || callee.Pkg == nil || callee.Pkg.Pkg.Path() != "sort" || (callee.Name() != "Sort" && callee.Name() != "Stable") {
				continue
			}
			if len(call.Call.Args) != 1 {
				continue
			}
			if sortedValue(call.Call.Args[0]) == v && strings.HasSuffix(sortArgType(call.Call.Args[0]), "ByName") && instrDominates(call, at) {
				return true
			}
		}
	}
	if depth >= 3 {
		return false
	}
	if call, ok := v.(*ssa.Call); ok {
		callee := call.Call.StaticCallee()
		if callee == nil || !core.InModule(callee) || len(callee.Blocks) == 0 || callee.Signature.Results().Len() != 1 {
			return false
		}
		nret := 0
		for _, b := range callee.Blocks {
			for _, ins := range b.Instrs {
				if ret, ok := ins.(*ssa.Return); ok {
					nret++
					if len(ret.Results) != 1 || !sortedByNameAt(callee, ret.Results[0], ret, depth+1) {
						return false
					}
				}
			}
		}
		return nret > 0
	}
	return false
}

func sortArgType(arg ssa.Value) string {
	if mi, ok := arg.(*ssa.MakeInterface); ok {
		return mi.X.Type().String()
	}
	return arg.Type().String()
}

// isCopyOfOp: the stored slice is `make([]Opcode, len(other.Op))`.
func isCopyOfOp(v ssa.Value, opField *types.Var) bool {
	ms, ok := stripConv(v).(*ssa.MakeSlice)
	if !ok {
		return false
	}
	l := ms.Len
	for {
		if c, ok := l.(*ssa.Convert); ok {
			l = c.X
			continue
		}
		break
	}
	call, ok := l.(*ssa.Call)
	if !ok {
		return false
	}
	if bi, ok := call.Call.Value.(*ssa.Builtin); !ok || bi.Name() != "len" {
		return false
	}
	u, ok := call.Call.Args[0].(*ssa.UnOp)
	if !ok {
		return false
	}
	fa, ok := u.X.(*ssa.FieldAddr)
	if !ok {
		return false
	}
	f := fieldOfAddr(fa)
	return f != nil && f.Name() == "Op" // Conproc.Op or the mirror's Op
}

// archKey canonicalises the *Arch a value denotes: the chain of field addresses down to its root.
func archKey(v ssa.Value) string { return archKeyD(v, 0) }

func archKeyD(v ssa.Value, d int) string {
	if d > 12 {
		return ""
	}
	switch x := v.(type) {
	case *ssa.FieldAddr:
		b := archKeyD(x.X, d+1)
		if b == "" {
			return ""
		}
		f := fieldOfAddr(x)
		if f != nil && (f.Name() == "Arch") {
			return b // &m.Arch and m denote the same architecture
		}
		return fmt.Sprintf("%s.%d", b, x.Field)
	case *ssa.UnOp:
		if x.Op == token.MUL {
			if st := uniqueStoreTo(x.X); st != nil {
				return archKeyD(st, d+1)
			}
			return fmt.Sprintf("load(%s)", archKeyD(x.X, d+1))
		}
	case *ssa.Alloc:
		return fmt.Sprintf("alloc%p", x)
	case *ssa.Parameter:
		return fmt.Sprintf("param%p", x)
	case *ssa.IndexAddr:
		return fmt.Sprintf("%s[%s]", archKeyD(x.X, d+1), x.Index.Name())
	case *ssa.Index:
		return fmt.Sprintf("%s[%s]", archKeyD(x.X, d+1), x.Index.Name())
	case *ssa.Phi:
		return fmt.Sprintf("phi%p", x)
	case *ssa.Call:
		return fmt.Sprintf("call%p", x)
	case *ssa.Extract:
		return fmt.Sprintf("extract%p", x)
	}
	return ""
}

// rootArch strips the embedded sub-struct steps (Conproc, Rom, Ram) from a field address so that
// &arch.Conproc.Op, &arch.Rom.O ... are all attributed to `arch`.
func rootArch(fa *ssa.FieldAddr) ssa.Value {
	var v ssa.Value = fa.X
	for {
		inner, ok := v.(*ssa.FieldAddr)
		if !ok {
			return v
		}
		f := fieldOfAddr(inner)
		if f != nil && f.Embedded() && (f.Name() == "Conproc" || f.Name() == "Rom" || f.Name() == "Ram") {
			v = inner.X
			continue
		}
		return v
	}
}

// allocEscapes: the address of a local is stored somewhere, returned, captured or boxed.
func allocEscapes(a *ssa.Alloc) bool {
	for _, ref := range *a.Referrers() {
		switch x := ref.(type) {
		case *ssa.Store:
			if x.Val == ssa.Value(a) {
				return true
			}
		case *ssa.Return, *ssa.MakeClosure, *ssa.MakeInterface, *ssa.Phi, *ssa.Send, *ssa.MapUpdate:
			return true
		}
	}
	return false
}

// storesAfter lists the stores reachable from `from` without passing again through the
// instruction that defines `kill` (a new value of the same variable in the next loop iteration).
func storesAfter(from ssa.Instruction, kill ssa.Value) []*ssa.Store {
	var killIns ssa.Instruction
	if ki, ok := kill.(ssa.Instruction); ok {
		killIns = ki
	}
	var out []*ssa.Store
	seen := map[*ssa.BasicBlock]bool{}
	var walk func(b *ssa.BasicBlock, i int)
	walk = func(b *ssa.BasicBlock, i int) {
		for ; i < len(b.Instrs); i++ {
			ins := b.Instrs[i]
			if ins == killIns {
				return
			}
			if st, ok := ins.(*ssa.Store); ok {
				out = append(out, st)
			}
		}
		for _, s := range b.Succs {
			if !seen[s] {
				seen[s] = true
				walk(s, 0)
			}
		}
	}
	walk(from.Block(), instrIndex(from)+1)
	return out
}

// opListSorted: every store to Conproc.Op stores a slice that was sorted by name (rule shared by C16 and C07).
func opListSorted(r *core.Run, prog *core.Program, prop string, opField *types.Var, fns []*ssa.Function) {
	// ---- (a) sorted before store
	nSites := 0
	for _, fn := range fns {
		k := 0
		for _, b := range fn.Blocks {
			for _, ins := range b.Instrs {
				st, ok := ins.(*ssa.Store)
				if !ok {
					continue
				}
				fa, ok := st.Addr.(*ssa.FieldAddr)
				if !ok || fieldOfAddr(fa) != opField {
					continue
				}
				k++
				nSites++
				inst := fmt.Sprintf("%s/SORTED:%s:store%d", prop, core.SSAFuncKey(fn), k)
				pos := prog.Pos(st.Pos())
				if isCopyOfOp(st.Val, opField) {
					r.OK(prop+"/SORTED", inst, pos, "copy of another machine's opcode list (made with its length); order is inherited")
					continue
				}
				if fn.Name() == "Dejsoner" {
					r.OK(prop+"/SORTED", inst, pos, "loader: order is the saved order")
					continue
				}
				sorted := sortedByNameAt(fn, st.Val, st, 0)
				if sorted {
					r.OK(prop+"/SORTED", inst, pos, "sort.Sort(ByName(v)) on the stored slice dominates the store (or every return of the helper that built it)")
				} else {
					r.Violation(prop+"/SORTED", inst, pos, fmt.Sprintf("%s stores an opcode list into Conproc.Op that was not sorted by name on every path (no sort.Sort(ByName(v)) of the very slice stored dominates the store): opcode numbering — the index in Op — then depends on collection order, and Write_opcodes_verilog/Decode_opcode/OnlyOne assume a name-sorted list", core.SSAFuncKey(fn)))
				}
			}
		}
	}
	r.Count("conproc_op_store_sites", nSites)

}


// c16Parallel (C16/PARALLEL): a front-end loop `for i, x := range list` that grows one of the
// machine's lists (Add_shared_objects, Add_processor, Add_input, Add_output, append to a Bondmachine
// field) and uses i as the position of the new element (records it, prints it, passes it on) relies on
// the machine list growing by exactly one element per iteration. A path through the body that skips the
// growth (a `continue`, a condition) — or grows twice — makes every later i point at another element, or
// past the end, of the machine's list.
func c16Parallel(r *core.Run, prog *core.Program) {
	growth := map[string]bool{"Add_shared_objects": true, "Add_processor": true, "Add_input": true, "Add_output": true}
	n := 0
	for _, rel := range []string{"pkg/basm", "pkg/bondgo", "pkg/neuralbond", "pkg/bmbuilder", "pkg/bmqsim"} {
		pk := prog.Pkg(rel)
		if pk == nil {
			continue
		}
		info := pk.TypesInfo
		isBM := func(t types.Type) bool {
			if p, ok := t.(*types.Pointer); ok {
				t = p.Elem()
			}
			nm, ok := t.(*types.Named)
			return ok && nm.Obj().Name() == "Bondmachine" && nm.Obj().Pkg() != nil && strings.HasSuffix(nm.Obj().Pkg().Path(), "pkg/bondmachine")
		}
		// growth event of a statement/expression: its kind ("" if none)
		growthKind := func(m ast.Node) string {
			switch x := m.(type) {
			case *ast.CallExpr:
				if sel, ok := ast.Unparen(x.Fun).(*ast.SelectorExpr); ok && growth[sel.Sel.Name] {
					if t := info.TypeOf(sel.X); t != nil && isBM(t) {
						return sel.Sel.Name
					}
				}
			case *ast.AssignStmt:
				if len(x.Lhs) == 1 && len(x.Rhs) == 1 {
					if call, ok := x.Rhs[0].(*ast.CallExpr); ok {
						if id, ok := call.Fun.(*ast.Ident); ok && id.Name == "append" {
							if sel, ok := ast.Unparen(x.Lhs[0]).(*ast.SelectorExpr); ok {
								if t := info.TypeOf(sel.X); t != nil && isBM(t) && core.FieldOf(info, sel) != nil {
									return "append:" + sel.Sel.Name
								}
							}
						}
					}
				}
			}
			return ""
		}
		core.FuncDecls(pk, func(_ *ast.File, fd *ast.FuncDecl) {
			k := 0
			ast.Inspect(fd.Body, func(nd ast.Node) bool {
				rs, ok := nd.(*ast.RangeStmt)
				if !ok {
					return true
				}
				kid, ok := rs.Key.(*ast.Ident)
				if !ok || kid.Name == "_" {
					return true
				}
				kobj := info.ObjectOf(kid)
				// does the body use the key (other than to index the ranged list itself)?
				usesKey := false
				kinds := map[string]bool{}
				ast.Inspect(rs.Body, func(m ast.Node) bool {
					if id, ok := m.(*ast.Ident); ok && info.ObjectOf(id) == kobj {
						usesKey = true
					}
					if g := growthKind(m); g != "" {
						kinds[g] = true
					}
					return true
				})
				if !usesKey || len(kinds) == 0 {
					return true
				}
				// a separate position counter advanced in the body (no++) is what numbers the new
				// elements; the loop key then only names the source element
				ownCounter := false
				ast.Inspect(rs.Body, func(m ast.Node) bool {
					if inc, ok := m.(*ast.IncDecStmt); ok && inc.Tok == token.INC {
						if id, ok := ast.Unparen(inc.X).(*ast.Ident); ok && info.ObjectOf(id) != kobj {
							ownCounter = true
						}
					}
					return true
				})
				if ownCounter {
					return true
				}
				var ks []string
				for g := range kinds {
					ks = append(ks, g)
				}
				sort.Strings(ks)
				for _, g := range ks {
					k++
					n++
					pi := &pinterp{info: info, noReturn: noReturnCall(info), noFlags: true}
					pi.events = func(node ast.Node) []pevent {
						var evs []pevent
						ast.Inspect(node, func(m ast.Node) bool {
							switch m.(type) {
							case *ast.FuncLit:
								return false
							case *ast.BlockStmt:
								return m == node
							}
							if growthKind(m) == g {
								evs = append(evs, pevent{d: +1, pos: m.Pos()})
							}
							return true
						})
						return evs
					}
					pi.containsEvent = func(ast.Node) bool { return false }
					pi.onError = func(token.Pos, pstate, string) {}
					undec := ""
					pi.undecided = func(_ token.Pos, what string) { undec = what }
					// error returns end the whole construction: not an outcome of interest
					pi.dropReturn = func(*ast.ReturnStmt) bool { return true }
					in := pset{}
					in.add(pstate{flags: map[types.Object]bool{}})
					out := pi.block(rs.Body.List, in)
					ends := pset{}
					ends.addAll(out.normal)
					for _, ss := range out.cont {
						ends.addAll(ss)
					}
					counts := map[int]bool{}
					for _, st := range ends {
						counts[st.n] = true
					}
					inst := fmt.Sprintf("C16/PARALLEL:%s:loop%d:%s", core.FuncKey(pk, fd), k, g)
					pos := prog.Pos(rs.Pos())
					switch {
					case undec != "":
						r.Undecided("C16/PARALLEL", inst, pos, undec)
					case len(counts) == 1 && counts[1]:
						r.OK("C16/PARALLEL", inst, pos, "the machine list grows by exactly one element on every path of an iteration")
					default:
						var cs []string
						for c := range counts {
							cs = append(cs, fmt.Sprint(c))
						}
						sort.Strings(cs)
						r.Violation("C16/PARALLEL", inst, pos, fmt.Sprintf("%s numbers the elements it creates with the loop index %s, but one iteration of the loop performs %s [%s] time(s) depending on the path: as soon as an iteration adds nothing (or two elements), every later index recorded here refers to another element of the machine's list, or to none — links, attachments and constraints built from it point at the wrong object", core.FuncKey(pk, fd), kid.Name, g, strings.Join(cs, " or ")))
					}
				}
				return true
			})
		})
	}
	r.Count("index_parallel_growth_loops", n)
}
