package checks

import (
	"fmt"
	"go/ast"
	"go/constant"
	"go/token"
	"go/types"
	"sort"
	"strings"

	"bmverif/internal/core"
	"golang.org/x/tools/go/packages"
)

func init() {
	register("C10", checkC10)
	describe("C10", Meta{
		Technique: "ownership rule over resolved field objects (who may store to the topology fields), block-level pairing of Internal_inputs/Links size changes and of port counters with their endpoint lists, and index-space inference (INDEXKIND) inside every topology editor",
		Claim:     "Decides structural clauses of C10: (a) only methods of Bondmachine (through their receiver) or code building a freshly allocated machine store to Links / Internal_inputs / Internal_outputs / Inputs / Outputs / Processors / Shared_links; (b) every block that grows, shrinks or replaces Internal_inputs does the same to Links (one link slot per internal input); (c) inside the editors, values stored into Links are internal-output indices and comparisons relate indices of one space; (d) the Inputs/Outputs counters change together with the endpoint lists; (c') the processor number printed into an endpoint name ('p' followed by the number) by an editor or a composite editor is a processor index; (f) REMOVAL: a topology list is never cut by reslicing at a position computed without walking the list; (e) DERIVED: any other field of Bondmachine that is filled with positions in Internal_inputs/Internal_outputs is refreshed or invalidated by every method that stores to that list. (COMPACT) the edit tools remove duplicate ids with slices.Compact only from a list sorted before in the same function. Necessary conditions for well-formedness after edits; that the right element is removed and the renumbering arithmetic are not decided.",
		Note:      "Flow-insensitive within a block; 'fresh' means the machine variable is initialised with new(Bondmachine)/&Bondmachine{}/a Bondmachine value in the same function.",
		DesignRef: "DESIGN.md §2 C10",
	})
}

var topoFields = map[string]bool{"Links": true, "Internal_inputs": true, "Internal_outputs": true, "Inputs": true, "Outputs": true, "Processors": true, "Shared_links": true}

func checkC10(r *core.Run) {
	r.Explanation = "Decides structural clauses of C10 over every store to the Bondmachine topology fields in the module: ownership (a), lock-step growth of Internal_inputs and Links per block (b), index-space discipline inside the editors (c), counters paired with endpoint lists (d). " +
		"Does NOT decide: that the addressed element is the one removed, renumbering arithmetic, out-of-range ids."
	prog := r.Load(core.LoadConfig{})
	if prog == nil {
		return
	}
	bm := prog.Pkg("pkg/bondmachine")
	if bm == nil {
		r.Fatal("pkg/bondmachine not loaded")
		return
	}
	var bmType *types.Named
	if tn, ok := bm.Types.Scope().Lookup("Bondmachine").(*types.TypeName); ok {
		bmType, _ = tn.Type().(*types.Named)
	}
	if bmType == nil {
		r.Fatal("type Bondmachine not found")
		return
	}
	st := bmType.Underlying().(*types.Struct)
	isTopoField := func(v *types.Var) bool {
		if v == nil || !topoFields[v.Name()] {
			return false
		}
		for i := 0; i < st.NumFields(); i++ {
			if st.Field(i) == v {
				return true
			}
		}
		return false
	}
	nStores, nFuncs := 0, 0
	for _, pk := range prog.Pkgs {
		info := pk.TypesInfo
		core.FuncDecls(pk, func(_ *ast.File, fd *ast.FuncDecl) {
			// topology stores in this function
			type store struct {
				field *types.Var
				root  ast.Expr // the machine expression X in X.F...
				lhs   ast.Expr
				rhs   ast.Expr
				stmt  ast.Stmt
				elem  bool // element store X.F[i] = v
			}
			var stores []store
			rootOf := func(l ast.Expr) (*types.Var, ast.Expr, bool) {
				elem := false
				x := l
				for {
					switch v := ast.Unparen(x).(type) {
					case *ast.IndexExpr:
						x, elem = v.X, true
						continue
					case *ast.SelectorExpr:
						if f := core.FieldOf(info, v); isTopoField(f) {
							return f, v.X, elem
						}
						// field of an element (X.Internal_inputs[i].Res_id = ...)
						x, elem = v.X, true
						continue
					}
					return nil, nil, false
				}
			}
			ast.Inspect(fd.Body, func(n ast.Node) bool {
				switch x := n.(type) {
				case *ast.AssignStmt:
					for i, l := range x.Lhs {
						if f, root, elem := rootOf(l); f != nil {
							var rhs ast.Expr
							if len(x.Lhs) == len(x.Rhs) {
								rhs = x.Rhs[i]
							}
							stores = append(stores, store{f, root, l, rhs, x, elem})
						}
					}
				case *ast.IncDecStmt:
					if f, root, elem := rootOf(x.X); f != nil {
						stores = append(stores, store{f, root, x.X, nil, x, elem})
					}
				}
				return true
			})
			if len(stores) == 0 {
				return
			}
			nFuncs++
			nStores += len(stores)
			fkey := core.FuncKey(pk, fd)

			// (a) ownership
			var recvObj types.Object
			if fd.Recv != nil && len(fd.Recv.List) > 0 && len(fd.Recv.List[0].Names) > 0 && pk == bm {
				if core.RecvTypeName(info, fd) == "Bondmachine" {
					recvObj = info.ObjectOf(fd.Recv.List[0].Names[0])
				}
			}
			fresh := freshMachines(info, fd, bmType)
			seenRoot := map[string]bool{}
			for _, s := range stores {
				rk := types.ExprString(s.root)
				if seenRoot[rk] {
					continue
				}
				seenRoot[rk] = true
				inst := fmt.Sprintf("C10/OWNER:%s:%s", fkey, rk)
				pos := prog.Pos(s.lhs.Pos())
				id, isID := ast.Unparen(s.root).(*ast.Ident)
				switch {
				case isID && recvObj != nil && info.ObjectOf(id) == recvObj:
					r.OK("C10/OWNER", inst, pos, "edit API: store through the receiver of a Bondmachine method")
				case isID && fresh[info.ObjectOf(id)]:
					r.OK("C10/OWNER", inst, pos, "construction of a machine allocated in this function")
				default:
					r.Violation("C10/OWNER", inst, pos, fmt.Sprintf("%s stores to topology field %s of a machine it did not allocate and is not a Bondmachine method: the bond graph is edited behind the edit API (Add_/Del_ input/output/bond, Add_processor), which is what keeps Links, the endpoint lists and the counters consistent", fkey, s.field.Name()))
				}
			}

			// (b) lock-step Internal_inputs / Links, per enclosing block; (d) counters
			type ev struct{ kind, detail string }
			blockOf := map[ast.Stmt]*ast.BlockStmt{}
			var idx func(n ast.Node)
			idx = func(n ast.Node) {
				ast.Inspect(n, func(m ast.Node) bool {
					if b, ok := m.(*ast.BlockStmt); ok {
						for _, s := range b.List {
							blockOf[s] = b
						}
					}
					if cc, ok := m.(*ast.CaseClause); ok {
						fake := &ast.BlockStmt{List: cc.Body, Lbrace: cc.Pos()}
						for _, s := range cc.Body {
							blockOf[s] = fake
						}
					}
					return true
				})
			}
			idx(fd.Body)
			norm := func(e ast.Expr) string {
				s := types.ExprString(e)
				s = strings.ReplaceAll(s, "Internal_inputs", "<II>")
				s = strings.ReplaceAll(s, "Links", "<II>")
				s = strings.ReplaceAll(s, "[]Bond", "[]T")
				s = strings.ReplaceAll(s, "[]bondmachine.Bond", "[]T")
				s = strings.ReplaceAll(s, "[]int", "[]T")
				return s
			}
			sizeEvent := func(s store) (string, bool) {
				if s.elem || s.rhs == nil {
					return "", false
				}
				if call, ok := ast.Unparen(s.rhs).(*ast.CallExpr); ok {
					if id, ok := call.Fun.(*ast.Ident); ok && id.Name == "append" && len(call.Args) >= 1 {
						if core.FieldOf(info, call.Args[0]) == s.field {
							if call.Ellipsis.IsValid() {
								return "append...", true
							}
							return fmt.Sprintf("append(%d)", len(call.Args)-1), true
						}
						return "replace:" + norm(s.rhs), true
					}
				}
				// replaced by a local: describe how the local was made
				if id, ok := ast.Unparen(s.rhs).(*ast.Ident); ok {
					if mk := makeExprOf(info, fd, info.ObjectOf(id)); mk != nil {
						return "replace:" + norm(mk), true
					}
					return "replace:<local>", true
				}
				return "replace:" + norm(s.rhs), true
			}
			perBlock := map[*ast.BlockStmt]map[string][]string{}
			// construction of a fresh machine: Internal_inputs may be built incrementally as long as
			// Links is (re)made with len(Internal_inputs) after the last change of Internal_inputs
			freshDone := map[string]bool{}
			for _, s := range stores {
				id, isID := ast.Unparen(s.root).(*ast.Ident)
				if !isID || !fresh[info.ObjectOf(id)] || freshDone[id.Name] {
					continue
				}
				freshDone[id.Name] = true
				var lastII, lastLinksMake token.Pos
				anyEvent := false
				for _, t := range stores {
					if types.ExprString(t.root) != id.Name {
						continue
					}
					e, ok := sizeEvent(t)
					if !ok {
						continue
					}
					switch t.field.Name() {
					case "Internal_inputs":
						anyEvent = true
						if t.stmt.Pos() > lastII {
							lastII = t.stmt.Pos()
						}
					case "Links":
						anyEvent = true
						if e == "replace:make([]T, len("+id.Name+".<II>))" && t.stmt.Pos() > lastLinksMake {
							lastLinksMake = t.stmt.Pos()
						}
					}
				}
				if anyEvent && lastLinksMake > lastII {
					r.OK("C10/LOCKSTEP", fmt.Sprintf("C10/LOCKSTEP:%s:%s:construction", fkey, id.Name), prog.Pos(lastLinksMake), "Links is made with len(Internal_inputs) after the last change of Internal_inputs")
					freshDone[id.Name+"#ok"] = true
				}
			}
			for _, s := range stores {
				if s.field.Name() != "Internal_inputs" && s.field.Name() != "Links" {
					continue
				}
				if id, isID := ast.Unparen(s.root).(*ast.Ident); isID && freshDone[id.Name+"#ok"] {
					continue
				}
				e, ok := sizeEvent(s)
				if !ok {
					continue
				}
				b := blockOf[s.stmt]
				if perBlock[b] == nil {
					perBlock[b] = map[string][]string{}
				}
				key := types.ExprString(s.root) + "." + s.field.Name()
				perBlock[b][key] = append(perBlock[b][key], e)
			}
			var blocks []*ast.BlockStmt
			for b := range perBlock {
				blocks = append(blocks, b)
			}
			sort.Slice(blocks, func(i, j int) bool { return blocks[i].Pos() < blocks[j].Pos() })
			for bi, b := range blocks {
				roots := map[string]bool{}
				for k := range perBlock[b] {
					roots[strings.TrimSuffix(strings.TrimSuffix(k, ".Links"), ".Internal_inputs")] = true
				}
				var rl []string
				for k := range roots {
					rl = append(rl, k)
				}
				sort.Strings(rl)
				for _, root := range rl {
					a := append([]string{}, perBlock[b][root+".Internal_inputs"]...)
					l := append([]string{}, perBlock[b][root+".Links"]...)
					sort.Strings(a)
					sort.Strings(l)
					inst := fmt.Sprintf("C10/LOCKSTEP:%s:%s:block%d", fkey, root, bi)
					pos := prog.Pos(b.Pos())
					if strings.Join(a, ";") == strings.Join(l, ";") {
						r.OK("C10/LOCKSTEP", inst, pos, fmt.Sprintf("Internal_inputs and Links change together [%s]", strings.Join(a, ";")))
					} else {
						r.Violation("C10/LOCKSTEP", inst, pos, fmt.Sprintf("%s changes the size of %s.Internal_inputs by [%s] but of %s.Links by [%s] in the same block: the invariant 'one link slot per internal input' is broken for every later edit and walk", fkey, root, strings.Join(a, ";"), root, strings.Join(l, ";")))
					}
				}
			}
			// (d) counters: a function that changes X.Inputs must also change X.Internal_outputs (and Outputs / Internal_inputs)
			changes := map[string]map[string]bool{}
			for _, s := range stores {
				if s.elem {
					continue
				}
				root := types.ExprString(s.root)
				if changes[root] == nil {
					changes[root] = map[string]bool{}
				}
				changes[root][s.field.Name()] = true
			}
			var roots []string
			for k := range changes {
				roots = append(roots, k)
			}
			sort.Strings(roots)
			for _, root := range roots {
				c := changes[root]
				for _, pair := range [][2]string{{"Inputs", "Internal_outputs"}, {"Outputs", "Internal_inputs"}} {
					if !c[pair[0]] {
						continue
					}
					inst := fmt.Sprintf("C10/COUNTER:%s:%s.%s", fkey, root, pair[0])
					if c[pair[1]] {
						r.OK("C10/COUNTER", inst, prog.Pos(fd.Pos()), pair[0]+" changes together with "+pair[1])
					} else {
						r.Violation("C10/COUNTER", inst, prog.Pos(fd.Pos()), fmt.Sprintf("%s changes the counter %s.%s without changing %s.%s: the number of external ports no longer matches the endpoint list", fkey, root, pair[0], root, pair[1]))
					}
				}
			}
			// appended external endpoints must bump the counter: Bond{0,..} appended to Internal_outputs => Inputs changes
			for _, s := range stores {
				if s.elem || s.rhs == nil {
					continue
				}
				call, ok := ast.Unparen(s.rhs).(*ast.CallExpr)
				if !ok {
					continue
				}
				if id, ok := call.Fun.(*ast.Ident); !ok || id.Name != "append" {
					continue
				}
				for _, a := range call.Args[1:] {
					mt, ok := bondMapTo(info, fd, a)
					if !ok {
						continue
					}
					root := types.ExprString(s.root)
					need := ""
					if s.field.Name() == "Internal_outputs" && mt == 0 {
						need = "Inputs"
					}
					if s.field.Name() == "Internal_inputs" && mt == 1 {
						need = "Outputs"
					}
					if need == "" {
						continue
					}
					inst := fmt.Sprintf("C10/COUNTER:%s:%s.%s<-append", fkey, root, need)
					if changes[root][need] {
						r.OK("C10/COUNTER", inst, prog.Pos(call.Pos()), "external endpoint appended and counter updated")
					} else {
						r.Violation("C10/COUNTER", inst, prog.Pos(call.Pos()), fmt.Sprintf("%s appends an external endpoint to %s.%s without updating %s.%s", fkey, root, s.field.Name(), root, need))
					}
				}
			}
		})
	}
	r.Count("functions_storing_topology", nFuncs)
	r.Count("topology_stores", nStores)

	c10Derived(r, prog, bm, st)
	c10Removal(r, prog, bm, isTopoField)

	// (c) index kinds inside the editors
	e := newIKEngine(r, prog, "C10")
	e.run([]string{"pkg/bondmachine", "cmd/bondmachine", "pkg/bmbuilder", "pkg/bondgo", "pkg/basm"}, func(pk *packages.Package, fd *ast.FuncDecl) bool {
		return e.storesTopology(pk, fd) || callsTopologyEditor(pk, fd)
	})
	c10Compact(r, prog)
}

// freshMachines: locals initialised with a newly allocated Bondmachine in this function.
func freshMachines(info *types.Info, fd *ast.FuncDecl, bmType *types.Named) map[types.Object]bool {
	out := map[types.Object]bool{}
	isFresh := func(e ast.Expr) bool {
		switch x := ast.Unparen(e).(type) {
		case *ast.CallExpr:
			if id, ok := x.Fun.(*ast.Ident); ok && id.Name == "new" && len(x.Args) == 1 {
				return types.Identical(info.TypeOf(x.Args[0]), bmType)
			}
		case *ast.UnaryExpr:
			if x.Op == token.AND {
				if cl, ok := x.X.(*ast.CompositeLit); ok {
					return types.Identical(info.TypeOf(cl), bmType)
				}
			}
		case *ast.CompositeLit:
			return types.Identical(info.TypeOf(x), bmType)
		}
		return false
	}
	ast.Inspect(fd.Body, func(n ast.Node) bool {
		switch x := n.(type) {
		case *ast.AssignStmt:
			if len(x.Lhs) == len(x.Rhs) {
				for i, l := range x.Lhs {
					if id, ok := l.(*ast.Ident); ok && isFresh(x.Rhs[i]) {
						out[info.ObjectOf(id)] = true
					}
				}
			}
		case *ast.ValueSpec:
			for i, id := range x.Names {
				if i < len(x.Values) && isFresh(x.Values[i]) {
					out[info.ObjectOf(id)] = true
				}
				if len(x.Values) == 0 && x.Type != nil && types.Identical(info.TypeOf(x.Type), bmType) {
					out[info.ObjectOf(id)] = true
				}
			}
		}
		return true
	})
	// named results of type *Bondmachine assigned fresh later are covered by the AssignStmt case
	return out
}

// makeExprOf returns the expression a local slice was created with (its single `x := make(...)`).
func makeExprOf(info *types.Info, fd *ast.FuncDecl, o types.Object) ast.Expr {
	var out ast.Expr
	ast.Inspect(fd.Body, func(n ast.Node) bool {
		as, ok := n.(*ast.AssignStmt)
		if !ok || len(as.Lhs) != len(as.Rhs) {
			return true
		}
		for i, l := range as.Lhs {
			if id, ok := l.(*ast.Ident); ok && info.ObjectOf(id) == o && as.Tok == token.DEFINE {
				out = as.Rhs[i]
			}
		}
		return true
	})
	return out
}

// bondMapTo gives the constant Map_to of a Bond expression (literal, or a local defined by a literal).
func bondMapTo(info *types.Info, fd *ast.FuncDecl, e ast.Expr) (int64, bool) {
	e = ast.Unparen(e)
	if id, ok := e.(*ast.Ident); ok {
		if d := makeExprOf(info, fd, info.ObjectOf(id)); d != nil {
			e = ast.Unparen(d)
		}
	}
	cl, ok := e.(*ast.CompositeLit)
	if !ok || len(cl.Elts) == 0 {
		return 0, false
	}
	if nt, ok := info.TypeOf(cl).(*types.Named); !ok || nt.Obj().Name() != "Bond" {
		return 0, false
	}
	first := cl.Elts[0]
	if kv, ok := first.(*ast.KeyValueExpr); ok {
		if k, ok := kv.Key.(*ast.Ident); !ok || k.Name != "Map_to" {
			return 0, false
		}
		first = kv.Value
	}
	if tv, ok := info.Types[first]; ok && tv.Value != nil {
		return constant.Int64Val(constant.ToInt(tv.Value))
	}
	return 0, false
}


// c10Derived (C10/DERIVED): a field of Bondmachine, other than the topology itself, that is filled
// with positions in Internal_inputs / Internal_outputs (a range key or len-bounded counter over the
// list is stored into it) is a derived index of that list. Every method that stores to the list
// (append, rebuild, reslice) must refresh or invalidate the derived field in the same call (directly
// or through a method it calls on the same machine); otherwise the next lookup hands out positions of
// the list as it was, and Add_bond / the walkers join other endpoints than the ones named.
func c10Derived(r *core.Run, prog *core.Program, bm *packages.Package, st *types.Struct) {
	info := bm.TypesInfo
	isBMField := func(v *types.Var) bool {
		if v == nil {
			return false
		}
		for i := 0; i < st.NumFields(); i++ {
			if st.Field(i) == v {
				return true
			}
		}
		return false
	}
	lists := map[string]bool{"Internal_inputs": true, "Internal_outputs": true}
	// 1. discover derived fields: F[...] = k / F = append(F, k) / F[k] = ... where k counts positions of a list
	derived := map[*types.Var]string{} // field -> list name
	where := map[*types.Var]token.Pos{}
	core.FuncDecls(bm, func(_ *ast.File, fd *ast.FuncDecl) {
		posVar := map[types.Object]string{}
		ast.Inspect(fd.Body, func(n ast.Node) bool {
			switch x := n.(type) {
			case *ast.RangeStmt:
				if f := core.FieldOf(info, x.X); f != nil && isBMField(f) && lists[f.Name()] {
					if id, ok := x.Key.(*ast.Ident); ok && id.Name != "_" {
						posVar[info.ObjectOf(id)] = f.Name()
					}
				}
			case *ast.ForStmt:
				if be, ok := x.Cond.(*ast.BinaryExpr); ok && be.Op == token.LSS {
					if call, ok := ast.Unparen(be.Y).(*ast.CallExpr); ok && len(call.Args) == 1 {
						if id, ok := call.Fun.(*ast.Ident); ok && id.Name == "len" {
							if f := core.FieldOf(info, call.Args[0]); f != nil && isBMField(f) && lists[f.Name()] {
								if v, ok := ast.Unparen(be.X).(*ast.Ident); ok {
									posVar[info.ObjectOf(v)] = f.Name()
								}
							}
						}
					}
				}
			}
			return true
		})
		if len(posVar) == 0 {
			return
		}
		mentionsPos := func(e ast.Expr) string {
			l := ""
			ast.Inspect(e, func(k ast.Node) bool {
				if id, ok := k.(*ast.Ident); ok {
					if ln, ok := posVar[info.ObjectOf(id)]; ok {
						l = ln
					}
				}
				return true
			})
			return l
		}
		ast.Inspect(fd.Body, func(n ast.Node) bool {
			as, ok := n.(*ast.AssignStmt)
			if !ok || len(as.Lhs) != len(as.Rhs) {
				return true
			}
			for i, l := range as.Lhs {
				var f *types.Var
				var key ast.Expr
				switch lx := ast.Unparen(l).(type) {
				case *ast.IndexExpr:
					f, key = core.FieldOf(info, lx.X), lx.Index
				case *ast.SelectorExpr:
					f = core.FieldOf(info, lx)
				}
				if f == nil || !isBMField(f) || topoFields[f.Name()] {
					continue
				}
				// only int-valued / int-keyed containers carry positions
				ln := ""
				if b, ok := info.TypeOf(as.Rhs[i]).Underlying().(*types.Basic); ok && b.Info()&types.IsInteger != 0 {
					ln = mentionsPos(as.Rhs[i])
				}
				if ln == "" && key != nil {
					if b, ok := info.TypeOf(key).Underlying().(*types.Basic); ok && b.Info()&types.IsInteger != 0 {
						ln = mentionsPos(key)
					}
				}
				if ln == "" {
					if call, ok := as.Rhs[i].(*ast.CallExpr); ok {
						if id, ok := call.Fun.(*ast.Ident); ok && id.Name == "append" {
							for _, a := range call.Args[1:] {
								if b, ok := info.TypeOf(a).Underlying().(*types.Basic); ok && b.Info()&types.IsInteger != 0 && ln == "" {
									ln = mentionsPos(a)
								}
							}
						}
					}
				}
				if ln != "" {
					if _, dup := derived[f]; !dup {
						derived[f] = ln
						where[f] = as.Pos()
					}
				}
			}
			return true
		})
	})
	r.Count("derived_index_fields", len(derived))
	if len(derived) == 0 {
		return
	}
	// 2. per method of Bondmachine: fields stored (directly), methods of the same receiver called
	type minfo struct {
		fd     *ast.FuncDecl
		stores map[*types.Var]token.Pos
		calls  []*types.Func
	}
	methods := map[*types.Func]*minfo{}
	core.FuncDecls(bm, func(_ *ast.File, fd *ast.FuncDecl) {
		if core.RecvTypeName(info, fd) != "Bondmachine" {
			return
		}
		fn, _ := info.Defs[fd.Name].(*types.Func)
		if fn == nil {
			return
		}
		mi := &minfo{fd: fd, stores: map[*types.Var]token.Pos{}}
		methods[fn] = mi
		var recvObj types.Object
		if len(fd.Recv.List) > 0 && len(fd.Recv.List[0].Names) > 0 {
			recvObj = info.ObjectOf(fd.Recv.List[0].Names[0])
		}
		onRecv := func(e ast.Expr) bool {
			id, ok := ast.Unparen(e).(*ast.Ident)
			return ok && recvObj != nil && info.ObjectOf(id) == recvObj
		}
		ast.Inspect(fd.Body, func(n ast.Node) bool {
			switch x := n.(type) {
			case *ast.AssignStmt:
				for _, l := range x.Lhs {
					e := ast.Unparen(l)
					if ie, ok := e.(*ast.IndexExpr); ok {
						e = ast.Unparen(ie.X)
					}
					if sel, ok := e.(*ast.SelectorExpr); ok && onRecv(sel.X) {
						if f := core.FieldOf(info, sel); f != nil {
							if _, dup := mi.stores[f]; !dup {
								mi.stores[f] = x.Pos()
							}
						}
					}
				}
			case *ast.CallExpr:
				if id, ok := x.Fun.(*ast.Ident); ok && (id.Name == "delete" || id.Name == "clear") && len(x.Args) >= 1 {
					if sel, ok := ast.Unparen(x.Args[0]).(*ast.SelectorExpr); ok && onRecv(sel.X) {
						if f := core.FieldOf(info, sel); f != nil {
							if _, dup := mi.stores[f]; !dup {
								mi.stores[f] = x.Pos()
							}
						}
					}
				}
				if sel, ok := x.Fun.(*ast.SelectorExpr); ok && onRecv(sel.X) {
					if c, ok := core.CalleeOf(info, x).(*types.Func); ok {
						mi.calls = append(mi.calls, c)
					}
				}
			}
			return true
		})
	})
	var touches func(fn *types.Func, f *types.Var, seen map[*types.Func]bool) bool
	touches = func(fn *types.Func, f *types.Var, seen map[*types.Func]bool) bool {
		mi := methods[fn]
		if mi == nil || seen[fn] {
			return false
		}
		seen[fn] = true
		if _, ok := mi.stores[f]; ok {
			return true
		}
		for _, c := range mi.calls {
			if touches(c, f, seen) {
				return true
			}
		}
		return false
	}
	var fns []*types.Func
	for fn := range methods {
		fns = append(fns, fn)
	}
	sort.Slice(fns, func(i, j int) bool { return fns[i].Name() < fns[j].Name() })
	var dfs []*types.Var
	for f := range derived {
		dfs = append(dfs, f)
	}
	sort.Slice(dfs, func(i, j int) bool { return dfs[i].Name() < dfs[j].Name() })
	n := 0
	for _, f := range dfs {
		ln := derived[f]
		for _, fn := range fns {
			mi := methods[fn]
			var lpos token.Pos
			for sf, p := range mi.stores {
				if sf.Name() == ln && isBMField(sf) {
					lpos = p
				}
			}
			if !lpos.IsValid() {
				continue
			}
			n++
			inst := fmt.Sprintf("C10/DERIVED:%s:Bondmachine.%s", f.Name(), fn.Name())
			if touches(fn, f, map[*types.Func]bool{}) {
				r.OK("C10/DERIVED", inst, prog.Pos(lpos), fmt.Sprintf("the editor changes %s and refreshes the derived index %s", ln, f.Name()))
			} else {
				r.Violation("C10/DERIVED", inst, prog.Pos(lpos), fmt.Sprintf("Bondmachine.%s is filled with positions in %s (at %s), and Bondmachine.%s stores to %s without refreshing or invalidating it: after this edit the field still holds positions of the list as it was, so the next lookup through it addresses other endpoints than the ones named (a bond is added to, or a walk follows, the wrong output)", f.Name(), ln, r.Rel(prog.Pos(where[f])), fn.Name(), ln))
			}
		}
	}
	r.Count("derived_index_refresh_obligations", n)
}


// callsTopologyEditor: the function edits a machine through the edit API (a composite editor such as
// Attach_benchmark_core, or a command-line front-end): it calls an Add_*/Del_*/Attach*/Connect* method
// of Bondmachine.
func callsTopologyEditor(pk *packages.Package, fd *ast.FuncDecl) bool {
	found := false
	ast.Inspect(fd.Body, func(n ast.Node) bool {
		call, ok := n.(*ast.CallExpr)
		if !ok || found {
			return !found
		}
		c, ok := core.CalleeOf(pk.TypesInfo, call).(*types.Func)
		if !ok || c.Pkg() == nil || !strings.HasSuffix(c.Pkg().Path(), "pkg/bondmachine") {
			return true
		}
		sig, _ := c.Type().(*types.Signature)
		if sig == nil || sig.Recv() == nil || !strings.HasSuffix(strings.TrimPrefix(sig.Recv().Type().String(), "*"), "pkg/bondmachine.Bondmachine") {
			return true
		}
		for _, pre := range []string{"Add_", "Del_", "Attach", "Connect_", "Disconnect_"} {
			if strings.HasPrefix(c.Name(), pre) {
				found = true
			}
		}
		return true
	})
	return found
}


// c10Removal (C10/REMOVAL): which element an editor removes from Internal_inputs /
// Internal_outputs / Links must be found by looking at the elements (the bond of the deleted port is
// wherever earlier edits left it: external ports and processor ports interleave in creation order). A
// list cut by reslicing (`L = L[:k]`, `append(L[:i], L[i+1:]...)`) at a position computed from lengths
// or constants alone removes whatever happens to sit there. Position variables count as found by
// content when they are the key of a loop over a topology list or are assigned inside such a loop.
func c10Removal(r *core.Run, prog *core.Program, bm *packages.Package, isTopoField func(*types.Var) bool) {
	info := bm.TypesInfo
	n := 0
	core.FuncDecls(bm, func(_ *ast.File, fd *ast.FuncDecl) {
		if core.RecvTypeName(info, fd) != "Bondmachine" {
			return
		}
		// content-derived position variables
		derived := map[types.Object]bool{}
		ast.Inspect(fd.Body, func(m ast.Node) bool {
			rs, ok := m.(*ast.RangeStmt)
			if !ok {
				return true
			}
			if f := core.FieldOf(info, rs.X); f == nil || !isTopoField(f) {
				return true
			}
			if id, ok := rs.Key.(*ast.Ident); ok {
				derived[info.ObjectOf(id)] = true
			}
			ast.Inspect(rs.Body, func(q ast.Node) bool {
				switch x := q.(type) {
				case *ast.AssignStmt:
					for _, l := range x.Lhs {
						if id, ok := l.(*ast.Ident); ok {
							derived[info.ObjectOf(id)] = true
						}
					}
				case *ast.IncDecStmt:
					if id, ok := x.X.(*ast.Ident); ok {
						derived[info.ObjectOf(id)] = true
					}
				}
				return true
			})
			return true
		})
		k := 0
		ast.Inspect(fd.Body, func(m ast.Node) bool {
			as, ok := m.(*ast.AssignStmt)
			if !ok || len(as.Lhs) != len(as.Rhs) {
				return true
			}
			for i, l := range as.Lhs {
				f := core.FieldOf(info, l)
				if f == nil || !isTopoField(f) || (f.Name() != "Internal_inputs" && f.Name() != "Internal_outputs" && f.Name() != "Links") {
					continue
				}
				// reslices of the same list on the right-hand side
				var bad []string
				found := false
				ast.Inspect(as.Rhs[i], func(q ast.Node) bool {
					se, ok := q.(*ast.SliceExpr)
					if !ok || core.FieldOf(info, se.X) != f {
						return true
					}
					found = true
					for _, b := range []ast.Expr{se.Low, se.High} {
						if b == nil {
							continue
						}
						ast.Inspect(b, func(z ast.Node) bool {
							if id, ok := z.(*ast.Ident); ok {
								if v, ok := info.ObjectOf(id).(*types.Var); ok && !v.IsField() && !derived[v] {
									if _, isParam := info.Types[id]; isParam {
										bad = append(bad, id.Name)
									}
								}
							}
							return true
						})
						if tv, ok := info.Types[b]; ok && tv.Value != nil {
							bad = append(bad, "constant "+tv.Value.String())
						}
					}
					return true
				})
				if !found {
					continue
				}
				k++
				n++
				inst := fmt.Sprintf("C10/REMOVAL:%s:%s#%d", core.FuncKey(bm, fd), f.Name(), k)
				if len(bad) == 0 {
					r.OK("C10/REMOVAL", inst, prog.Pos(as.Pos()), "the cut position was found by walking the list")
				} else {
					r.Violation("C10/REMOVAL", inst, prog.Pos(as.Pos()), fmt.Sprintf("%s cuts %s by reslicing at a position computed without looking at the elements (%s): the bond of the port being deleted is wherever earlier edits left it — e.g. not last when a processor was added after it — so another endpoint (and its link slot) is removed and the deleted port's bond survives", core.FuncKey(bm, fd), f.Name(), strings.Join(bad, ", ")))
				}
			}
			return true
		})
	})
	r.Count("topology_reslices", n)
}
