package checks

import (
	"fmt"
	"go/ast"
	"go/token"
	"go/types"
	"strings"

	"bmverif/internal/core"
	"golang.org/x/tools/go/packages"
	"golang.org/x/tools/go/ssa"
)

// E4 MAPORDER — commutativity classification of every `range` over a map. A loop is
// order-insensitive iff every statement of its body is in the commutative set; anything
// else is reported with the first offending statement.

type moVerdict struct {
	sensitive bool
	reason    string
	pos       token.Pos
	diagOnly  bool // the only order-dependent effects are diagnostics
}

type moCtx struct {
	prog *core.Program
	pk   *packages.Package
	info *types.Info
	fd   *ast.FuncDecl
	rs   *ast.RangeStmt
	key  types.Object
	val  types.Object
	// objects declared inside the loop body
	local map[types.Object]bool
	v     moVerdict
	sawDiag bool
	idemp   int // idempotent effects seen so far in the current iteration path (for break)
	inInner bool
	innerLabels map[string]bool
}

func (c *moCtx) flag(reason string, n ast.Node) {
	if !c.v.sensitive {
		c.v = moVerdict{sensitive: true, reason: reason, pos: n.Pos()}
	}
}

func (c *moCtx) isLocal(e ast.Expr) bool {
	switch x := ast.Unparen(e).(type) {
	case *ast.Ident:
		if x.Name == "_" {
			return true
		}
		o := c.info.ObjectOf(x)
		return o != nil && (c.local[o] || o == c.key || o == c.val)
	case *ast.IndexExpr:
		return c.isLocal(x.X)
	case *ast.SelectorExpr:
		// field of a loop-local struct value (not through a pointer held outside)
		if c.isLocal(x.X) {
			if t := c.info.TypeOf(x.X); t != nil {
				if _, isPtr := t.Underlying().(*types.Pointer); !isPtr {
					return true
				}
			}
		}
	case *ast.StarExpr:
		return false
	}
	return false
}

// mentions reports whether expression e mentions object o.
func mentions(info *types.Info, e ast.Node, o types.Object) bool {
	if o == nil || e == nil {
		return false
	}
	found := false
	ast.Inspect(e, func(n ast.Node) bool {
		if id, ok := n.(*ast.Ident); ok && info.ObjectOf(id) == o {
			found = true
		}
		return !found
	})
	return found
}

func (c *moCtx) mentionsIter(e ast.Node) bool {
	if mentions(c.info, e, c.key) || mentions(c.info, e, c.val) {
		return true
	}
	for o := range c.local {
		if mentions(c.info, e, o) {
			return true
		}
	}
	return false
}

func isConstExpr(info *types.Info, e ast.Expr) bool {
	if tv, ok := info.Types[e]; ok && tv.Value != nil {
		return true
	}
	switch x := ast.Unparen(e).(type) {
	case *ast.Ident:
		return x.Name == "true" || x.Name == "false" || x.Name == "nil"
	case *ast.CompositeLit:
		return len(x.Elts) == 0
	}
	return false
}

var pureExternalPkgs = map[string]bool{"strings": true, "strconv": true, "math": true, "unicode": true, "errors": true, "regexp": true, "sort": true, "slices": true, "bytes": true, "path/filepath": true, "math/bits": true, "unicode/utf8": true, "reflect": true, "encoding/hex": true}

// callClass: "pure" | "diag" | "setadd" | "sensitive:<why>"
func (c *moCtx) callClass(call *ast.CallExpr) string {
	// conversions and builtins
	if tv, ok := c.info.Types[call.Fun]; ok && tv.IsType() {
		return "pure"
	}
	if id, ok := ast.Unparen(call.Fun).(*ast.Ident); ok {
		if _, isB := c.info.Uses[id].(*types.Builtin); isB {
			switch id.Name {
			case "len", "cap", "make", "new", "append", "copy", "min", "max", "panic", "delete":
				return "pure"
			case "print", "println":
				return "diag"
			}
		}
	}
	callee := core.CalleeOf(c.info, call)
	if callee == nil {
		return "sensitive:call of a function value"
	}
	pkgPath := ""
	if callee.Pkg() != nil {
		pkgPath = callee.Pkg().Path()
	}
	name := callee.Name()
	if pkgPath == "fmt" {
		if strings.HasPrefix(name, "Print") || strings.HasPrefix(name, "Fprint") {
			return "diag"
		}
		return "pure" // Sprintf, Errorf, Sscanf ...
	}
	if pkgPath == "log" {
		return "diag"
	}
	if pkgPath == "os" && name == "Exit" {
		return "pure"
	}
	if pkgPath == "maps" || pkgPath == "golang.org/x/exp/maps" {
		if name == "Copy" && len(call.Args) == 2 {
			if c.isLocalRoot(call.Args[0]) {
				return "pure"
			}
			return "sensitive:maps.Copy into " + types.ExprString(call.Args[0]) + ", which outlives the iteration"
		}
		if name == "Keys" || name == "Values" {
			return "sensitive:maps." + name + " returns the entries in map order"
		}
		return "pure"
	}
	if pureExternalPkgs[pkgPath] {
		return "pure"
	}
	if !strings.HasPrefix(pkgPath, core.ModPath) {
		return "sensitive:call of external " + pkgPath + "." + name
	}
	// module callee: requirement set insertion is commutative
	if name == "Requirement" && strings.HasSuffix(pkgPath, "pkg/bmreqs") {
		if len(call.Args) == 1 {
			if _, _, op, ok := reqLit(c.info, call.Args[0]); ok {
				switch op {
				case "OpAdd":
					return "setadd"
				case "OpCheck", "OpGet", "OpDump":
					return "pure"
				}
			}
		}
		return "sensitive:bmreqs request that is not a set insertion"
	}
	// module callee: which of its parameters does it write through?
	written, other, keyParam := moEffects2(c.prog, callee)
	if other != "" {
		return "sensitive:" + name + " " + other
	}
	// actual expression per SSA parameter index (receiver first for methods)
	var actuals []ast.Expr
	if sel, ok := ast.Unparen(call.Fun).(*ast.SelectorExpr); ok {
		if _, isSel := c.info.Selections[sel]; isSel {
			actuals = append(actuals, sel.X)
		}
	}
	actuals = append(actuals, call.Args...)
	for idx := range written {
		if idx >= len(actuals) {
			return "sensitive:" + name + " writes through a parameter that cannot be matched to an argument"
		}
		a := actuals[idx]
		if c.isLocalRoot(a) {
			continue
		}
		// a keyed setter (its only effect is m[k] = v with k a parameter) commutes when the key
		// argument is the range key
		if kp, ok := keyParam[idx]; ok {
			if kp == -1 {
				continue // idempotent
			}
			if kp < len(actuals) && c.mentionsIter(actuals[kp]) {
				continue // same assumption as for an inline m[k] = v: k distinct per element
			}
			if kp < len(actuals) && isConstExpr(c.info, actuals[kp]) {
				// constant key: last writer wins unless the value is constant as well
				allConst := true
				for ai, a2 := range actuals {
					if ai != idx && !isConstExpr(c.info, a2) {
						allConst = false
					}
				}
				if allConst {
					continue
				}
			}
		}
		return "sensitive:" + name + " writes through " + types.ExprString(a) + ", which outlives the iteration"
	}
	return "pure"
}

// isLocalRoot: the expression denotes memory owned by the current iteration (the range
// value, or something reached from it / from a loop-local).
func (c *moCtx) isLocalRoot(e ast.Expr) bool {
	for {
		switch x := ast.Unparen(e).(type) {
		case *ast.Ident:
			o := c.info.ObjectOf(x)
			return o != nil && (c.local[o] || o == c.val || o == c.key)
		case *ast.SelectorExpr:
			e = x.X
		case *ast.IndexExpr:
			e = x.X
		case *ast.StarExpr:
			e = x.X
		case *ast.UnaryExpr:
			e = x.X
		case *ast.CallExpr:
			return false
		default:
			return false
		}
	}
}

var moEffectMemo = map[types.Object]string{}

type moFx struct {
	written  map[int]bool
	other    string
	keyParam map[int]int // written param -> param holding the map key, when every write through it is m[key] = v
}

var moFxMemo = map[types.Object]*moFx{}

// moEffects2: parameters a module callee writes through, any non-parameter effect, and keyed-setter info.
func moEffects2(prog *core.Program, callee types.Object) (map[int]bool, string, map[int]int) {
	if v, ok := moFxMemo[callee]; ok {
		return v.written, v.other, v.keyParam
	}
	fx := &moFx{written: map[int]bool{}, keyParam: map[int]int{}}
	moFxMemo[callee] = fx
	f, ok := callee.(*types.Func)
	if !ok || prog.SSA == nil {
		return fx.written, fx.other, fx.keyParam
	}
	fn := prog.SSA.FuncValue(f)
	if fn == nil || fn.Blocks == nil {
		// interface method: every implementation in the module
		return fx.written, fx.other, fx.keyParam
	}
	if moConfiner == nil {
		moConfiner = newConfiner(prog)
	}
	for _, e := range moConfiner.summary(fn, 0) {
		switch e.r.kind {
		case rkParam:
			fx.written[e.r.idx] = true
		case rkGlobal:
			fx.other = "writes package-level " + e.r.name
		default:
			if fx.other == "" {
				fx.other = "writes " + e.r.String()
			}
		}
	}
	// keyed setter detection (direct, or through one level of calls to keyed setters)
	for idx := range fx.written {
		if kp, ok := keyedSetterParam(prog, fn, idx, 0); ok {
			fx.keyParam[idx] = kp
		}
	}
	return fx.written, fx.other, fx.keyParam
}

// keyedSetterParam: every write of fn through parameter `idx` is a map update whose key is
// (derived only from) parameter kp.
func keyedSetterParam(prog *core.Program, fn *ssa.Function, idx int, depth int) (int, bool) {
	if depth > 3 || idx >= len(fn.Params) {
		return 0, false
	}
	c := moConfiner
	target := fn.Params[idx]
	kp := -1
	paramIndex := func(v ssa.Value) int {
		for {
			switch x := v.(type) {
			case *ssa.ChangeType:
				v = x.X
				continue
			case *ssa.Convert:
				v = x.X
				continue
			case *ssa.MakeInterface:
				v = x.X
				continue
			}
			break
		}
		for i, p := range fn.Params {
			if p == v {
				return i
			}
		}
		return -1
	}
	// a key built by string concatenation from a parameter (prefix + name): keyed by that parameter
	var keyParamOf func(v ssa.Value, d int) int
	keyParamOf = func(v ssa.Value, d int) int {
		if k := paramIndex(v); k >= 0 || d > 4 {
			return k
		}
		if b, ok := v.(*ssa.BinOp); ok && b.Op == token.ADD {
			if bt, ok := b.Type().Underlying().(*types.Basic); ok && bt.Info()&types.IsString != 0 {
				if k := keyParamOf(b.X, d+1); k >= 0 {
					return k
				}
				return keyParamOf(b.Y, d+1)
			}
		}
		return -1
	}
	rootedAtTarget := func(v ssa.Value) bool {
		for r := range c.rootsOf(v) {
			if r.kind == rkParam && fn.Params[r.idx] == target {
				return true
			}
		}
		return false
	}
	for _, b := range fn.Blocks {
		for _, ins := range b.Instrs {
			switch x := ins.(type) {
			case *ssa.Store:
				if rootedAtTarget(x.Addr) {
					// pointer-refresh idiom: el.BasmMeta = el.SetMeta(k, v) stores back what a keyed setter returned
					if call, ok := x.Val.(*ssa.Call); ok {
						if cal := call.Call.StaticCallee(); cal != nil && strings.HasSuffix(cal.Name(), "Meta") && cal.Pkg != nil && strings.HasSuffix(cal.Pkg.Pkg.Path(), "pkg/bmmeta") {
							continue
						}
					}
					return 0, false
				}
			case *ssa.MapUpdate:
				if rootedAtTarget(x.Map) {
					if _, kc := x.Key.(*ssa.Const); kc {
						if _, vc := x.Value.(*ssa.Const); vc {
							continue // idempotent constant entry
						}
					}
					k := keyParamOf(x.Key, 0)
					if k < 0 || (kp >= 0 && kp != k) {
						return 0, false
					}
					kp = k
				}
			case ssa.CallInstruction:
				cc := x.Common()
				callee := cc.StaticCallee()
				if callee == nil || callee.Blocks == nil || !core.InModule(callee) {
					continue
				}
				args := cc.Args
				for ai, a := range args {
					if !rootedAtTarget(a) {
						continue
					}
					// does the callee write through this arg?
					writes := false
					for _, e := range c.summary(callee, 0) {
						if e.r.kind == rkParam && e.r.idx == ai {
							writes = true
						}
					}
					if !writes {
						continue
					}
					ck, ok := keyedSetterParam(prog, callee, ai, depth+1)
					if !ok || ck >= len(args) {
						return 0, false
					}
					if _, kc := args[ck].(*ssa.Const); kc {
						// constant key: idempotent only if every other argument is constant too
						allConst := true
						for aj, a2 := range args {
							if aj == ai {
								continue
							}
							if _, isC := a2.(*ssa.Const); !isC {
								allConst = false
							}
						}
						if allConst {
							continue
						}
						return 0, false
					}
					k := paramIndex(args[ck])
					if k < 0 || (kp >= 0 && kp != k) {
						return 0, false
					}
					kp = k
				}
			}
		}
	}
	if kp < 0 {
		return -1, true // only idempotent constant entries
	}
	return kp, true
}
var moConfiner *confiner

// moEffects summarises a module callee: "" (no writes outside fresh memory), "args" (writes
// only through its parameters/receiver), or a description of a global/unknown write.
func moEffects(prog *core.Program, callee types.Object) string {
	if v, ok := moEffectMemo[callee]; ok {
		return v
	}
	res := ""
	if prog.SSA != nil {
		if f, ok := callee.(*types.Func); ok {
			if fn := prog.SSA.FuncValue(f); fn != nil && fn.Blocks != nil {
				if moConfiner == nil {
					moConfiner = newConfiner(prog)
				}
				for _, e := range moConfiner.summary(fn, 0) {
					switch e.r.kind {
					case rkParam:
						if res == "" {
							res = "args"
						}
					case rkGlobal:
						res = "writes package-level " + e.r.name
					default:
						if res == "" || res == "args" {
							res = "writes " + e.r.String()
						}
					}
					if strings.HasPrefix(res, "writes package-level") {
						break
					}
				}
			}
		}
	}
	moEffectMemo[callee] = res
	return res
}

func (c *moCtx) exprCalls(e ast.Node) {
	if e == nil {
		return
	}
	ast.Inspect(e, func(n ast.Node) bool {
		switch x := n.(type) {
		case *ast.FuncLit:
			return false
		case *ast.CallExpr:
			switch cl := c.callClass(x); {
			case cl == "diag":
				c.sawDiag = true
			case strings.HasPrefix(cl, "sensitive:"):
				c.flag(strings.TrimPrefix(cl, "sensitive:"), x)
			}
		case *ast.UnaryExpr:
			if x.Op == token.ARROW {
				c.flag("channel receive inside the loop", x)
			}
		}
		return true
	})
}

func (c *moCtx) sortedLater(o types.Object) bool {
	found := false
	ast.Inspect(c.fd.Body, func(n ast.Node) bool {
		call, ok := n.(*ast.CallExpr)
		if !ok || call.Pos() < c.rs.End() {
			return true
		}
		callee := core.CalleeOf(c.info, call)
		if callee == nil || callee.Pkg() == nil {
			return true
		}
		p := callee.Pkg().Path()
		if (p == "sort" || p == "slices") && (strings.HasPrefix(callee.Name(), "Sort") || callee.Name() == "Strings" || callee.Name() == "Ints" || callee.Name() == "Slice" || callee.Name() == "SliceStable" || callee.Name() == "Stable" || callee.Name() == "Float64s") {
			total := true
			switch callee.Name() {
			case "Slice", "SliceStable", "SortFunc", "SortStableFunc":
				// a comparison function orders the slice totally only if it breaks ties: elements that
				// compare equal keep the order in which the map loop appended them
				total = false
				for _, a := range call.Args {
					fl, ok := a.(*ast.FuncLit)
					if !ok {
						continue
					}
					cmps, whole := 0, false
					ast.Inspect(fl.Body, func(m ast.Node) bool {
						be, ok := m.(*ast.BinaryExpr)
						if !ok {
							return true
						}
						switch be.Op {
						case token.LSS, token.GTR, token.LEQ, token.GEQ, token.EQL, token.NEQ:
							cmps++
							// x[i] < x[j] on the elements themselves (a slice of basic values)
							_, xi := ast.Unparen(be.X).(*ast.IndexExpr)
							_, yi := ast.Unparen(be.Y).(*ast.IndexExpr)
							if xi && yi {
								whole = true
							}
						}
						return true
					})
					if whole || cmps >= 2 {
						total = true
					}
				}
			}
			for _, a := range call.Args {
				if mentions(c.info, a, o) && total {
					found = true
				}
			}
		}
		return true
	})
	return found
}

// onlyCounted: after the loop the slice is only used in len(x) / range-membership contexts.
func (c *moCtx) onlyLenUsed(o types.Object) bool {
	ok := true
	ast.Inspect(c.fd.Body, func(n ast.Node) bool {
		if !ok {
			return false
		}
		if call, isCall := n.(*ast.CallExpr); isCall {
			if id, isID := call.Fun.(*ast.Ident); isID && id.Name == "len" && len(call.Args) == 1 && mentions(c.info, call.Args[0], o) {
				return false // fine, do not descend
			}
		}
		if id, isID := n.(*ast.Ident); isID && c.info.ObjectOf(id) == o && id.Pos() > c.rs.End() {
			ok = false
		}
		return true
	})
	return ok
}

func (c *moCtx) stmt(s ast.Stmt) {
	if s == nil || c.v.sensitive {
		return
	}
	switch x := s.(type) {
	case *ast.BlockStmt:
		for _, st := range x.List {
			c.stmt(st)
		}
	case *ast.ExprStmt:
		c.exprCalls(x.X)
	case *ast.DeclStmt:
		if gd, ok := x.Decl.(*ast.GenDecl); ok {
			for _, sp := range gd.Specs {
				if vs, ok := sp.(*ast.ValueSpec); ok {
					for _, n := range vs.Names {
						if o := c.info.ObjectOf(n); o != nil {
							c.local[o] = true
						}
					}
				}
			}
		}
		c.exprCalls(x)
	case *ast.IncDecStmt:
		if !c.isLocal(x.X) {
			if t := c.info.TypeOf(x.X); t != nil {
				if b, ok := t.Underlying().(*types.Basic); ok && b.Info()&types.IsInteger != 0 {
					return
				}
			}
			c.flag("increment of a non-integer", x)
		}
	case *ast.AssignStmt:
		for _, r := range x.Rhs {
			c.exprCalls(r)
		}
		for i, l := range x.Lhs {
			var rhs ast.Expr
			if len(x.Lhs) == len(x.Rhs) {
				rhs = x.Rhs[i]
			}
			c.assign(x, l, rhs)
		}
	case *ast.IfStmt:
		c.stmt(x.Init)
		c.exprCalls(x.Cond)
		// min/max update: if V cmp X { X = V }
		if c.isMinMax(x) {
			return
		}
		// diagnostics under a debug/verbose flag
		if isDebugCond(x.Cond) {
			save := c.v
			c.stmt(x.Body)
			if c.v.sensitive && !save.sensitive {
				c.v = save
				c.sawDiag = true
			}
			c.stmt(x.Else)
			return
		}
		c.stmt(x.Body)
		c.stmt(x.Else)
	case *ast.SwitchStmt:
		c.stmt(x.Init)
		c.exprCalls(x.Tag)
		for _, cl := range x.Body.List {
			cc := cl.(*ast.CaseClause)
			for _, e := range cc.List {
				c.exprCalls(e)
			}
			for _, st := range cc.Body {
				c.stmt(st)
			}
		}
	case *ast.TypeSwitchStmt:
		for _, cl := range x.Body.List {
			for _, st := range cl.(*ast.CaseClause).Body {
				c.stmt(st)
			}
		}
	case *ast.ForStmt:
		c.stmt(x.Init)
		c.exprCalls(x.Cond)
		c.stmt(x.Post)
		c.inner(x.Body)
	case *ast.RangeStmt:
		c.exprCalls(x.X)
		// an inner range over a map has its own verdict; over a slice it is sequential
		if t := c.info.TypeOf(x.X); t != nil {
			if _, isMap := t.Underlying().(*types.Map); isMap && !c.isLocalRoot(x.X) {
				// nested map loops are classified on their own; effects still count here
			}
		}
		for _, e := range []ast.Expr{x.Key, x.Value} {
			if id, ok := e.(*ast.Ident); ok && x.Tok == token.DEFINE {
				if o := c.info.ObjectOf(id); o != nil {
					c.local[o] = true
				}
			}
		}
		c.inner(x.Body)
	case *ast.ReturnStmt:
		for _, r := range x.Results {
			c.exprCalls(r)
		}
		c.ret(x)
	case *ast.BranchStmt:
		switch x.Tok {
		case token.BREAK:
			if x.Label != nil && c.innerLabels[x.Label.Name] {
				return // leaves a loop nested inside the map loop
			}
			if x.Label != nil || !c.inInner {
				// leaving the map loop early: which element stops it depends on the order
				c.flag("break out of the map loop (first match wins)", x)
			}
		case token.GOTO:
			c.flag("goto", x)
		}
	case *ast.SendStmt:
		c.flag("channel send (arrival order follows map order)", x)
	case *ast.GoStmt:
		c.flag("goroutine launch per element", x)
	case *ast.DeferStmt:
		c.flag("defer per element", x)
	case *ast.LabeledStmt:
		c.stmt(x.Stmt)
	case *ast.SelectStmt:
		c.flag("select inside the loop", x)
	case *ast.EmptyStmt:
	default:
		c.flag(fmt.Sprintf("statement %T", s), s)
	}
}

func (c *moCtx) inner(body *ast.BlockStmt) {
	save := c.inInner
	c.inInner = true
	c.stmt(body)
	c.inInner = save
}

func isDebugCond(e ast.Expr) bool {
	s := strings.ToLower(types.ExprString(e))
	return strings.Contains(s, "debug") || strings.Contains(s, "verbose")
}

func (c *moCtx) isMinMax(x *ast.IfStmt) bool {
	be, ok := ast.Unparen(x.Cond).(*ast.BinaryExpr)
	if !ok || x.Else != nil || len(x.Body.List) != 1 {
		return false
	}
	switch be.Op {
	case token.GTR, token.LSS, token.GEQ, token.LEQ:
	default:
		return false
	}
	as, ok := x.Body.List[0].(*ast.AssignStmt)
	if !ok || len(as.Lhs) != 1 || len(as.Rhs) != 1 || as.Tok != token.ASSIGN {
		return false
	}
	l := types.ExprString(as.Lhs[0])
	r := types.ExprString(as.Rhs[0])
	a, b := types.ExprString(be.X), types.ExprString(be.Y)
	return (l == a && r == b) || (l == b && r == a)
}

func (c *moCtx) ret(x *ast.ReturnStmt) {
	if len(x.Results) == 0 {
		if c.idemp > 0 || true {
			// a bare return inside the loop: the function's remaining effects depend on which element came first
			c.flag("return from inside the map loop (first match wins)", x)
		}
		return
	}
	last := x.Results[len(x.Results)-1]
	if t := c.info.TypeOf(last); t != nil && types.Identical(t, types.Universe.Lookup("error").Type()) {
		if id, ok := ast.Unparen(last).(*ast.Ident); !(ok && id.Name == "nil") {
			return // failing path: no artefact is produced
		}
	}
	// returning a constant (found/true) is order independent if nothing else was produced
	all := true
	for _, r := range x.Results {
		if !isConstExpr(c.info, r) {
			all = false
		}
	}
	if all {
		return
	}
	c.flag("return of an iteration-dependent value from inside the map loop (first match wins)", x)
}

func (c *moCtx) assign(as *ast.AssignStmt, l ast.Expr, rhs ast.Expr) {
	if id, ok := l.(*ast.Ident); ok && as.Tok == token.DEFINE {
		if o := c.info.ObjectOf(id); o != nil {
			c.local[o] = true
		}
		return
	}
	if c.isLocal(l) {
		return
	}
	// a store through the range value (or something reached from it / from a loop-local): each
	// iteration owns a different element, so these stores commute
	if _, isID := ast.Unparen(l).(*ast.Ident); !isID && c.isLocalRoot(l) {
		return
	}
	if rhs != nil {
		if call, ok := ast.Unparen(rhs).(*ast.CallExpr); ok {
			if cal := core.CalleeOf(c.info, call); cal != nil && cal.Pkg() != nil && strings.HasSuffix(cal.Pkg().Path(), "pkg/bmmeta") && strings.HasSuffix(cal.Name(), "Meta") {
				if f := core.FieldOf(c.info, l); f != nil && f.Name() == "BasmMeta" {
					return // pointer refresh of the metadata map; the effect is the call's
				}
			}
		}
	}
	t := c.info.TypeOf(l)
	// map element
	if ie, ok := ast.Unparen(l).(*ast.IndexExpr); ok {
		if mt := c.info.TypeOf(ie.X); mt != nil {
			if _, isMap := mt.Underlying().(*types.Map); isMap {
				if c.mentionsIter(ie.Index) {
					return // distinct keys per element (assumed injective in the range key)
				}
				if rhs != nil && isConstExpr(c.info, rhs) {
					return // idempotent
				}
				c.flag("last-writer-wins store to "+types.ExprString(l), as)
				return
			}
			// slice/array element
			if c.mentionsIter(ie.Index) && c.keyIsIndexLike(ie.Index) {
				return
			}
			if rhs != nil && isConstExpr(c.info, rhs) {
				return
			}
			c.flag("store to "+types.ExprString(l)+" at a position that does not depend on the element", as)
			return
		}
	}
	// op-assign on numbers
	switch as.Tok {
	case token.ADD_ASSIGN, token.OR_ASSIGN, token.AND_ASSIGN, token.XOR_ASSIGN, token.MUL_ASSIGN, token.SUB_ASSIGN:
		if b, ok := t.Underlying().(*types.Basic); ok {
			if b.Info()&types.IsInteger != 0 {
				return
			}
			if b.Info()&types.IsString != 0 {
				c.flag("string concatenation into "+types.ExprString(l), as)
				return
			}
			if b.Info()&types.IsFloat != 0 {
				c.flag("floating-point accumulation into "+types.ExprString(l)+" (rounding depends on order)", as)
				return
			}
		}
	}
	// x = append(x, ...)
	if rhs != nil {
		if call, ok := ast.Unparen(rhs).(*ast.CallExpr); ok {
			if f, ok := call.Fun.(*ast.Ident); ok && f.Name == "append" {
				if id, ok := ast.Unparen(l).(*ast.Ident); ok {
					o := c.info.ObjectOf(id)
					if c.sortedLater(o) || c.onlyLenUsed(o) {
						return
					}
				}
				c.flag("append to "+types.ExprString(l)+" without a later sort that orders it totally (a sort.Slice whose comparison leaves ties keeps the append order among equal elements)", as)
				return
			}
		}
		if isConstExpr(c.info, rhs) {
			c.idemp++
			return // flag = true
		}
		// x = x || e ; x = x && e
		if be, ok := ast.Unparen(rhs).(*ast.BinaryExpr); ok && (be.Op == token.LOR || be.Op == token.LAND) {
			return
		}
	}
	c.flag("assignment to "+types.ExprString(l)+" (the last element in iteration order wins)", as)
}

func (c *moCtx) keyIsIndexLike(e ast.Expr) bool {
	t := c.info.TypeOf(e)
	if t == nil {
		return false
	}
	b, ok := t.Underlying().(*types.Basic)
	return ok && b.Info()&types.IsInteger != 0
}
