package checks

import (
	"fmt"
	"go/ast"
	"go/token"
	"go/types"
	"sort"
	"strings"

	"bmverif/internal/core"
	"golang.org/x/tools/go/packages"
	"golang.org/x/tools/go/ssa"
)

func init() {
	register("C11", checkC11)
	describe("C11", Meta{
		Technique: "struct-to-JSON-mirror field coverage computed from the SSA store/load sets of Jsoner/Dejsoner (persistent fields are derived from who stores them, not listed), reply-style path counting for name-resolved slots, and effect confinement of the load path (no hidden package-level state)",
		Claim:     "Decides structural clauses of C11: (a) every field of Machine/Bondmachine (through embedding) that some front-end or API stores — i.e. not only written inside the HDL-generation call tree or by simulator code — is read by Jsoner and written by Dejsoner, and every field of the JSON mirror is written by Jsoner and read by Dejsoner; (c) every slot of a name-resolved slice is assigned on every non-failing path of Dejsoner; (d) Jsoner/Dejsoner and their callees write no package-level state other than through the registry constructors (EventuallyCreate*), so a load is a function of the JSON and the registries. (e) the loader relates an index to the list it indexes (INDEXKIND on Jsoner/Dejsoner, with the JSON mirror's lists typed like the live ones); (d) ORDER: Jsoner/Dejsoner and what they call do not sort, compact or reverse any list (positions in the lists are referred to by other lists and by the generated HDL). (ALIAS) a loader that decodes several files in a loop declares the JSON mirror it decodes into inside the loop, because Dejsoner hands the mirror's slices to the machine it returns. Necessary conditions for a lossless round trip; value fidelity, byte-identical re-save and regenerated Verilog equality are not decided.",
		Note:      "Call-graph reachability (CHA) decides which stores are 'derived' (HDL generation / VM code). Aliasing of slices between the saved form and the live machine is reported as information only.",
		DesignRef: "DESIGN.md §2 C11",
	})
}

type c11Pair struct {
	rel, live, mirror string
}

var c11Pairs = []c11Pair{
	{"pkg/procbuilder", "Machine", "Machine_json"},
	{"pkg/bondmachine", "Bondmachine", "Bondmachine_json"},
}

func leafFields(t types.Type, prefix string, out *[]*types.Var, paths map[*types.Var]string) {
	st, ok := t.Underlying().(*types.Struct)
	if !ok {
		return
	}
	for i := 0; i < st.NumFields(); i++ {
		f := st.Field(i)
		if f.Embedded() {
			ft := f.Type()
			if p, ok := ft.(*types.Pointer); ok {
				ft = p.Elem()
			}
			if _, isSt := ft.Underlying().(*types.Struct); isSt {
				leafFields(ft, prefix+f.Name()+".", out, paths)
				continue
			}
		}
		*out = append(*out, f)
		paths[f] = prefix + f.Name()
	}
}

func fieldOfAddr(fa *ssa.FieldAddr) *types.Var {
	pt, ok := fa.X.Type().Underlying().(*types.Pointer)
	if !ok {
		return nil
	}
	st, ok := pt.Elem().Underlying().(*types.Struct)
	if !ok {
		return nil
	}
	return st.Field(fa.Field)
}

func checkC11(r *core.Run) {
	r.Explanation = "Decides structural clauses of C11 on the SSA form: field coverage between the live structs and their hand-maintained JSON mirrors (persistent fields computed from the module's store sites), slot assignment on all paths of the name-resolving loops of Dejsoner, and absence of hidden package-level state on the save/load path. " +
		"Does NOT decide: value fidelity (overflow, string content), byte-identical re-save, regenerated Verilog equality."
	prog := r.Load(core.LoadConfig{SSA: true})
	if prog == nil {
		return
	}
	// who stores / loads which field, module-wide
	storers := map[*types.Var]map[*ssa.Function]bool{}
	loaders := map[*types.Var]map[*ssa.Function]bool{}
	note := func(m map[*types.Var]map[*ssa.Function]bool, f *types.Var, fn *ssa.Function) {
		if f == nil {
			return
		}
		if m[f] == nil {
			m[f] = map[*ssa.Function]bool{}
		}
		m[f][fn] = true
	}
	// store shapes per (field, function), for the cache criterion below
	type shape struct{ fresh, other, elem bool }
	shapes := map[*types.Var]map[*ssa.Function]*shape{}
	shapeOf := func(f *types.Var, fn *ssa.Function) *shape {
		if shapes[f] == nil {
			shapes[f] = map[*ssa.Function]*shape{}
		}
		if shapes[f][fn] == nil {
			shapes[f][fn] = &shape{}
		}
		return shapes[f][fn]
	}
	isFresh := func(v ssa.Value) bool {
		switch x := v.(type) {
		case *ssa.Const:
			return x.Value == nil || x.IsNil() || x.Value.String() == "0" || x.Value.String() == "\"\"" || x.Value.String() == "false"
		case *ssa.MakeMap:
			return true
		case *ssa.MakeSlice:
			if c, ok := x.Len.(*ssa.Const); ok && c.Int64() == 0 {
				return true
			}
		}
		return false
	}
	var allFns []*ssa.Function
	for _, sp := range sortedSSAPkgs(prog) {
		for fn := range allFuncsOf(prog, sp) {
			allFns = append(allFns, fn)
		}
	}
	sort.Slice(allFns, func(i, j int) bool { return allFns[i].String() < allFns[j].String() })
	for _, fn := range allFns {
		for _, b := range fn.Blocks {
			for _, ins := range b.Instrs {
				switch x := ins.(type) {
				case *ssa.Store:
					// direct field store, or a store into an element of the field's slice/map
					a := x.Addr
					for {
						if ia, ok := a.(*ssa.IndexAddr); ok {
							a = ia.X
							if u, ok := a.(*ssa.UnOp); ok && u.Op == token.MUL {
								a = u.X
							}
							continue
						}
						break
					}
					if fa, ok := a.(*ssa.FieldAddr); ok {
						note(storers, fieldOfAddr(fa), fn)
						if f := fieldOfAddr(fa); f != nil {
							sh := shapeOf(f, fn)
							switch {
							case a != x.Addr:
								sh.elem = true
							case isFresh(x.Val):
								sh.fresh = true
							default:
								sh.other = true
							}
						}
					}
				case *ssa.MapUpdate:
					if u, ok := x.Map.(*ssa.UnOp); ok && u.Op == token.MUL {
						if fa, ok := u.X.(*ssa.FieldAddr); ok {
							if f := fieldOfAddr(fa); f != nil {
								shapeOf(f, fn).elem = true
							}
						}
					}
				case *ssa.UnOp:
					if x.Op == token.MUL {
						if fa, ok := x.X.(*ssa.FieldAddr); ok {
							note(loaders, fieldOfAddr(fa), fn)
						}
					}
				case *ssa.Field:
					if st, ok := x.X.Type().Underlying().(*types.Struct); ok {
						note(loaders, st.Field(x.Field), fn)
					}
				}
			}
		}
	}
	// G: functions reachable (CHA) from HDL writers and simulator code
	cg := prog.CHA()
	derivedFns := map[*ssa.Function]bool{}
	var stack []*ssa.Function
	for _, fn := range allFns {
		isVM := false
		if recv := fn.Signature.Recv(); recv != nil {
			t := recv.Type()
			if p, ok := t.(*types.Pointer); ok {
				t = p.Elem()
			}
			if n, ok := t.(*types.Named); ok && n.Obj().Name() == "VM" {
				isVM = true
			}
		}
		if strings.HasPrefix(fn.Name(), "Write_verilog") || strings.HasPrefix(fn.Name(), "WriteHDL") || isVM {
			stack = append(stack, fn)
		}
	}
	for len(stack) > 0 {
		fn := stack[len(stack)-1]
		stack = stack[:len(stack)-1]
		if derivedFns[fn] || !core.InModule(fn) {
			continue
		}
		derivedFns[fn] = true
		if n := cg.Nodes[fn]; n != nil {
			for _, e := range n.Out {
				stack = append(stack, e.Callee.Func)
			}
		}
	}
	r.Count("hdl_or_vm_functions", len(derivedFns))

	c := newConfiner(prog)
	nLive, nMirror := 0, 0
	for _, p := range c11Pairs {
		pk := prog.Pkg(p.rel)
		if pk == nil {
			r.Fatal("%s not loaded", p.rel)
			return
		}
		liveT, _ := pk.Types.Scope().Lookup(p.live).(*types.TypeName)
		mirT, _ := pk.Types.Scope().Lookup(p.mirror).(*types.TypeName)
		if liveT == nil || mirT == nil {
			r.Undecided("C11/COVERAGE", "C11/COVERAGE:"+p.live+":types", "", "live struct or JSON mirror type not found")
			continue
		}
		var jsoner, dejsoner *ssa.Function
		for _, fn := range methodsNamed(prog, p.rel, "Jsoner") {
			if strings.Contains(core.SSAFuncKey(fn), "."+p.live+".") {
				jsoner = fn
			}
		}
		for _, fn := range methodsNamed(prog, p.rel, "Dejsoner") {
			if strings.Contains(core.SSAFuncKey(fn), "."+p.mirror+".") {
				dejsoner = fn
			}
		}
		if jsoner == nil || dejsoner == nil {
			r.Undecided("C11/COVERAGE", "C11/COVERAGE:"+p.live+":methods", "", "Jsoner/Dejsoner not found")
			continue
		}
		var live []*types.Var
		paths := map[*types.Var]string{}
		leafFields(liveT.Type(), "", &live, paths)
		for _, f := range live {
			nLive++
			inst := fmt.Sprintf("C11/COVERAGE:%s.%s", p.live, paths[f])
			pos := prog.Pos(f.Pos())
			var outside []string
			for fn := range storers[f] {
				if fn == dejsoner || fn == jsoner {
					continue
				}
				if !derivedFns[fn] {
					outside = append(outside, core.SSAFuncKey(fn))
				}
			}
			sort.Strings(outside)
			nonLoader := 0
			for fn := range storers[f] {
				if fn != dejsoner {
					nonLoader++
				}
			}
			// a cache: outside save/load the field is only ever reset (nil, zero, a fresh empty container),
			// and its elements are filled only by functions that first reset it — it is recomputed from the
			// rest of the machine and carries no information of its own
			if len(outside) > 0 {
				cache := true
				for fn, sh := range shapes[f] {
					if fn == dejsoner || fn == jsoner {
						continue
					}
					if sh.other || (sh.elem && !sh.fresh) {
						cache = false
					}
				}
				if cache {
					r.Note("C11/COVERAGE", inst, pos, "cache field: only ever reset or rebuilt from scratch from the rest of the machine; not part of the persistent state")
					continue
				}
			}
			if len(outside) == 0 && nonLoader > 0 {
				r.Note("C11/COVERAGE", inst, pos, "derived field: every store lies in HDL generation or simulator code; not part of the persistent state")
				continue
			}
			if nonLoader == 0 && !storers[f][dejsoner] {
				r.Note("C11/COVERAGE", inst, pos, "field is never stored anywhere in the module (always zero)")
				continue
			}
			reads := loaders[f][jsoner]
			writes := storers[f][dejsoner]
			who := ""
			if len(outside) > 0 {
				who = " (set by " + outside[0] + ")"
			}
			switch {
			case !reads && !writes:
				r.Violation("C11/COVERAGE", inst, pos, fmt.Sprintf("field %s.%s%s is part of the machine's persistent state but %s.Jsoner never reads it and %s.Dejsoner never writes it: it is silently dropped by save/load", p.live, paths[f], who, p.live, p.mirror))
			case !reads:
				r.Violation("C11/COVERAGE", inst, pos, fmt.Sprintf("field %s.%s%s is never read by %s.Jsoner: it is not saved", p.live, paths[f], who, p.live))
			case !writes:
				r.Violation("C11/COVERAGE", inst, pos, fmt.Sprintf("field %s.%s%s is never written by %s.Dejsoner: it is not restored", p.live, paths[f], who, p.mirror))
			default:
				r.OK("C11/COVERAGE", inst, pos, "saved by Jsoner and restored by Dejsoner")
			}
		}
		var mir []*types.Var
		mpaths := map[*types.Var]string{}
		leafFields(mirT.Type(), "", &mir, mpaths)
		for _, f := range mir {
			nMirror++
			inst := fmt.Sprintf("C11/COVERAGE:%s.%s", p.mirror, mpaths[f])
			pos := prog.Pos(f.Pos())
			w, rd := storers[f][jsoner], loaders[f][dejsoner]
			switch {
			case w && rd:
				r.OK("C11/COVERAGE", inst, pos, "written by Jsoner and read by Dejsoner")
			case !w:
				r.Violation("C11/COVERAGE", inst, pos, fmt.Sprintf("mirror field %s.%s is never written by Jsoner: the saved JSON always carries its zero value", p.mirror, mpaths[f]))
			default:
				r.Violation("C11/COVERAGE", inst, pos, fmt.Sprintf("mirror field %s.%s is written by Jsoner but never read by Dejsoner: it is saved and then ignored on load", p.mirror, mpaths[f]))
			}
		}

		// (d) purity of the save/load path
		for _, fn := range []*ssa.Function{jsoner, dejsoner} {
			fkey := core.SSAFuncKey(fn)
			bad := map[string]effect{}
			for _, e := range c.summary(fn, 0) {
				if e.r.kind != rkGlobal {
					continue
				}
				viaCtor := false
				for _, v := range e.via {
					if strings.Contains(v, ".EventuallyCreate") {
						viaCtor = true
					}
				}
				if viaCtor {
					continue
				}
				if _, dup := bad[e.r.name]; !dup {
					bad[e.r.name] = e
				}
			}
			if len(bad) == 0 {
				r.OK("C11/PURE", "C11/PURE:"+fkey, prog.Pos(fn.Pos()), "writes no package-level state outside the registry constructors")
			}
			var names []string
			for n := range bad {
				names = append(names, n)
			}
			sort.Strings(names)
			for _, n := range names {
				e := bad[n]
				r.Violation("C11/PURE", "C11/PURE:"+fkey+":"+n, prog.Pos(e.pos), fmt.Sprintf("%s (or a callee) writes package-level state %s: what a load returns then depends on earlier loads in the same process, not only on the JSON and the opcode/shared-object registries", fkey, n), e.via...)
			}
		}

		// (c) name-resolved slots
		c11Slots(r, prog, p)
		// (d) order
		c11Order(r, prog, p)
	}
	r.Count("live_fields", nLive)
	r.Count("mirror_fields", nMirror)

	// (e) index spaces on the save/load path: a loader that validates or renumbers what it reads must
	// relate an index to the list it indexes (a shared-object id to Shared_objects, not to Shared_links)
	e := newIKEngine(r, prog, "C11")
	e.run([]string{"pkg/bondmachine", "pkg/procbuilder"}, func(pk *packages.Package, fd *ast.FuncDecl) bool {
		return fd.Name.Name == "Jsoner" || fd.Name.Name == "Dejsoner"
	})
	c11Alias(r, prog)
}

// c11Slots: in Dejsoner, a loop `for i, name := range mirror.F { ... result.G[i] = x ... }` whose
// slot store is conditional must assign the slot on every path of the iteration, or fail.
func c11Slots(r *core.Run, prog *core.Program, p c11Pair) {
	pk := prog.Pkg(p.rel)
	info := pk.TypesInfo
	core.FuncDecls(pk, func(_ *ast.File, fd *ast.FuncDecl) {
		if fd.Name.Name != "Dejsoner" || core.RecvTypeName(info, fd) != p.mirror {
			return
		}
		n := 0
		ast.Inspect(fd.Body, func(m ast.Node) bool {
			rs, ok := m.(*ast.RangeStmt)
			if !ok {
				return true
			}
			kid, ok := rs.Key.(*ast.Ident)
			if !ok || kid.Name == "_" {
				return true
			}
			kobj := info.ObjectOf(kid)
			// slot stores in the body indexed by the loop key
			isSlot := func(e ast.Expr) (string, bool) {
				ie, ok := ast.Unparen(e).(*ast.IndexExpr)
				if !ok {
					return "", false
				}
				id, ok := ast.Unparen(ie.Index).(*ast.Ident)
				if !ok || info.ObjectOf(id) != kobj {
					return "", false
				}
				if f := core.FieldOf(info, ie.X); f != nil {
					return f.Name(), true
				}
				return "", false
			}
			fields := map[string]bool{}
			ast.Inspect(rs.Body, func(k ast.Node) bool {
				if as, ok := k.(*ast.AssignStmt); ok {
					for _, l := range as.Lhs {
						if nm, ok := isSlot(l); ok {
							fields[nm] = true
						}
					}
				}
				return true
			})
			var fl []string
			for f := range fields {
				fl = append(fl, f)
			}
			sort.Strings(fl)
			for _, fname := range fl {
				n++
				pi := &pinterp{info: info, noReturn: noReturnCall(info)}
				pi.events = func(nd ast.Node) []pevent {
					var evs []pevent
					ast.Inspect(nd, func(k ast.Node) bool {
						switch x := k.(type) {
						case *ast.FuncLit:
							return false
						case *ast.BlockStmt:
							return k == nd
						case *ast.AssignStmt:
							for _, l := range x.Lhs {
								if nm, ok := isSlot(l); ok && nm == fname {
									evs = append(evs, pevent{d: +1, pos: x.Pos()})
								}
							}
						}
						return true
					})
					return evs
				}
				pi.containsEvent = func(ast.Node) bool { return false }
				pi.onError = func(token.Pos, pstate, string) {}
				undec := ""
				pi.undecided = func(pos token.Pos, what string) { undec = what }
				in := pset{}
				in.add(pstate{flags: map[types.Object]bool{}})
				body := rs.Body.List
				// `if v == nil { continue }` on the range value: the source element is nil and the slot
				// keeps its zero value, which is the same thing
				if vid, ok := rs.Value.(*ast.Ident); ok && len(body) > 0 {
					if ifs, ok := body[0].(*ast.IfStmt); ok && ifs.Else == nil && ifs.Init == nil && len(ifs.Body.List) == 1 {
						if br, ok := ifs.Body.List[0].(*ast.BranchStmt); ok && br.Tok == token.CONTINUE {
							if be, ok := ast.Unparen(ifs.Cond).(*ast.BinaryExpr); ok && be.Op == token.EQL {
								x, xok := ast.Unparen(be.X).(*ast.Ident)
								y, yok := ast.Unparen(be.Y).(*ast.Ident)
								if xok && yok && ((info.ObjectOf(x) == info.ObjectOf(vid) && y.Name == "nil") || (info.ObjectOf(y) == info.ObjectOf(vid) && x.Name == "nil")) {
									body = body[1:]
								}
							}
						}
					}
				}
				out := pi.block(body, in)
				ends := pset{}
				ends.addAll(out.normal)
				for _, ss := range out.cont {
					ends.addAll(ss)
				}
				zero := false
				for _, s := range ends {
					if s.n == 0 {
						zero = true
					}
				}
				inst := fmt.Sprintf("C11/SLOT:%s.Dejsoner:%s", p.mirror, fname)
				pos := prog.Pos(rs.Pos())
				switch {
				case undec != "":
					r.Undecided("C11/SLOT", inst, pos, undec)
				case zero:
					r.Violation("C11/SLOT", inst, pos, fmt.Sprintf("%s.Dejsoner can finish an iteration of its name-resolving loop without assigning %s[i] and without failing: a name that matches nothing in the registry is silently loaded as a nil entry", p.mirror, fname))
				default:
					r.OK("C11/SLOT", inst, pos, "slot assigned on every path of the iteration")
				}
			}
			return true
		})
		r.Count("name_resolved_slot_loops", n)
	})
}

// c11Order (C11/ORDER): every persisted list of a machine is an index space (processors, domains,
// shared objects, links, opcodes: other lists refer to its elements by position, and the position of a
// shared object in a processor's list is its local number in the generated HDL). Saving and loading
// must therefore keep the order it finds: Jsoner / Dejsoner and the functions of their package they
// call may not sort, compact or reverse.
func c11Order(r *core.Run, prog *core.Program, p c11Pair) {
	pk := prog.Pkg(p.rel)
	info := pk.TypesInfo
	decls := map[types.Object]*ast.FuncDecl{}
	core.FuncDecls(pk, func(_ *ast.File, fd *ast.FuncDecl) {
		if o := info.Defs[fd.Name]; o != nil {
			decls[o] = fd
		}
	})
	reorders := func(c types.Object) bool {
		if c == nil || c.Pkg() == nil {
			return false
		}
		switch c.Pkg().Path() {
		case "sort":
			return c.Name() != "Search" && !strings.HasPrefix(c.Name(), "Search") && !strings.HasSuffix(c.Name(), "AreSorted") && !strings.HasPrefix(c.Name(), "Is")
		case "slices":
			return strings.HasPrefix(c.Name(), "Sort") || strings.HasPrefix(c.Name(), "Compact") || c.Name() == "Reverse"
		}
		return false
	}
	core.FuncDecls(pk, func(_ *ast.File, fd *ast.FuncDecl) {
		rn := core.RecvTypeName(info, fd)
		isJ := fd.Name.Name == "Jsoner" && rn == p.live
		isD := fd.Name.Name == "Dejsoner" && rn == p.mirror
		if !isJ && !isD {
			return
		}
		seen := map[*ast.FuncDecl]bool{}
		var bad []string
		var visit func(f *ast.FuncDecl, depth int)
		visit = func(f *ast.FuncDecl, depth int) {
			if seen[f] || depth > 3 {
				return
			}
			seen[f] = true
			ast.Inspect(f.Body, func(n ast.Node) bool {
				call, ok := n.(*ast.CallExpr)
				if !ok {
					return true
				}
				c := core.CalleeOf(info, call)
				if reorders(c) {
					bad = append(bad, fmt.Sprintf("%s.%s at %s", c.Pkg().Name(), c.Name(), r.Rel(prog.Pos(call.Pos()))))
				}
				if d, ok := decls[c]; ok {
					visit(d, depth+1)
				}
				return true
			})
		}
		visit(fd, 0)
		inst := fmt.Sprintf("C11/ORDER:%s.%s", rn, fd.Name.Name)
		if len(bad) == 0 {
			r.OK("C11/ORDER", inst, prog.Pos(fd.Pos()), "saving/loading keeps the order of every list")
		} else {
			r.Violation("C11/ORDER", inst, prog.Pos(fd.Pos()), fmt.Sprintf("%s.%s reorders a list while converting the machine (%s): the lists of a machine are index spaces — positions are referred to by links, by Shared_links and by the generated HDL (the n-th shared object of a processor is its local object n) — so a machine whose list was not already in that order is a different machine after save+load", rn, fd.Name.Name, strings.Join(bad, "; ")))
		}
	})
}
