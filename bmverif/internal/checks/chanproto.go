package checks

import (
	"fmt"
	"go/ast"
	"go/token"
	"go/types"
	"sort"
	"strings"

	"bmverif/internal/core"
	"golang.org/x/tools/go/ssa"
)

// E6 CHANPROTO (SSA part): goroutine launch summaries, join order, exit requests.

// canonChan resolves a channel-typed SSA value to its creation site when the value
// travels through a local variable or a struct field of a locally allocated struct
// (`bgmain := &BondgoCheck{..., usagenotify, ...}; bgmain.Used <- x`).
func canonChan(v ssa.Value, depth int) ssa.Value {
	if depth > 6 {
		return v
	}
	switch x := v.(type) {
	case *ssa.UnOp:
		if x.Op == token.MUL {
			// load: find the unique store to the same (base, field) in this function
			if st := uniqueStoreTo(x.X); st != nil {
				return canonChan(st, depth+1)
			}
		}
	case *ssa.ChangeType:
		return canonChan(x.X, depth+1)
	case *ssa.Phi:
		var c ssa.Value
		for _, e := range x.Edges {
			ce := canonChan(e, depth+1)
			if c == nil {
				c = ce
			} else if c != ce {
				return v
			}
		}
		if c != nil {
			return c
		}
	}
	return v
}

// canonActual resolves an actual argument of a go statement: a closure binding is the cell of the
// captured variable, whose (unique) stored value is the channel itself.
func canonActual(v ssa.Value) ssa.Value {
	if al, ok := v.(*ssa.Alloc); ok {
		if st := uniqueStoreTo(al); st != nil {
			return canonChan(st, 0)
		}
		return v
	}
	return canonChan(v, 0)
}

// addrKey identifies an address expression structurally: Alloc, or FieldAddr(base, i).
func addrKey(a ssa.Value) string { return addrKeyD(a, 0) }

func addrKeyD(a ssa.Value, d int) string {
	if d > 12 {
		return ""
	}
	switch x := a.(type) {
	case *ssa.Alloc:
		return fmt.Sprintf("alloc%p", x)
	case *ssa.FieldAddr:
		b := addrKeyD(x.X, d+1)
		if b == "" {
			return ""
		}
		return fmt.Sprintf("%s.%d", b, x.Field)
	case *ssa.UnOp:
		if x.Op == token.MUL {
			// pointer loaded from a local variable holding the struct pointer
			if st := uniqueStoreToD(x.X, d+1); st != nil {
				return addrKeyD(st, d+1)
			}
		}
	case *ssa.Parameter:
		return fmt.Sprintf("param%p", x)
	case *ssa.FreeVar:
		return fmt.Sprintf("free%p", x)
	}
	return ""
}

func uniqueStoreTo(addr ssa.Value) ssa.Value { return uniqueStoreToD(addr, 0) }

func uniqueStoreToD(addr ssa.Value, d int) ssa.Value {
	if d > 12 {
		return nil
	}
	k := addrKeyD(addr, d+1)
	if k == "" {
		return nil
	}
	var fn *ssa.Function
	if in, ok := addr.(ssa.Instruction); ok {
		fn = in.Parent()
	}
	if fn == nil {
		return nil
	}
	var val ssa.Value
	n := 0
	for _, b := range fn.Blocks {
		for _, ins := range b.Instrs {
			if st, ok := ins.(*ssa.Store); ok && addrKeyD(st.Addr, d+1) == k {
				val = st.Val
				n++
			}
		}
	}
	if n == 1 {
		return val
	}
	return nil
}

func blockInCycle(b *ssa.BasicBlock) bool {
	seen := map[*ssa.BasicBlock]bool{}
	st := append([]*ssa.BasicBlock{}, b.Succs...)
	for len(st) > 0 {
		x := st[len(st)-1]
		st = st[:len(st)-1]
		if x == b {
			return true
		}
		if seen[x] {
			continue
		}
		seen[x] = true
		st = append(st, x.Succs...)
	}
	return false
}

// goSummary describes how a goroutine body uses its channel inputs (parameters and free variables).
type goSummary struct {
	fn        *ssa.Function
	inputs    []ssa.Value // Parameters then FreeVars
	recvLoop  map[int]bool
	sendLoop  map[int]bool
	sendAfter map[int]bool // sends outside any cycle (done signal)
	recvAny   map[int]bool
	hasReturn bool
	ctxDone   bool // receives from a context's Done() channel
}

func inputIndex(s *goSummary, v ssa.Value) int {
	v = canonChanIn(v)
	for i, p := range s.inputs {
		if p == v {
			return i
		}
	}
	return -1
}

// canonChanIn strips loads of captured variables: a closure reads a captured
// variable through *FreeVar.
func canonChanIn(v ssa.Value) ssa.Value {
	for i := 0; i < 4; i++ {
		switch x := v.(type) {
		case *ssa.UnOp:
			if x.Op == token.MUL {
				if fv, ok := x.X.(*ssa.FreeVar); ok {
					return fv
				}
				// field of the receiver: treat (param, field) as not an input
			}
			return v
		case *ssa.ChangeType:
			v = x.X
		default:
			return v
		}
	}
	return v
}

func summarizeGo(fn *ssa.Function) *goSummary {
	s := &goSummary{fn: fn, recvLoop: map[int]bool{}, sendLoop: map[int]bool{}, sendAfter: map[int]bool{}, recvAny: map[int]bool{}}
	for _, p := range fn.Params {
		s.inputs = append(s.inputs, p)
	}
	for _, fv := range fn.FreeVars {
		s.inputs = append(s.inputs, fv)
	}
	for _, b := range fn.Blocks {
		cyc := blockInCycle(b)
		for _, ins := range b.Instrs {
			switch x := ins.(type) {
			case *ssa.UnOp:
				if x.Op == token.ARROW {
					if i := inputIndex(s, x.X); i >= 0 {
						s.recvAny[i] = true
						if cyc {
							s.recvLoop[i] = true
						}
					}
					if isCtxDone(x.X) {
						s.ctxDone = true
					}
				}
			case *ssa.Select:
				for _, st := range x.States {
					if st.Dir == types.RecvOnly {
						if i := inputIndex(s, st.Chan); i >= 0 {
							s.recvAny[i] = true
							if cyc {
								s.recvLoop[i] = true
							}
						}
						if isCtxDone(st.Chan) {
							s.ctxDone = true
						}
					} else {
						if i := inputIndex(s, st.Chan); i >= 0 && cyc {
							s.sendLoop[i] = true
						}
					}
				}
			case *ssa.Send:
				if i := inputIndex(s, x.Chan); i >= 0 {
					if cyc {
						s.sendLoop[i] = true
					} else {
						s.sendAfter[i] = true
					}
				}
			case *ssa.Return:
				s.hasReturn = true
			}
		}
	}
	return s
}

func isCtxDone(v ssa.Value) bool {
	if c, ok := v.(*ssa.Call); ok {
		if c.Call.IsInvoke() && c.Call.Method.Name() == "Done" {
			return strings.HasSuffix(c.Call.Value.Type().String(), "context.Context")
		}
	}
	return false
}

type launch struct {
	g       *ssa.Go
	callees []*ssa.Function
	dynamic bool
	actuals map[*ssa.Function][]ssa.Value // per callee: actual value for each summary input
}

func launchesIn(prog *core.Program, fn *ssa.Function) []launch {
	var out []launch
	for _, b := range fn.Blocks {
		for _, ins := range b.Instrs {
			g, ok := ins.(*ssa.Go)
			if !ok {
				continue
			}
			l := launch{g: g, actuals: map[*ssa.Function][]ssa.Value{}}
			if callee := g.Call.StaticCallee(); callee != nil {
				l.callees = []*ssa.Function{callee}
				var act []ssa.Value
				act = append(act, g.Call.Args...)
				if mc, ok := g.Call.Value.(*ssa.MakeClosure); ok {
					act = append(act, mc.Bindings...)
				}
				l.actuals[callee] = act
			} else {
				l.dynamic = true
				// interface invoke: every implementation in the program (CHA)
				if g.Call.IsInvoke() {
					if node := prog.CHA().Nodes[fn]; node != nil {
						for _, e := range node.Out {
							if e.Site == g {
								l.callees = append(l.callees, e.Callee.Func)
							}
						}
					}
				}
				sort.Slice(l.callees, func(i, j int) bool { return l.callees[i].String() < l.callees[j].String() })
			}
			out = append(out, l)
		}
	}
	return out
}

func instrIndex(i ssa.Instruction) int {
	for k, x := range i.Block().Instrs {
		if x == i {
			return k
		}
	}
	return -1
}

func instrDominates(a, b ssa.Instruction) bool {
	if a.Block() == b.Block() {
		return instrIndex(a) < instrIndex(b)
	}
	return a.Block().Dominates(b.Block())
}

// reachesReturnAvoiding reports whether a Return of fn is reachable from `from`
// without executing any instruction in stop. Panics/os.Exit end a path.
func reachesReturnAvoiding(from ssa.Instruction, stop map[ssa.Instruction]bool) bool {
	type pt struct {
		b *ssa.BasicBlock
		i int
	}
	seen := map[*ssa.BasicBlock]bool{}
	var walk func(b *ssa.BasicBlock, i int) bool
	walk = func(b *ssa.BasicBlock, i int) bool {
		for ; i < len(b.Instrs); i++ {
			ins := b.Instrs[i]
			if stop[ins] {
				return false
			}
			switch x := ins.(type) {
			case *ssa.Return:
				return true
			case *ssa.Panic:
				return false
			case *ssa.Call:
				if c := x.Call.StaticCallee(); c != nil && c.Pkg != nil {
					p, n := c.Pkg.Pkg.Path(), c.Name()
					if (p == "os" && n == "Exit") || (p == "log" && (strings.HasPrefix(n, "Fatal") || strings.HasPrefix(n, "Panic"))) {
						return false
					}
				}
			}
		}
		for _, s := range b.Succs {
			if seen[s] {
				continue
			}
			seen[s] = true
			if walk(s, 0) {
				return true
			}
		}
		return false
	}
	return walk(from.Block(), instrIndex(from)+1)
}

// chanJoinOrder checks J1 (join order) and J4 (exit exists / is requested) for every
// function of the given packages that launches goroutines.
func chanJoinOrder(r *core.Run, prog *core.Program, prop string, rels []string) {
	nLaunchers, nLaunches, nPairs, nNested, nUnblock := 0, 0, 0, 0, 0
	for _, rel := range rels {
		sp := prog.SSAPkg(rel)
		if sp == nil {
			continue
		}
		var fns []*ssa.Function
		for fn := range allFuncsOf(prog, sp) {
			fns = append(fns, fn)
		}
		sort.Slice(fns, func(i, j int) bool { return fns[i].String() < fns[j].String() })
		for _, fn := range fns {
			ls := launchesIn(prog, fn)
			if len(ls) == 0 {
				continue
			}
			nLaunchers++
			fkey := core.SSAFuncKey(fn)
			sums := map[*ssa.Function]*goSummary{}
			type li struct {
				l    launch
				c    *ssa.Function
				s    *goSummary
				name string
			}
			var items []li
			for _, l := range ls {
				nLaunches++
				if len(l.callees) == 0 {
					r.Undecided(prop+"/GOEXIT", fmt.Sprintf("%s/GOEXIT:%s:dynamic", prop, fkey), prog.Pos(l.g.Pos()), "go statement with an unresolvable callee")
					continue
				}
				for _, c := range l.callees {
					if c.Blocks == nil {
						continue
					}
					if sums[c] == nil {
						sums[c] = summarizeGo(c)
					}
					items = append(items, li{l, c, sums[c], core.SSAFuncKey(c)})
				}
			}
			// J4 / W1: exit path exists; done channel is joined
			for _, it := range items {
				inst := fmt.Sprintf("%s/GOEXIT:%s->%s", prop, fkey, it.name)
				pos := prog.Pos(it.l.g.Pos())
				if !it.s.hasReturn {
					r.Violation(prop+"/GOEXIT", inst, pos, fmt.Sprintf("goroutine %s launched by %s has no return: its body cannot terminate, so every launch leaves a goroutine behind", it.name, fkey))
					continue
				}
				r.OK(prop+"/GOEXIT", inst, pos, "goroutine body has a reachable return")
				act := it.l.actuals[it.c]
				for di := range it.s.sendAfter {
					if di >= len(act) {
						continue
					}
					done := canonActual(act[di])
					joins := recvsOn(fn, done)
					jinst := fmt.Sprintf("%s/JOIN:%s->%s", prop, fkey, it.name)
					if mk, ok := done.(*ssa.MakeChan); ok {
						// capacity len(X) with one launch per element of X and one send per goroutine
						if call, ok := stripConv(mk.Size).(*ssa.Call); ok && !it.s.sendLoop[di] && blockInCycle(it.l.g.Block()) {
							if bi, ok := call.Call.Value.(*ssa.Builtin); ok && bi.Name() == "len" && len(call.Call.Args) == 1 {
								r.OK(prop+"/JOIN", jinst, pos, "the goroutine's single send goes to a channel buffered for one message per launched goroutine (capacity len(…) of the list the launches range over): it cannot block on it")
								continue
							}
						}
						if c, ok := mk.Size.(*ssa.Const); ok && c.Int64() >= 1 && !it.s.sendLoop[di] {
							r.OK(prop+"/JOIN", jinst, pos, "the goroutine's single send goes to a buffered channel of the launcher: it cannot block on it")
							continue
						}
					}
					if len(joins) == 0 {
						r.Violation(prop+"/JOIN", jinst, pos, fmt.Sprintf("%s signals completion on a channel that %s never receives from: the goroutine blocks forever on its final send", it.name, fkey))
						continue
					}
					isMain := fn.Name() == "main" && fn.Pkg != nil && fn.Pkg.Pkg.Name() == "main"
					stop := map[ssa.Instruction]bool{}
					for _, j := range joins {
						stop[j] = true
					}
					if !isMain && reachesReturnAvoiding(it.l.g, stop) {
						r.Violation(prop+"/JOIN", jinst, pos, fmt.Sprintf("%s can return without joining %s (no receive on its done channel on some path): the goroutine is left blocked", fkey, it.name))
					} else {
						r.OK(prop+"/JOIN", jinst, pos, "launcher joins the goroutine on every returning path")
					}
				}
			}
			// UNBLOCK: a goroutine that waits on a channel only its launcher can release
			for _, it := range items {
				act := it.l.actuals[it.c]
				isMain := fn.Name() == "main" && fn.Pkg != nil && fn.Pkg.Pkg.Name() == "main"
				for ri := range it.s.recvAny {
					if ri >= len(act) {
						continue
					}
					x := canonActual(act[ri])
					mk, ok := x.(*ssa.MakeChan)
					if !ok || mk.Parent() != fn {
						continue
					}
					// someone else may release it: another launched goroutine sends on it, or it escapes
					other := false
					for _, o := range items {
						acto := o.l.actuals[o.c]
						for si := range unionKeys(o.s.sendLoop, o.s.sendAfter) {
							if si < len(acto) && canonActual(acto[si]) == x {
								other = true
							}
						}
					}
					if other || chanEscapes(fn, x) {
						continue
					}
					nUnblock++
					inst := fmt.Sprintf("%s/UNBLOCK:%s->%s:%s", prop, fkey, it.name, inputName(it.s, ri))
					pos := prog.Pos(it.l.g.Pos())
					stop := map[ssa.Instruction]bool{}
					deferredBefore := false
					for _, b := range fn.Blocks {
						for _, ins := range b.Instrs {
							switch y := ins.(type) {
							case *ssa.Send:
								if canonChan(y.Chan, 0) == x {
									stop[ins] = true
								}
							case *ssa.Select:
								for _, st := range y.States {
									if st.Dir == types.SendOnly && canonChan(st.Chan, 0) == x {
										stop[ins] = true
									}
								}
							case *ssa.Call:
								if bi, ok := y.Call.Value.(*ssa.Builtin); ok && bi.Name() == "close" && len(y.Call.Args) == 1 && canonChan(y.Call.Args[0], 0) == x {
									stop[ins] = true
								}
							case *ssa.Defer:
								if bi, ok := y.Call.Value.(*ssa.Builtin); ok && bi.Name() == "close" && len(y.Call.Args) == 1 && canonChan(y.Call.Args[0], 0) == x {
									stop[ins] = true
									if instrDominates(ins, it.l.g) {
										deferredBefore = true
									}
								}
							}
						}
					}
					// a release inside a loop stands for the whole loop (how many times it runs is the
					// EXITTOKENS rule's business): entering the loop counts as releasing
					for ins := range stop {
						b := ins.Block()
						if !blockInCycle(b) {
							continue
						}
						for _, o := range fn.Blocks {
							if o != b && blockReaches(b, o) && blockReaches(o, b) && len(o.Instrs) > 0 {
								stop[o.Instrs[0]] = true
							}
						}
					}
					switch {
					case deferredBefore:
						r.OK(prop+"/UNBLOCK", inst, pos, "the launcher defers the close of the channel the goroutine waits on")
					case isMain:
						r.OK(prop+"/UNBLOCK", inst, pos, "launched by main: the process ends with it")
					case len(stop) == 0:
						r.Violation(prop+"/UNBLOCK", inst, pos, fmt.Sprintf("%s waits on a channel created by %s that nothing ever sends on or closes: the goroutine outlives the call", it.name, fkey))
					case reachesReturnAvoiding(it.l.g, stop):
						r.Violation(prop+"/UNBLOCK", inst, pos, fmt.Sprintf("%s waits on a channel that only %s can release (send or close), and %s can return on some path without doing so: on that path the goroutine outlives the call, one more for every such call", it.name, fkey, fkey))
					default:
						r.OK(prop+"/UNBLOCK", inst, pos, "every returning path of the launcher releases the channel the goroutine waits on")
					}
				}
			}
			// J1n: a goroutine A' launched by a launched goroutine A, sending on a channel that B serves,
			// must be joined by A before A signals its own completion — otherwise "A joined" no longer
			// implies "everything A was asked to send has been delivered" and B can be told to exit first.
			for _, A := range items {
				actA := A.l.actuals[A.c]
				for _, l2 := range launchesIn(prog, A.c) {
					for _, c2 := range l2.callees {
						if c2.Blocks == nil {
							continue
						}
						s2 := summarizeGo(c2)
						act2 := l2.actuals[c2]
						for si := range unionKeys(s2.sendLoop, s2.sendAfter) {
							if si >= len(act2) {
								continue
							}
							inA := canonActual(act2[si])
							idx := -1
							for k, in := range A.s.inputs {
								if in == inA {
									idx = k
								}
							}
							if idx < 0 || idx >= len(actA) {
								continue
							}
							ch := canonActual(actA[idx])
							for _, B := range items {
								if B.l.g == A.l.g {
									continue
								}
								actB := B.l.actuals[B.c]
								for ri := range B.s.recvLoop {
									if ri >= len(actB) || canonActual(actB[ri]) != ch {
										continue
									}
									nPairs++
									nNested++
									n2 := core.SSAFuncKey(c2)
									inst := fmt.Sprintf("%s/JOINORDER:%s:%s(nested in %s)-before-%s", prop, fkey, n2, A.name, B.name)
									pos := prog.Pos(l2.g.Pos())
									// A's completion signals
									var doneA []ssa.Instruction
									for di := range A.s.sendAfter {
										if di < len(A.s.inputs) {
											doneA = append(doneA, sendsOn(A.c, A.s.inputs[di])...)
										}
									}
									joined := len(doneA) > 0
									for _, d := range doneA {
										okd := false
										for dj := range s2.sendAfter {
											if dj >= len(act2) {
												continue
											}
											for _, j := range recvsOn(A.c, canonActual(act2[dj])) {
												if instrDominates(j, d) {
													okd = true
												}
											}
										}
										if !okd {
											joined = false
										}
									}
									if joined {
										r.OK(prop+"/JOINORDER", inst, pos, fmt.Sprintf("%s joins %s before signalling its own completion", A.name, n2))
									} else {
										r.Violation(prop+"/JOINORDER", inst, pos, fmt.Sprintf("%s, launched by %s, sends on the channel served by %s, but %s signals its completion without having joined %s: %s joins %s and then tells %s to exit while %s may still hold undelivered messages — they are lost (and %s blocks forever on a send nobody receives)", n2, A.name, B.name, A.name, n2, fkey, A.name, B.name, n2, n2))
									}
								}
							}
						}
					}
				}
			}
			// J1: A sends (in its loop or anywhere) on a channel that B serves
			for _, A := range items {
				for _, B := range items {
					if A.l.g == B.l.g {
						continue
					}
					actA, actB := A.l.actuals[A.c], B.l.actuals[B.c]
					for si := range unionKeys(A.s.sendLoop, A.s.sendAfter) {
						for ri := range B.s.recvLoop {
							if si >= len(actA) || ri >= len(actB) {
								continue
							}
							c := canonActual(actA[si])
							if c != canonActual(actB[ri]) {
								continue
							}
							// A's done channel must not be this very channel
							nPairs++
							inst := fmt.Sprintf("%s/JOINORDER:%s:%s-before-%s", prop, fkey, A.name, B.name)
							pos := prog.Pos(A.l.g.Pos())
							var joinA, joinB []ssa.Instruction
							for di := range A.s.sendAfter {
								if di < len(actA) {
									joinA = append(joinA, recvsOn(fn, canonActual(actA[di]))...)
								}
							}
							for di := range B.s.sendAfter {
								if di < len(actB) {
									joinB = append(joinB, recvsOn(fn, canonActual(actB[di]))...)
								}
							}
							if len(joinB) == 0 {
								r.OK(prop+"/JOINORDER", inst, pos, B.name+" is never joined here (see JOIN)")
								continue
							}
							// exit request to B: the last send on c that dominates join(B)
							var exitSend ssa.Instruction
							for _, s := range sendsOn(fn, c) {
								for _, jb := range joinB {
									if instrDominates(s, jb) && (exitSend == nil || instrDominates(exitSend, s)) {
										exitSend = s
									}
								}
							}
							if exitSend == nil {
								r.Undecided(prop+"/JOINORDER", inst, pos, fmt.Sprintf("cannot find the exit request %s sends to %s before joining it", fkey, B.name))
								continue
							}
							ok := false
							for _, ja := range joinA {
								if instrDominates(ja, exitSend) {
									ok = true
								}
							}
							if ok {
								r.OK(prop+"/JOINORDER", inst, pos, fmt.Sprintf("%s is joined before %s is told to exit", A.name, B.name))
							} else {
								r.Violation(prop+"/JOINORDER", inst, prog.Pos(exitSend.Pos()), fmt.Sprintf("%s sends on the channel served by %s, but %s tells %s to exit (send at %s) before it has joined %s: %s can block forever on a send nobody receives, and the launcher then blocks joining it", A.name, B.name, fkey, B.name, r.Rel(prog.Pos(exitSend.Pos())), A.name, A.name))
							}
						}
					}
				}
			}
		}
	}
	r.Count("launcher_functions", nLaunchers)
	r.Count("go_statements", nLaunches)
	r.Count("nested_sender_goroutines", nNested)
	r.Count("launcher_released_waits", nUnblock)
	r.Count("client_server_goroutine_pairs", nPairs)
}

func unionKeys(a, b map[int]bool) map[int]bool {
	u := map[int]bool{}
	for k := range a {
		u[k] = true
	}
	for k := range b {
		u[k] = true
	}
	return u
}

func recvsOn(fn *ssa.Function, ch ssa.Value) []ssa.Instruction {
	var out []ssa.Instruction
	for _, b := range fn.Blocks {
		for _, ins := range b.Instrs {
			if u, ok := ins.(*ssa.UnOp); ok && u.Op == token.ARROW && canonChan(u.X, 0) == ch {
				out = append(out, u)
			}
			if sel, ok := ins.(*ssa.Select); ok {
				for _, st := range sel.States {
					if st.Dir == types.RecvOnly && canonChan(st.Chan, 0) == ch {
						out = append(out, sel)
					}
				}
			}
		}
	}
	return out
}

func sendsOn(fn *ssa.Function, ch ssa.Value) []ssa.Instruction {
	var out []ssa.Instruction
	for _, b := range fn.Blocks {
		for _, ins := range b.Instrs {
			if s, ok := ins.(*ssa.Send); ok && canonChan(s.Chan, 0) == ch {
				out = append(out, s)
			}
		}
	}
	return out
}

// allFuncsOf enumerates the source functions of an SSA package including methods and closures.
func allFuncsOf(prog *core.Program, sp *ssa.Package) map[*ssa.Function]bool {
	out := map[*ssa.Function]bool{}
	var add func(fn *ssa.Function)
	add = func(fn *ssa.Function) {
		if fn == nil || out[fn] || fn.Blocks == nil {
			return
		}
		out[fn] = true
		for _, a := range fn.AnonFuncs {
			add(a)
		}
	}
	for _, m := range sp.Members {
		switch x := m.(type) {
		case *ssa.Function:
			add(x)
		case *ssa.Type:
			for _, t := range []types.Type{x.Type(), types.NewPointer(x.Type())} {
				ms := prog.SSA.MethodSets.MethodSet(t)
				for i := 0; i < ms.Len(); i++ {
					fn := prog.SSA.MethodValue(ms.At(i))
					if fn != nil && fn.Synthetic == "" && fn.Pkg == sp {
						add(fn)
					}
				}
			}
		}
	}
	return out
}

// ---- W3: constructor / release pairing ---------------------------------------------------------

type ownerCtor struct {
	fn      *ssa.Function // constructor
	owner   types.Type    // type of the returned owner (pointer to named struct)
	body    *ssa.Function // goroutine body
	release []*ssa.Function
}

// findOwnerCtors finds functions that launch a method of a value as a goroutine and return that value.
func findOwnerCtors(prog *core.Program) []ownerCtor {
	var out []ownerCtor
	for _, sp := range sortedSSAPkgs(prog) {
		for fn := range allFuncsOf(prog, sp) {
			for _, b := range fn.Blocks {
				for _, ins := range b.Instrs {
					g, ok := ins.(*ssa.Go)
					if !ok {
						continue
					}
					callee := g.Call.StaticCallee()
					if callee == nil || callee.Signature.Recv() == nil || len(g.Call.Args) == 0 {
						continue
					}
					recv := g.Call.Args[0]
					returned := false
					for _, b2 := range fn.Blocks {
						for _, i2 := range b2.Instrs {
							if ret, ok := i2.(*ssa.Return); ok {
								for _, res := range ret.Results {
									if res == recv {
										returned = true
									}
								}
							}
						}
					}
					if returned {
						out = append(out, ownerCtor{fn: fn, owner: recv.Type(), body: callee})
					}
				}
			}
		}
	}
	// starter methods: `func (x *T) start() { go x.run() }` — a constructor that calls one on the value it
	// returns is an owner constructor as well
	starters := map[*ssa.Function]*ssa.Function{} // starter -> goroutine body
	for _, sp := range sortedSSAPkgs(prog) {
		for fn := range allFuncsOf(prog, sp) {
			if fn.Signature.Recv() == nil || len(fn.Params) == 0 {
				continue
			}
			for _, b := range fn.Blocks {
				for _, ins := range b.Instrs {
					if g, ok := ins.(*ssa.Go); ok {
						if callee := g.Call.StaticCallee(); callee != nil && callee.Signature.Recv() != nil && len(g.Call.Args) > 0 && g.Call.Args[0] == fn.Params[0] {
							starters[fn] = callee
						}
					}
				}
			}
		}
	}
	if len(starters) > 0 {
		for _, sp := range sortedSSAPkgs(prog) {
			for fn := range allFuncsOf(prog, sp) {
				for _, b := range fn.Blocks {
					for _, ins := range b.Instrs {
						call, ok := ins.(*ssa.Call)
						if !ok {
							continue
						}
						body, isStarter := starters[call.Call.StaticCallee()]
						if !isStarter || len(call.Call.Args) == 0 {
							continue
						}
						recv := call.Call.Args[0]
						for _, b2 := range fn.Blocks {
							for _, i2 := range b2.Instrs {
								if ret, ok := i2.(*ssa.Return); ok {
									for _, res := range ret.Results {
										if res == recv {
											out = append(out, ownerCtor{fn: fn, owner: recv.Type(), body: body})
										}
									}
								}
							}
						}
					}
				}
			}
		}
	}
	sort.Slice(out, func(i, j int) bool { return out[i].fn.String() < out[j].fn.String() })
	return out
}

func sortedSSAPkgs(prog *core.Program) []*ssa.Package {
	var ks []string
	for k := range prog.SSAPkgs {
		if strings.HasPrefix(k, core.ModPath) {
			ks = append(ks, k)
		}
	}
	sort.Strings(ks)
	var out []*ssa.Package
	for _, k := range ks {
		out = append(out, prog.SSAPkgs[k])
	}
	return out
}

// releaseMethods: methods of the owner type that call a context.CancelFunc stored in the
// receiver, or close a channel stored in the receiver.
func releaseMethods(prog *core.Program, owner types.Type) []*ssa.Function {
	var out []*ssa.Function
	ms := prog.SSA.MethodSets.MethodSet(owner)
	for i := 0; i < ms.Len(); i++ {
		fn := prog.SSA.MethodValue(ms.At(i))
		if fn == nil || fn.Blocks == nil || len(fn.Params) == 0 {
			continue
		}
		recv := fn.Params[0]
		rel := false
		for _, b := range fn.Blocks {
			for _, ins := range b.Instrs {
				c, ok := ins.(ssa.CallInstruction)
				if !ok {
					continue
				}
				cc := c.Common()
				if cc.IsInvoke() {
					continue
				}
				fromRecvField := func(v ssa.Value) bool {
					if u, ok := v.(*ssa.UnOp); ok && u.Op == token.MUL {
						if fa, ok := u.X.(*ssa.FieldAddr); ok && fa.X == recv {
							return true
						}
					}
					return false
				}
				if strings.HasSuffix(cc.Value.Type().String(), "context.CancelFunc") && fromRecvField(cc.Value) {
					rel = true
				}
				if bi, ok := cc.Value.(*ssa.Builtin); ok && bi.Name() == "close" && len(cc.Args) == 1 && fromRecvField(cc.Args[0]) {
					rel = true
				}
			}
		}
		if rel {
			out = append(out, fn)
		}
	}
	return out
}

func releasePairing(r *core.Run, prog *core.Program, prop string) {
	ctors := findOwnerCtors(prog)
	r.Count("owner_constructors", len(ctors))
	nSites := 0
	for _, c := range ctors {
		ckey := core.SSAFuncKey(c.fn)
		c.release = releaseMethods(prog, c.owner)
		if len(c.release) == 0 {
			r.Violation(prop+"/RELEASE", fmt.Sprintf("%s/RELEASE:%s:no-release-method", prop, ckey), prog.Pos(c.fn.Pos()), fmt.Sprintf("%s starts goroutine %s and returns its owner, but the owner type has no method that stops it", ckey, core.SSAFuncKey(c.body)))
			continue
		}
		relSet := map[*ssa.Function]bool{}
		for _, f := range c.release {
			relSet[f] = true
		}
		// call sites, following wrappers that return the owner (depth 3)
		type site struct {
			call ssa.CallInstruction
			via  string
		}
		var work []*ssa.Function = []*ssa.Function{c.fn}
		seen := map[*ssa.Function]bool{c.fn: true}
		for depth := 0; depth < 3 && len(work) > 0; depth++ {
			var next []*ssa.Function
			for _, target := range work {
				for _, sp := range sortedSSAPkgs(prog) {
					var fns []*ssa.Function
					for fn := range allFuncsOf(prog, sp) {
						fns = append(fns, fn)
					}
					sort.Slice(fns, func(i, j int) bool { return fns[i].String() < fns[j].String() })
					for _, fn := range fns {
						for _, b := range fn.Blocks {
							for _, ins := range b.Instrs {
								call, ok := ins.(*ssa.Call)
								if !ok || call.Call.StaticCallee() != target {
									continue
								}
								nSites++
								verdict, detail, wraps := ownerDisposition(prog, fn, call, relSet)
								inst := fmt.Sprintf("%s/RELEASE:%s<-%s", prop, core.SSAFuncKey(fn), core.SSAFuncKey(target))
								pos := prog.Pos(call.Pos())
								switch verdict {
								case "ok":
									r.OK(prop+"/RELEASE", inst, pos, detail)
								case "violation":
									r.Violation(prop+"/RELEASE", inst, pos, detail)
								default:
									r.Undecided(prop+"/RELEASE", inst, pos, detail)
								}
								if wraps && !seen[fn] {
									seen[fn] = true
									next = append(next, fn)
								}
							}
						}
					}
				}
			}
			work = next
		}
	}
	r.Count("owner_construction_sites", nSites)
}

// ownerDisposition decides what happens to the owner returned by `call` inside fn.
func ownerDisposition(prog *core.Program, fn *ssa.Function, call *ssa.Call, rel map[*ssa.Function]bool) (verdict, detail string, wraps bool) {
	var owner ssa.Value = call
	owners := map[ssa.Value]bool{owner: true}
	if _, isTuple := call.Type().(*types.Tuple); isTuple {
		delete(owners, owner)
		for _, ref := range *call.Referrers() {
			if ex, ok := ref.(*ssa.Extract); ok && ex.Index == 0 {
				owners[ex] = true
			}
		}
	}
	// values equal to the owner through local variables (store/load through an Alloc) and phis
	changed := true
	for changed {
		changed = false
		for _, b := range fn.Blocks {
			for _, ins := range b.Instrs {
				switch x := ins.(type) {
				case *ssa.UnOp:
					if x.Op == token.MUL && !owners[x] {
						if a, ok := x.X.(*ssa.Alloc); ok {
							for _, ref := range *a.Referrers() {
								if st, ok := ref.(*ssa.Store); ok && st.Addr == a && owners[st.Val] {
									owners[x] = true
									changed = true
								}
							}
						}
					}
				case *ssa.Phi:
					if !owners[x] {
						for _, e := range x.Edges {
							if owners[e] {
								owners[x] = true
								changed = true
							}
						}
					}
				}
			}
		}
	}
	stops := map[ssa.Instruction]bool{}
	var holder *types.Var
	var holderType types.Type
	returnsOwner := false
	for _, b := range fn.Blocks {
		for _, ins := range b.Instrs {
			switch x := ins.(type) {
			case ssa.CallInstruction:
				cc := x.Common()
				if callee := cc.StaticCallee(); callee != nil && rel[callee] && len(cc.Args) > 0 && owners[cc.Args[0]] {
					if _, isDefer := x.(*ssa.Defer); isDefer {
						return "ok", "release deferred in the constructing function", false
					}
					stops[x] = true
				}
			case *ssa.Store:
				if owners[x.Val] {
					if fa, ok := x.Addr.(*ssa.FieldAddr); ok {
						st := fa.X.Type().Underlying().(*types.Pointer).Elem().Underlying().(*types.Struct)
						holder = st.Field(fa.Field)
						holderType = fa.X.Type()
					}
				}
			case *ssa.Return:
				for _, res := range x.Results {
					if owners[res] {
						returnsOwner = true
						stops[x] = true
					}
				}
			}
		}
	}
	if fn.Name() == "main" && fn.Pkg != nil && fn.Pkg.Pkg.Name() == "main" && fn.Signature.Recv() == nil {
		return "ok", "owner constructed once in main.main: it lives as long as the process (no growth with the number of simulations)", false
	}
	if holder != nil {
		// the holder type must have a method that calls the release on that field
		ms := prog.SSA.MethodSets.MethodSet(holderType)
		for i := 0; i < ms.Len(); i++ {
			m := prog.SSA.MethodValue(ms.At(i))
			if m == nil || m.Blocks == nil {
				continue
			}
			for _, b := range m.Blocks {
				for _, ins := range b.Instrs {
					if c, ok := ins.(ssa.CallInstruction); ok {
						cc := c.Common()
						if callee := cc.StaticCallee(); callee != nil && rel[callee] && len(cc.Args) > 0 {
							if u, ok := cc.Args[0].(*ssa.UnOp); ok {
								if fa, ok := u.X.(*ssa.FieldAddr); ok {
									st := fa.X.Type().Underlying().(*types.Pointer).Elem().Underlying().(*types.Struct)
									if st.Field(fa.Field) == holder {
										if node := prog.CHA().Nodes[m]; node != nil && len(node.In) > 0 {
											return "ok", fmt.Sprintf("owner stored in field %s; %s releases it and is called from %s", holder.Name(), core.SSAFuncKey(m), core.SSAFuncKey(node.In[0].Caller.Func)), false
										}
										return "violation", fmt.Sprintf("the owner is stored in field %s of %s; %s would release it but nothing in the module ever calls it: the owner's goroutine is left running", holder.Name(), types.TypeString(holderType, nil), m.Name()), false
									}
								}
							}
						}
					}
				}
			}
		}
		return "violation", fmt.Sprintf("the owner is stored in field %s of %s, and no method of that type ever calls the owner's release method: every %s leaves the owner's goroutine running", holder.Name(), types.TypeString(holderType, nil), core.SSAFuncKey(fn)), false
	}
	if reachesReturnAvoiding(call, stops) {
		if returnsOwner {
			return "violation", fmt.Sprintf("%s returns without the owner and without releasing it on some path (e.g. an error return): the owner's goroutine is left running", core.SSAFuncKey(fn)), true
		}
		return "violation", fmt.Sprintf("%s can return without releasing the owner it constructed: the owner's goroutine is left running", core.SSAFuncKey(fn)), false
	}
	if returnsOwner {
		return "ok", "owner is returned to the caller on every returning path (callers are checked in turn)", true
	}
	return "ok", "owner released on every returning path", false
}

// ---- exit tokens ---------------------------------------------------------------------------------

// exitTokens: in a function that launches goroutine literals which leave on a receive from a
// local channel q, the number of tokens the function sends on q (or a close) must equal the
// number of launched receivers, compared as multisets of (enclosing loop bound | condition).
func exitTokens(r *core.Run, prog *core.Program, prop string, rels []string) {
	n := 0
	for _, rel := range rels {
		pk := prog.Pkg(rel)
		if pk == nil {
			continue
		}
		info := pk.TypesInfo
		core.FuncDecls(pk, func(_ *ast.File, fd *ast.FuncDecl) {
			// multiplicity context of a node: enclosing for-loop bounds and if-conditions inside fd (outside literals)
			type site struct {
				mult string
				pos  token.Pos
			}
			recvs := map[types.Object][]site{}
			sends := map[types.Object][]site{}
			closed := map[types.Object]bool{}
			var walk func(n ast.Node, ctx []string, inLit bool)
			ctxOf := func(ctx []string) string {
				if len(ctx) == 0 {
					return "1"
				}
				return strings.Join(ctx, "*")
			}
			walk = func(n ast.Node, ctx []string, inLit bool) {
				switch x := n.(type) {
				case nil:
					return
				case *ast.ForStmt:
					bound := "loop(?)"
					if be, ok := x.Cond.(*ast.BinaryExpr); ok && (be.Op == token.LSS || be.Op == token.LEQ) {
						lo := "?"
						if as, ok := x.Init.(*ast.AssignStmt); ok && len(as.Rhs) == 1 {
							lo = types.ExprString(as.Rhs[0])
						}
						bound = fmt.Sprintf("loop(%s%s%s)", lo, be.Op, types.ExprString(be.Y))
					}
					nc := append(append([]string{}, ctx...), bound)
					walk(x.Body, nc, inLit)
					return
				case *ast.RangeStmt:
					nc := append(append([]string{}, ctx...), "range("+types.ExprString(x.X)+")")
					walk(x.Body, nc, inLit)
					return
				case *ast.IfStmt:
					nc := append(append([]string{}, ctx...), "if("+types.ExprString(x.Cond)+")")
					walk(x.Body, nc, inLit)
					if x.Else != nil {
						ne := append(append([]string{}, ctx...), "ifnot("+types.ExprString(x.Cond)+")")
						walk(x.Else, ne, inLit)
					}
					return
				case *ast.GoStmt:
					if lit, ok := x.Call.Fun.(*ast.FuncLit); ok {
						// which local channels does the literal leave on? `case <-q: return` or `<-q; return`
						for _, q := range exitChansOf(info, lit) {
							recvs[q] = append(recvs[q], site{ctxOf(ctx), x.Pos()})
						}
					}
					return
				case *ast.FuncLit:
					return
				case *ast.SendStmt:
					if !inLit {
						if o := chanObj(info, x.Chan); o != nil {
							sends[o] = append(sends[o], site{ctxOf(ctx), x.Pos()})
						}
					}
				case *ast.CallExpr:
					if id, ok := x.Fun.(*ast.Ident); ok && id.Name == "close" && len(x.Args) == 1 {
						if o := chanObj(info, x.Args[0]); o != nil {
							closed[o] = true
						}
					}
				}
				// generic descent
				ast.Inspect(n, func(m ast.Node) bool {
					if m == n {
						return true
					}
					if m != nil {
						walk(m, ctx, inLit)
					}
					return false
				})
			}
			walk(fd.Body, nil, false)
			var qs []types.Object
			for q := range recvs {
				qs = append(qs, q)
			}
			sort.Slice(qs, func(i, j int) bool { return qs[i].Pos() < qs[j].Pos() })
			for _, q := range qs {
				n++
				inst := fmt.Sprintf("%s/EXITTOKENS:%s:%s", prop, core.FuncKey(pk, fd), q.Name())
				pos := prog.Pos(recvs[q][0].pos)
				if closed[q] {
					r.OK(prop+"/EXITTOKENS", inst, pos, "exit channel is closed (broadcast)")
					continue
				}
				var a, b []string
				for _, s := range recvs[q] {
					a = append(a, s.mult)
				}
				for _, s := range sends[q] {
					b = append(b, s.mult)
				}
				sort.Strings(a)
				sort.Strings(b)
				if strings.Join(a, " + ") == strings.Join(b, " + ") {
					r.OK(prop+"/EXITTOKENS", inst, pos, fmt.Sprintf("receivers launched [%s] == exit tokens sent [%s]", strings.Join(a, " + "), strings.Join(b, " + ")))
				} else {
					r.Violation(prop+"/EXITTOKENS", inst, pos, fmt.Sprintf("goroutines that leave on a receive from %s are launched [%s] times but only [%s] exit tokens are sent on it: the surplus goroutines block forever after the function returns", q.Name(), strings.Join(a, " + "), strings.Join(b, " + ")))
				}
			}
		})
	}
	r.Count("exit_token_channels", n)
}

// exitChansOf lists channels (objects declared outside the literal) on whose receive the literal returns.
func exitChansOf(info *types.Info, lit *ast.FuncLit) []types.Object {
	var out []types.Object
	seen := map[types.Object]bool{}
	add := func(e ast.Expr) {
		o := chanObj(info, e)
		if o == nil || seen[o] {
			return
		}
		if o.Pos() >= lit.Pos() && o.Pos() <= lit.End() {
			return // declared inside
		}
		seen[o] = true
		out = append(out, o)
	}
	ast.Inspect(lit.Body, func(n ast.Node) bool {
		cc, ok := n.(*ast.CommClause)
		if !ok || cc.Comm == nil {
			return true
		}
		var rx ast.Expr
		switch c := cc.Comm.(type) {
		case *ast.ExprStmt:
			if u, ok := c.X.(*ast.UnaryExpr); ok && u.Op == token.ARROW {
				rx = u.X
			}
		case *ast.AssignStmt:
			if len(c.Rhs) == 1 {
				if u, ok := c.Rhs[0].(*ast.UnaryExpr); ok && u.Op == token.ARROW {
					rx = u.X
				}
			}
		}
		if rx == nil {
			return true
		}
		// the clause body returns
		for _, st := range cc.Body {
			if _, ok := st.(*ast.ReturnStmt); ok {
				add(rx)
			}
		}
		return true
	})
	return out
}


func inputName(s *goSummary, i int) string {
	if i < len(s.inputs) {
		return s.inputs[i].Name()
	}
	return fmt.Sprintf("in%d", i)
}

// chanEscapes: the channel value (a MakeChan of fn) is handed to something other than a channel
// operation, a go statement or a closure of fn: a plain call, a store into a non-local structure, a return.
func chanEscapes(fn *ssa.Function, mk ssa.Value) bool {
	seen := map[ssa.Value]bool{}
	var esc func(v ssa.Value) bool
	esc = func(v ssa.Value) bool {
		if seen[v] {
			return false
		}
		seen[v] = true
		refs := v.Referrers()
		if refs == nil {
			return false
		}
		for _, ref := range *refs {
			switch y := ref.(type) {
			case *ssa.Send, *ssa.Select, *ssa.Go, *ssa.DebugRef:
			case *ssa.UnOp:
				if y.Op == token.MUL && esc(y) {
					return true
				}
			case *ssa.Store:
				if y.Val == v {
					// stored into a local cell: follow the loads of that cell
					if al, ok := y.Addr.(*ssa.Alloc); ok {
						if esc(al) {
							return true
						}
						continue
					}
					return true
				}
			case *ssa.MakeClosure:
			case *ssa.ChangeType:
				if esc(y) {
					return true
				}
			case *ssa.Call:
				if _, ok := y.Call.Value.(*ssa.Builtin); ok {
					continue
				}
				return true
			case *ssa.Defer:
				if _, ok := y.Call.Value.(*ssa.Builtin); ok {
					continue
				}
				return true
			case *ssa.Return, *ssa.MakeInterface, *ssa.Phi:
				return true
			}
		}
		return false
	}
	return esc(mk)
}


func blockReaches(a, b *ssa.BasicBlock) bool {
	seen := map[*ssa.BasicBlock]bool{}
	st := append([]*ssa.BasicBlock{}, a.Succs...)
	for len(st) > 0 {
		x := st[len(st)-1]
		st = st[:len(st)-1]
		if x == b {
			return true
		}
		if seen[x] {
			continue
		}
		seen[x] = true
		st = append(st, x.Succs...)
	}
	return false
}
