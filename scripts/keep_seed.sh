#!/bin/bash
# keep_seed.sh <seed-worktree-dir> <id> "<verdict line>" "<detected by>" : stores a confirmed seeded change under /verif/seeded/<id>/
SRC=$(readlink -f "$1"); ID=$2; VERDICT=$3; DET=$4
DST=/verif/seeded/$ID
mkdir -p "$DST/demo_files"
cp "$SRC/patch.diff" "$DST/patch.diff"
(cd "$SRC" && git ls-files --others --exclude-standard | grep -v -E '^(patch.diff|meta.json|PROPERTY.txt|FOREIGN|x.diff|.*\.bak$|\.tests_|pkg/bmanalysis/test.ipynb|pkg/bmserialize/serialize.v|pkg/bmstack/stack)') | while read -r f; do mkdir -p "$DST/demo_files/$(dirname "$f")"; cp "$SRC/$f" "$DST/demo_files/$f"; done
python3 - "$SRC/meta.json" "$DST/meta.json" "$VERDICT" "$DET" <<'PY'
import json,sys
m=json.load(open(sys.argv[1]))
out={"property":m.get("property"),"summary":m.get("summary"),"needs_to_manifest":m.get("needs_to_manifest"),
 "demo_cmd":m.get("demo_cmd"),"demo_files":"demo_files/ (paths relative to the repository root)","files_changed":m.get("files_changed"),
 "author":"independent sub-agent given only the property text and a scratch worktree",
 "what_i_ran":"scripts/confirm_seed.sh in a fresh scratch worktree of /repo HEAD: demo passes without the patch; patch applies; module builds; demo fails with the patch; pinned suite 78/78 with the patch. Then scripts/try_patch.sh <patch> <property>.",
 "confirmation":sys.argv[3],"detected_by":sys.argv[4]}
json.dump(out,open(sys.argv[2],'w'),indent=1)
PY
echo "kept $DST"
