package checks

import (
	"bmverif/internal/core"
)

func init() {
	register("C17", checkC17)
	describe("C17", Meta{
		Technique: "goroutine-lifecycle analysis on go/ssa: exit reachability of every launched body, join/stop issued on every returning path of the launcher, constructor/release pairing over the call graph, exit-token counting against launched receivers",
		Claim:     "Decides the structural leak clauses of C17 for every go statement in the simulation, tuning and requirement-engine packages: the goroutine body has a reachable return (W1), the launcher joins/stops it on every returning path (W2), an owner type that starts a goroutine in its constructor has its release method called wherever the owner does not escape (W3), exit tokens match the launched receivers, and a goroutine waiting on a channel only its launcher can release is released on every returning path of the launcher (UNBLOCK). A necessary condition for 'no workers left behind'; retained memory and exits that exist but are never taken for dynamic reasons are not decided.",
		Note:      "Scope is by package (pkg/bondmachine, pkg/procbuilder, pkg/bmreqs, pkg/basm, pkg/simbox, cmd/simfinetune, cmd/bondmachine); network daemons (etherbond, udpbond, brvga, bmapi templates) are long-lived by design and out of scope.",
		DesignRef: "DESIGN.md §2 C17",
	})
}

var c17Scope = []string{"pkg/bondmachine", "pkg/procbuilder", "pkg/bmreqs", "pkg/basm", "pkg/simbox", "cmd/simfinetune", "cmd/bondmachine", "cmd/basm", "cmd/simbox"}

func checkC17(r *core.Run) {
	r.Explanation = "Decides structural clauses of C17 on the SSA form: W1 every goroutine launched from the simulation / tuning / requirement-engine packages has a reachable return; W2 launchers that own a done channel join it on every returning path; W3 every constructor that starts a goroutine and returns its owner (bmreqs.NewReqRoot) has the owner's release method called or the owner escapes to a holder that calls it; exit tokens sent equal exit receivers launched. " +
		"Does NOT decide: retained memory, goroutines blocked for dynamic reasons, the constant c of the property."
	prog := r.Load(core.LoadConfig{SSA: true})
	if prog == nil {
		return
	}
	chanJoinOrder(r, prog, "C17", c17Scope)
	releasePairing(r, prog, "C17")
	exitTokens(r, prog, "C17", c17Scope)
}
