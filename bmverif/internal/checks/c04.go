package checks

import (
	"fmt"
	"go/ast"
	"go/token"
	"go/types"
	"sort"
	"strings"

	"bmverif/internal/core"
	"golang.org/x/tools/go/cfg"
	"golang.org/x/tools/go/ssa"
)

func init() {
	register("C04", checkC04)
	describe("C04", Meta{
		Technique: "must-dominance of handshake guards on go/cfg for every simulator function that touches the valid/received lines, must-pass-through of the deferred-release step in VM.Step, and effect confinement of deferred-instruction closures (go/ssa)",
		Claim:     "Decides the structural 4-phase-handshake clauses of C04 on the simulator side: received is raised only while valid is seen high and lowered only while it is seen low; a producer withdraws valid and advances only after it has seen received; a consumer that raises received either registers a deferred release or lowers it itself; the processor evaluates its deferred releases on every tick (on every normally returning path of VM.Step, whatever the opcode delay state); a deferred release acts on the VM it is executed for, not on a captured one, and is registered under a name computed from the port index it captures (DEFKEY: the registry keeps one pending entry per name); an instruction writes valid/received lines only element by element at the port it names, never with clear/copy/whole-array or all-ports loops (HS6). (FRESH) in bondmachine.VM.Step a per-endpoint table derived from another (through Links or a local map) is never read after its source has been rewritten without the derivation in between, over two consecutive ticks; HS6 also covers VM methods handed to the deferred registry as method values. Necessary conditions for exactly-once delivery; the dynamic protocol (e.g. the documented re-sampling race that duplicates values), fan-out timing and the HDL side are not decided.",
		Note:      "The handshake users are discovered from the code (every function of pkg/procbuilder that indexes InputsValid/InputsRecv/OutputsValid/OutputsRecv), not listed. Index identity is by expression text within one function.",
		DesignRef: "DESIGN.md §2 C04",
	})
}

var hsFields = map[string]bool{"InputsValid": true, "InputsRecv": true, "OutputsValid": true, "OutputsRecv": true}

func checkC04(r *core.Run) {
	r.Explanation = "Decides structural handshake clauses of C04 for the instruction-set simulator: HS2/HS5 received raised only under valid and lowered only under !valid, HS4/HS1 producer drops valid and advances only under received, HS1 consumer advances only under a handshake-line test, HS3 a raised received has a release (deferred instruction or own lowering), TICK VM.Step runs ExecuteDeferredInstructions on every normally returning path, DEFERRED closures registered with AddDeferredInstruction write only through their own *VM parameter. " +
		"Does NOT decide: interleaving-dependent behaviour of correctly guarded state machines (the known duplicate-read race), fan-out, the generated HDL handshake."
	prog := r.Load(core.LoadConfig{SSA: true})
	if prog == nil {
		return
	}
	pk := prog.Pkg("pkg/procbuilder")
	if pk == nil {
		r.Fatal("pkg/procbuilder not loaded")
		return
	}
	info := pk.TypesInfo
	nFuncs, nObl := 0, 0
	type fbody struct {
		name string
		body *ast.BlockStmt
		pos  token.Pos
		decl *ast.FuncDecl
	}
	var bodies []fbody
	core.FuncDecls(pk, func(_ *ast.File, fd *ast.FuncDecl) {
		bodies = append(bodies, fbody{core.FuncKey(pk, fd), fd.Body, fd.Pos(), fd})
		k := 0
		ast.Inspect(fd.Body, func(n ast.Node) bool {
			if fl, ok := n.(*ast.FuncLit); ok {
				k++
				bodies = append(bodies, fbody{fmt.Sprintf("%s$%d", core.FuncKey(pk, fd), k), fl.Body, fl.Pos(), nil})
			}
			return true
		})
	})
	for _, fbd := range bodies {
		fd := struct {
			Body *ast.BlockStmt
			Name struct{ Name string }
		}{Body: fbd.body}
		if fbd.decl != nil {
			fd.Name.Name = fbd.decl.Name.Name
		}
		fdPos := fbd.pos
		func() {
		// handshake line expression: X.<Field>[idx] with Field in hsFields of procbuilder.VM
		hsLine := func(e ast.Expr) (field, idx string, ok bool) {
			ie, isIdx := ast.Unparen(e).(*ast.IndexExpr)
			if !isIdx {
				return "", "", false
			}
			f := core.FieldOf(info, ie.X)
			if f == nil || !hsFields[f.Name()] || f.Pkg() != pk.Types {
				return "", "", false
			}
			return f.Name(), types.ExprString(ie.Index), true
		}
		uses := false
		ast.Inspect(fd.Body, func(n ast.Node) bool {
			if e, ok := n.(ast.Expr); ok {
				if _, _, ok := hsLine(e); ok {
					uses = true
				}
			}
			return !uses
		})
		if !uses || fd.Name.Name == "CopyState" || fd.Name.Name == "Init" || strings.HasPrefix(fd.Name.Name, "Dump") || fd.Name.Name == "String" {
			return
		}
		// only functions that WRITE a handshake line or advance the Pc take part
		type wr struct {
			field, idx string
			val        string // "true" / "false" / "?"
			stmt       ast.Stmt
		}
		var writes []wr
		var pcAdv []ast.Stmt
		var deferCalls []ast.Node
		ast.Inspect(fd.Body, func(n ast.Node) bool {
			switch x := n.(type) {
			case *ast.FuncLit:
				return false
			case *ast.AssignStmt:
				for i, l := range x.Lhs {
					if f, idx, ok := hsLine(l); ok && len(x.Lhs) == len(x.Rhs) {
						v := "?"
						if id, ok := ast.Unparen(x.Rhs[i]).(*ast.Ident); ok && (id.Name == "true" || id.Name == "false") {
							v = id.Name
						}
						writes = append(writes, wr{f, idx, v, x})
					}
					if fld := core.FieldOf(info, l); fld != nil && fld.Name() == "Pc" && fld.Pkg() == pk.Types {
						pcAdv = append(pcAdv, x)
					}
				}
			case *ast.CallExpr:
				if c := core.CalleeOf(info, x); c != nil && c.Name() == "AddDeferredInstruction" {
					deferCalls = append(deferCalls, x)
				}
			}
			return true
		})
		if len(writes) == 0 {
			return
		}
		nFuncs++
		fkey := fbd.name
		g := buildCFG(info, fd.Body)
		entry := g.Blocks[0]
		region := regionFrom(entry, func(*cfg.Block) bool { return false })
		// locals bound once to a handshake line
		localLine := map[types.Object][2]string{}
		ast.Inspect(fd.Body, func(n ast.Node) bool {
			if as, ok := n.(*ast.AssignStmt); ok && as.Tok == token.DEFINE && len(as.Lhs) == len(as.Rhs) {
				for i, l := range as.Lhs {
					if id, ok := l.(*ast.Ident); ok {
						if f, idx, ok := hsLine(as.Rhs[i]); ok {
							localLine[info.ObjectOf(id)] = [2]string{f, idx}
						}
					}
				}
			}
			return true
		})
		lineOf := func(c ast.Expr) (string, string, bool) {
			c = ast.Unparen(c)
			if f, idx, ok := hsLine(c); ok {
				return f, idx, true
			}
			if id, ok := c.(*ast.Ident); ok {
				if l, ok := localLine[info.ObjectOf(id)]; ok {
					return l[0], l[1], true
				}
			}
			return "", "", false
		}
		// guard facts: (field, idx, level)
		guardedBy := func(field, idx string, high bool) map[*cfg.Block]bool {
			pol := func(c ast.Expr) int {
				f, i, ok := lineOf(c)
				if !ok || f != field || (idx != "*" && i != idx) {
					// comparison with a bool literal
					if be, isBin := ast.Unparen(c).(*ast.BinaryExpr); isBin && (be.Op == token.EQL || be.Op == token.NEQ) {
						if f2, i2, ok2 := lineOf(be.X); ok2 && f2 == field && (idx == "*" || i2 == idx) {
							if id, ok := ast.Unparen(be.Y).(*ast.Ident); ok && (id.Name == "true" || id.Name == "false") {
								isTrue := (id.Name == "true") == (be.Op == token.EQL)
								if isTrue == high {
									return +1
								}
								return -1
							}
						}
					}
					return 0
				}
				if high {
					return +1
				}
				return -1
			}
			return guardedBlocks(g, entry, region, pol)
		}
		blockOfNode := func(n ast.Node) *cfg.Block {
			for _, b := range g.Blocks {
				if !b.Live {
					continue
				}
				for _, bn := range b.Nodes {
					if bn.Pos() <= n.Pos() && n.End() <= bn.End() {
						return b
					}
				}
			}
			return nil
		}
		check := func(rule, what string, stmt ast.Node, field, idx string, high bool, okd, bad string) {
			nObl++
			inst := fmt.Sprintf("C04/%s:%s:%s", rule, fkey, what)
			b := blockOfNode(stmt)
			pos := prog.Pos(stmt.Pos())
			if b == nil {
				r.Undecided("C04/"+rule, inst, pos, "statement not found in the control-flow graph")
				return
			}
			if guardedBy(field, idx, high)[b] {
				r.OK("C04/"+rule, inst, pos, okd)
			} else {
				r.Violation("C04/"+rule, inst, pos, bad)
			}
		}
		raisesRecv := false
		writesOutValid := false
		for _, w := range writes {
			switch {
			case w.field == "InputsRecv" && w.val == "true":
				raisesRecv = true
				check("HS2", "InputsRecv["+w.idx+"]=true", w.stmt, "InputsValid", w.idx, true,
					"received raised only on paths where valid of the same input was seen high",
					fmt.Sprintf("%s raises InputsRecv[%s] on a path where InputsValid[%s] has not been seen high: the producer is told its value was taken although none was offered (the next value is lost)", fkey, w.idx, w.idx))
			case w.field == "InputsRecv" && w.val == "false":
				check("HS5", "InputsRecv["+w.idx+"]=false", w.stmt, "InputsValid", w.idx, false,
					"received lowered only on paths where valid was seen low",
					fmt.Sprintf("%s lowers InputsRecv[%s] on a path where InputsValid[%s] has not been seen low: the 4-phase handshake is cut short, the same value can be taken twice or the producer can miss the acknowledge", fkey, w.idx, w.idx))
			case w.field == "OutputsValid" && w.val == "false":
				writesOutValid = true
				check("HS4", "OutputsValid["+w.idx+"]=false", w.stmt, "OutputsRecv", w.idx, true,
					"valid withdrawn only after received was seen high",
					fmt.Sprintf("%s withdraws OutputsValid[%s] on a path where OutputsRecv[%s] has not been seen high: the value can be dropped before every consumer has taken it", fkey, w.idx, w.idx))
			case w.field == "OutputsValid":
				writesOutValid = true
			}
		}
		for k, p := range pcAdv {
			if writesOutValid {
				check("HS1", fmt.Sprintf("pc-advance%d", k+1), p, "OutputsRecv", "*", true,
					"producer advances only after received was seen high",
					fmt.Sprintf("%s advances the program counter on a path where OutputsRecv has not been seen high: the producer proceeds past its output instruction before the transfer happened", fkey))
			} else if raisesRecv {
				// consumer: some handshake-line test must guard the advance
				b := blockOfNode(p)
				nObl++
				inst := fmt.Sprintf("C04/HS1:%s:pc-advance%d", fkey, k+1)
				okg := false
				if b != nil {
					for _, high := range []bool{true, false} {
						if guardedBy("InputsValid", "*", high)[b] {
							okg = true
						}
					}
				}
				if okg {
					r.OK("C04/HS1", inst, prog.Pos(p.Pos()), "consumer advances only on paths that tested a valid line")
				} else {
					r.Violation("C04/HS1", inst, prog.Pos(p.Pos()), fmt.Sprintf("%s advances the program counter on a path that never tested InputsValid: the consumer proceeds past its input instruction without a transfer", fkey))
				}
			}
		}
		if raisesRecv {
			nObl++
			inst := "C04/HS3:" + fkey
			lowers := false
			for _, w := range writes {
				if w.field == "InputsRecv" && w.val == "false" {
					lowers = true
				}
			}
			guardedDefer := false
			for _, dc := range deferCalls {
				if b := blockOfNode(dc); b != nil && guardedBy("InputsValid", "*", true)[b] {
					guardedDefer = true
				}
			}
			pcInRaise := len(pcAdv) > 0
			switch {
			case guardedDefer:
				r.OK("C04/HS3", inst, prog.Pos(fdPos), "a deferred release is registered on the path that raises received")
			case lowers && !pcInRaise:
				r.OK("C04/HS3", inst, prog.Pos(fdPos), "the function lowers received itself under !valid before it can advance")
			case lowers:
				r.OK("C04/HS3", inst, prog.Pos(fdPos), "the function lowers received itself under !valid (multi-state opcode)")
			default:
				r.Violation("C04/HS3", inst, prog.Pos(fdPos), fmt.Sprintf("%s raises InputsRecv and advances, but neither registers a deferred release (AddDeferredInstruction under the valid guard) nor lowers it itself: received stays high for ever and the producer's next value is acknowledged without being read", fkey))
			}
		}
		}()
	}
	r.Count("handshake_functions", nFuncs)
	r.Count("handshake_obligations", nObl)

	// ---- TICK: VM.Step runs the deferred releases on every normally returning path
	// wrappers: a method of VM whose first statement calls ExecuteDeferredInstructions (directly, or in
	// the init of an if) runs the deferred releases whenever it is called
	runsDeferred := map[types.Object]bool{}
	core.FuncDecls(pk, func(_ *ast.File, fd *ast.FuncDecl) {
		if core.RecvTypeName(info, fd) != "VM" || len(fd.Body.List) == 0 || fd.Name.Name == "ExecuteDeferredInstructions" {
			return
		}
		var first ast.Node = fd.Body.List[0]
		if ifs, ok := first.(*ast.IfStmt); ok && ifs.Init != nil {
			first = ifs.Init
		}
		hit := false
		ast.Inspect(first, func(m ast.Node) bool {
			if _, isBlock := m.(*ast.BlockStmt); isBlock {
				return false
			}
			if c, ok := m.(*ast.CallExpr); ok {
				if o := core.CalleeOf(info, c); o != nil && o.Name() == "ExecuteDeferredInstructions" {
					hit = true
				}
			}
			return true
		})
		if hit {
			if o := info.Defs[fd.Name]; o != nil {
				runsDeferred[o] = true
			}
		}
	})
	core.FuncDecls(pk, func(_ *ast.File, fd *ast.FuncDecl) {
		if fd.Name.Name != "Step" || core.RecvTypeName(info, fd) != "VM" {
			return
		}
		g := buildCFG(info, fd.Body)
		var callBlocks []*cfg.Block
		for _, b := range g.Blocks {
			if !b.Live {
				continue
			}
			for _, n := range b.Nodes {
				found := false
				ast.Inspect(n, func(m ast.Node) bool {
					if c, ok := m.(*ast.CallExpr); ok {
						if o := core.CalleeOf(info, c); o != nil && (o.Name() == "ExecuteDeferredInstructions" || runsDeferred[o]) {
							found = true
						}
					}
					return !found
				})
				if found {
					callBlocks = append(callBlocks, b)
				}
			}
		}
		r.Count("deferred_step_calls", len(callBlocks))
		inst := "C04/TICK:pkg/procbuilder.VM.Step"
		if len(callBlocks) == 0 {
			r.Violation("C04/TICK", inst, prog.Pos(fd.Pos()), "VM.Step never calls ExecuteDeferredInstructions: a consumer's received line is never withdrawn")
			return
		}
		stop := map[*cfg.Block]bool{}
		for _, b := range callBlocks {
			stop[b] = true
		}
		avoid := regionFrom(g.Blocks[0], func(b *cfg.Block) bool { return stop[b] })
		var bad []string
		for b := range avoid {
			for _, n := range b.Nodes {
				ret, ok := n.(*ast.ReturnStmt)
				if !ok || len(ret.Results) == 0 {
					continue
				}
				last := ast.Unparen(ret.Results[len(ret.Results)-1])
				if id, ok := last.(*ast.Ident); ok && id.Name == "nil" {
					bad = append(bad, prog.Pos(ret.Pos()))
				}
			}
		}
		// also: falling off / normal returns later reachable only through avoid-region blocks
		// are covered because regionFrom follows successors.
		sort.Strings(bad)
		if len(bad) == 0 {
			r.OK("C04/TICK", inst, prog.Pos(fd.Pos()), "every normally returning path of VM.Step passes through ExecuteDeferredInstructions")
		} else {
			r.Violation("C04/TICK", inst, bad[0], fmt.Sprintf("VM.Step can return normally (at %s) without having called ExecuteDeferredInstructions on that tick: while the processor is in that state a consumer's received line stays high after the producer dropped valid, and the producer's next value is acknowledged without being read", r.Rel(bad[0])))
		}
	})

	// ---- HS6: an instruction touches only the handshake lines of the port it names
	c04OwnPort(r, prog)

	// ---- DEFERRED: closures handed to AddDeferredInstruction act on their own parameter
	deferredClosureConfinement(r, prog, "C04")
	c04Fresh(r, prog)
}

// deferredClosureConfinement: every function value registered through AddDeferredInstruction
// (or stored into a DeferredInstructions map) writes only through its *VM parameter.
func deferredClosureConfinement(r *core.Run, prog *core.Program, prop string) {
	c := newConfiner(prog)
	n := 0
	for _, sp := range sortedSSAPkgs(prog) {
		var fns []*ssaFn
		for fn := range allFuncsOf(prog, sp) {
			fns = append(fns, fn)
		}
		sort.Slice(fns, func(i, j int) bool { return fns[i].String() < fns[j].String() })
		for _, fn := range fns {
			for _, b := range fn.Blocks {
				for _, ins := range b.Instrs {
					call, ok := ins.(ssaCallInstr)
					if !ok {
						continue
					}
					cc := call.Common()
					callee := cc.StaticCallee()
					if callee == nil || callee.Name() != "AddDeferredInstruction" || !core.InModule(callee) {
						continue
					}
					for _, a := range cc.Args {
						var target *ssaFn
						switch x := stripConv(a).(type) {
						case *ssaMakeClosure:
							target, _ = x.Fn.(*ssaFn)
						case *ssaFn:
							target = x
						case *ssa.Call:
							// a helper that builds the deferred instruction: look at the closure it returns
							if h := x.Call.StaticCallee(); h != nil && h.Blocks != nil {
								for _, hb := range h.Blocks {
									for _, hi := range hb.Instrs {
										if ret, ok := hi.(*ssa.Return); ok {
											for _, res := range ret.Results {
												if mc, ok := stripConv(res).(*ssaMakeClosure); ok {
													target, _ = mc.Fn.(*ssaFn)
												}
											}
										}
									}
								}
							}
						}
						if target == nil {
							if _, isConst := a.(*ssa.Const); !isConst && strings.Contains(a.Type().String(), "DeferredInstruction") {
								n++
								r.Undecided(prop+"/DEFERRED", fmt.Sprintf("%s/DEFERRED:%s:unresolved", prop, core.SSAFuncKey(fn)), prog.Pos(ins.Pos()), "cannot resolve the function value registered as deferred instruction")
							}
							continue
						}
						n++
						if prop == "C04" {
							if mc, ok := stripConv(a).(*ssaMakeClosure); ok {
								deferredKeyRule(r, prog, fn, cc, mc, target)
							}
						}
						inst := fmt.Sprintf("%s/DEFERRED:%s", prop, core.SSAFuncKey(target))
						pos := prog.Pos(target.Pos())
						var bad *effect
						for _, e := range c.summary(target, 0) {
							e := e
							if e.r.kind == rkParam && e.r.idx == 0 && !e.r.viaMach {
								continue
							}
							bad = &e
							break
						}
						if bad == nil {
							r.OK(prop+"/DEFERRED", inst, pos, "deferred instruction writes only through the *VM it is executed for")
						} else {
							r.Violation(prop+"/DEFERRED", inst, prog.Pos(bad.pos), fmt.Sprintf("deferred instruction %s writes memory rooted at %s instead of the *VM it is handed when executed: after VM.CopyState (checkpoints, concurrent what-if simulations) the copy's deferred release acts on the source VM, from another goroutine", core.SSAFuncKey(target), bad.r), bad.via...)
						}
					}
				}
			}
		}
	}
	r.Count("deferred_instruction_closures", n)
}


// deferredKeyRule (C04/DEFKEY): VM.AddDeferredInstruction keeps one pending instruction per name
// (a second registration under a pending name is dropped). A deferred release that captures a port
// index must therefore be registered under a name that is a function of that index; otherwise the
// release for a second port, requested while the first is pending, is lost and that port's recv line
// is never lowered. Decided on the SSA def-use graph: the name argument's backward slice must contain
// a read of every captured integer cell; through a registering helper the obligation is carried to
// each call site of the helper (name parameter vs. index parameter).
func deferredKeyRule(r *core.Run, prog *core.Program, fn *ssaFn, cc *ssa.CallCommon, mc *ssaMakeClosure, target *ssaFn) {
	var nameVal ssa.Value
	for _, a := range cc.Args {
		if b, ok := a.Type().Underlying().(*types.Basic); ok && b.Kind() == types.String {
			nameVal = a
		}
	}
	if nameVal == nil {
		return
	}
	for bi, bnd := range mc.Bindings {
		// captured cell of integer type
		pt, ok := bnd.Type().Underlying().(*types.Pointer)
		if !ok {
			continue
		}
		bt, ok := pt.Elem().Underlying().(*types.Basic)
		if !ok || bt.Info()&types.IsInteger == 0 {
			continue
		}
		fvName := ""
		if bi < len(target.FreeVars) {
			fvName = target.FreeVars[bi].Name()
		}
		inst := fmt.Sprintf("C04/DEFKEY:%s:%s", core.SSAFuncKey(target), fvName)
		pos := prog.Pos(target.Pos())
		ok2, why := keyDependsOnCell(prog, fn, nameVal, bnd, 0)
		if ok2 {
			r.OK("C04/DEFKEY", inst, pos, "the registration name is computed from the captured index "+fvName)
		} else {
			r.Violation("C04/DEFKEY", inst, pos, fmt.Sprintf("deferred instruction %s captures the port index %s but is registered under a name that does not depend on it (%s): AddDeferredInstruction keeps one pending instruction per name, so the release for a second port requested while the first is pending is dropped and that port's recv line stays raised — the producer's next value is acknowledged without being read", core.SSAFuncKey(target), fvName, why))
		}
	}
}

// sliceContains: does the backward slice of v (string building operators only) contain a value
// satisfying pred?
func sliceContains(v ssa.Value, pred func(ssa.Value) bool, seen map[ssa.Value]bool) bool {
	if v == nil || seen[v] {
		return false
	}
	seen[v] = true
	if pred(v) {
		return true
	}
	switch x := v.(type) {
	case *ssa.BinOp:
		return sliceContains(x.X, pred, seen) || sliceContains(x.Y, pred, seen)
	case *ssa.Convert:
		return sliceContains(x.X, pred, seen)
	case *ssa.ChangeType:
		return sliceContains(x.X, pred, seen)
	case *ssa.MakeInterface:
		return sliceContains(x.X, pred, seen)
	case *ssa.Phi:
		for _, e := range x.Edges {
			if !sliceContains(e, pred, seen) {
				return false // every incoming name must depend on the index
			}
		}
		return len(x.Edges) > 0
	case *ssa.Call:
		if c := x.Call.StaticCallee(); c != nil && c.Pkg != nil && (c.Pkg.Pkg.Path() == "strconv" || c.Pkg.Pkg.Path() == "fmt") {
			for _, a := range x.Call.Args {
				if sliceContains(a, pred, seen) {
					return true
				}
			}
		}
	case *ssa.Slice:
		return sliceContains(x.X, pred, seen)
	case *ssa.UnOp:
		if x.Op == token.MUL {
			// load of a local cell: look at what was stored there (single store)
			if al, ok := x.X.(*ssa.Alloc); ok {
				var stored ssa.Value
				cnt := 0
				for _, ref := range *al.Referrers() {
					if st, ok := ref.(*ssa.Store); ok && st.Addr == al {
						stored = st.Val
						cnt++
					}
				}
				if cnt == 1 {
					return sliceContains(stored, pred, seen)
				}
			}
			// variadic slice element (fmt.Sprintf args)
			if ia, ok := x.X.(*ssa.IndexAddr); ok {
				return sliceContains(ia.X, pred, seen)
			}
		}
	case *ssa.Alloc:
		// variadic backing array: any element stored into it
		for _, ref := range *x.Referrers() {
			if ia, ok := ref.(*ssa.IndexAddr); ok {
				for _, r2 := range *ia.Referrers() {
					if st, ok := r2.(*ssa.Store); ok && sliceContains(st.Val, pred, seen) {
						return true
					}
				}
			}
		}
	}
	return false
}

func keyDependsOnCell(prog *core.Program, fn *ssaFn, nameVal ssa.Value, cell ssa.Value, depth int) (bool, string) {
	isLoadOfCell := func(v ssa.Value) bool {
		u, ok := v.(*ssa.UnOp)
		return ok && u.Op == token.MUL && u.X == cell
	}
	// what initialises the cell? (a parameter spilled into it, or a local value)
	var cellInit ssa.Value
	if al, ok := cell.(*ssa.Alloc); ok {
		cnt := 0
		for _, ref := range *al.Referrers() {
			if st, ok := ref.(*ssa.Store); ok && st.Addr == al {
				cellInit = st.Val
				cnt++
			}
		}
		if cnt != 1 {
			cellInit = nil
		}
	}
	pred := func(v ssa.Value) bool { return isLoadOfCell(v) || (cellInit != nil && v == cellInit) }
	if sliceContains(nameVal, pred, map[ssa.Value]bool{}) {
		return true, ""
	}
	// helper: the name comes in as a parameter, the index too — carry the obligation to the callers
	nameParam := -1
	idxParam := -1
	findParam := func(v ssa.Value) int {
		found := -1
		sliceContains(v, func(x ssa.Value) bool {
			if p, ok := x.(*ssa.Parameter); ok {
				for i, q := range fn.Params {
					if q == p {
						found = i
					}
				}
				return true
			}
			return false
		}, map[ssa.Value]bool{})
		return found
	}
	nameParam = findParam(nameVal)
	if p, ok := cellInit.(*ssa.Parameter); ok {
		for i, q := range fn.Params {
			if q == p {
				idxParam = i
			}
		}
	}
	if nameParam < 0 || idxParam < 0 || depth > 3 {
		return false, "the name is built in " + core.SSAFuncKey(fn) + " without reading it"
	}
	sites := 0
	for _, e := range prog.CHA().Nodes[fn].In {
		site := e.Site
		if site == nil || site.Common().StaticCallee() != fn {
			continue
		}
		sites++
		args := site.Common().Args
		if nameParam >= len(args) || idxParam >= len(args) {
			return false, "call site arity"
		}
		idxArg := args[idxParam]
		caller := e.Caller.Func
		if _, isConst := idxArg.(*ssa.Const); isConst {
			continue
		}
		// the index argument is a value in the caller; the name argument must be computed from it
		samePred := func(v ssa.Value) bool {
			if v == idxArg {
				return true
			}
			// two loads of the same cell
			u1, ok1 := v.(*ssa.UnOp)
			u2, ok2 := idxArg.(*ssa.UnOp)
			return ok1 && ok2 && u1.Op == token.MUL && u2.Op == token.MUL && u1.X == u2.X
		}
		if sliceContains(args[nameParam], samePred, map[ssa.Value]bool{}) {
			continue
		}
		// or the caller is itself a helper
		if u, ok := idxArg.(*ssa.UnOp); ok && u.Op == token.MUL {
			if ok3, _ := keyDependsOnCell(prog, caller, args[nameParam], u.X, depth+1); ok3 {
				continue
			}
		}
		return false, fmt.Sprintf("at the call of %s in %s (%s) the name argument is not computed from the index argument", fn.Name(), core.SSAFuncKey(caller), prog.Pos(site.Pos()))
	}
	if sites == 0 {
		return false, "registering helper " + core.SSAFuncKey(fn) + " has no resolved call site"
	}
	return true, ""
}


// c04OwnPort (C04/HS6): the valid/received lines of a port belong to the bond attached to that port.
// An instruction (a Simulate method of pkg/procbuilder, the closures it registers and the VM helper
// methods it calls) may write them only element by element, at an index that is not a loop variable:
// `clear(vm.InputsRecv)`, a whole-slice assignment, copy(), or a loop over all ports changes the lines
// of bonds the instruction does not name — e.g. withdraws an acknowledge another consumer of a
// fanned-out output is still waiting for.
func c04OwnPort(r *core.Run, prog *core.Program) {
	pk := prog.Pkg("pkg/procbuilder")
	if pk == nil {
		return
	}
	info := pk.TypesInfo
	hs := map[string]bool{"InputsValid": true, "InputsRecv": true, "OutputsValid": true, "OutputsRecv": true}
	hsField := func(e ast.Expr) *types.Var {
		f := core.FieldOf(info, e)
		if f != nil && hs[f.Name()] && core.IsField(f, "pkg/procbuilder", f.Name()) {
			return f
		}
		return nil
	}
	decls := map[types.Object]*ast.FuncDecl{}
	core.FuncDecls(pk, func(_ *ast.File, fd *ast.FuncDecl) {
		if o := info.Defs[fd.Name]; o != nil {
			decls[o] = fd
		}
	})
	nW := 0
	seen := map[*ast.FuncDecl]bool{}
	var scan func(fd *ast.FuncDecl, depth int)
	scan = func(fd *ast.FuncDecl, depth int) {
		if seen[fd] || depth > 2 {
			return
		}
		seen[fd] = true
		fkey := core.FuncKey(pk, fd)
		// loop variables of the function
		loopVar := map[types.Object]bool{}
		ast.Inspect(fd.Body, func(n ast.Node) bool {
			switch x := n.(type) {
			case *ast.RangeStmt:
				for _, e := range []ast.Expr{x.Key, x.Value} {
					if id, ok := e.(*ast.Ident); ok {
						if o := info.ObjectOf(id); o != nil {
							loopVar[o] = true
						}
					}
				}
			case *ast.ForStmt:
				if as, ok := x.Init.(*ast.AssignStmt); ok {
					for _, l := range as.Lhs {
						if id, ok := l.(*ast.Ident); ok {
							if o := info.ObjectOf(id); o != nil {
								loopVar[o] = true
							}
						}
					}
				}
			}
			return true
		})
		k := 0
		report := func(pos token.Pos, f *types.Var, what string) {
			k++
			r.Violation("C04/HS6", fmt.Sprintf("C04/HS6:%s:%s#%d", fkey, f.Name(), k), prog.Pos(pos), fmt.Sprintf("%s %s: the instruction changes the handshake lines of ports it does not name — e.g. it withdraws an acknowledge that the other consumer of a fanned-out output has not matched yet, so the producer never sees the conjunction and the value is read again, or raises valid on a port nothing was written to", fkey, what))
		}
		ast.Inspect(fd.Body, func(n ast.Node) bool {
			switch x := n.(type) {
			case *ast.CallExpr:
				if id, ok := x.Fun.(*ast.Ident); ok && (id.Name == "clear" || id.Name == "copy") && len(x.Args) >= 1 {
					if _, isB := info.Uses[id].(*types.Builtin); isB {
						if f := hsField(x.Args[0]); f != nil {
							nW++
							report(x.Pos(), f, id.Name+"s the whole "+f.Name()+" array")
						}
					}
				}
				if c := core.CalleeOf(info, x); c != nil {
					if d, ok := decls[c]; ok && core.RecvTypeName(info, d) == "VM" && d.Name.Name != "Init" && d.Name.Name != "CopyState" {
						scan(d, depth+1)
					}
				}
			case *ast.SelectorExpr:
				// a VM method used as a value (`(*VM).waitRecv`, `vm.waitRecv` handed to the deferred registry)
				if c, ok := info.ObjectOf(x.Sel).(*types.Func); ok {
					if d, ok := decls[c]; ok && core.RecvTypeName(info, d) == "VM" && d.Name.Name != "Init" && d.Name.Name != "CopyState" {
						scan(d, depth+1)
					}
				}
			case *ast.AssignStmt:
				for _, l := range x.Lhs {
					if f := hsField(l); f != nil {
						nW++
						report(x.Pos(), f, "replaces the whole "+f.Name()+" array")
						continue
					}
					ie, ok := ast.Unparen(l).(*ast.IndexExpr)
					if !ok {
						continue
					}
					f := hsField(ie.X)
					if f == nil {
						continue
					}
					nW++
					byLoop := false
					ast.Inspect(ie.Index, func(m ast.Node) bool {
						if id, ok := m.(*ast.Ident); ok && loopVar[info.ObjectOf(id)] {
							byLoop = true
						}
						return true
					})
					if byLoop {
						report(x.Pos(), f, "writes "+f.Name()+" at a loop variable, i.e. for every port")
					}
				}
			}
			return true
		})
		if k == 0 {
			r.OK("C04/HS6", "C04/HS6:"+fkey, prog.Pos(fd.Pos()), "handshake lines are written one element at a time, at the named port")
		}
	}
	core.FuncDecls(pk, func(_ *ast.File, fd *ast.FuncDecl) {
		if fd.Name.Name != "Simulate" || fd.Recv == nil {
			return
		}
		// only instructions that touch a handshake line at all
		touches := false
		ast.Inspect(fd.Body, func(n ast.Node) bool {
			if sel, ok := n.(*ast.SelectorExpr); ok && hsField(sel) != nil {
				touches = true
			}
			if call, ok := n.(*ast.CallExpr); ok {
				if c := core.CalleeOf(info, call); c != nil {
					if d, ok := decls[c]; ok && core.RecvTypeName(info, d) == "VM" {
						ast.Inspect(d.Body, func(m ast.Node) bool {
							if sel, ok := m.(*ast.SelectorExpr); ok && hsField(sel) != nil {
								touches = true
							}
							return true
						})
					}
				}
			}
			return !touches
		})
		if touches {
			scan(fd, 0)
		}
	})
	r.Count("handshake_line_writes", nW)
}
