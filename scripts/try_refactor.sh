#!/bin/bash
# try_refactor.sh <patch.diff> [Cnn...]: applies a behaviour-preserving patch to a scratch worktree and runs
# EVERY registered check on it (or the named ones). Any VIOLATION / non-zero exit is a false alarm of the
# checker. Exit 0 if silent.
# Fast path: `bmverif check-all` runs the checks in one process sharing the loaded program (about 30 s for
# all 16); whatever it reports is then confirmed with the registered single-check command before it is
# called an alarm. FAST=0 runs the single-check commands only (PAR of them at a time).
PATCH=$(readlink -f "$1"); shift
WT=$(mktemp -d /tmp/bmverif-ref.XXXXXX)
EV=$(mktemp -d /tmp/bmverif-ev.XXXXXX)
git -C /repo worktree add --detach "$WT" HEAD >/dev/null 2>&1 || { echo "worktree failed"; exit 2; }
if ! git -C "$WT" apply "$PATCH" 2>/dev/null; then echo "PATCH DOES NOT APPLY $PATCH"; git -C /repo worktree remove --force "$WT"; rm -rf "$EV"; exit 2; fi
alarm=0
ids=${@:-$(/verif/bin/bmverif list)}
single() { BMVERIF_REPO=$WT BMVERIF_EVIDENCE=$EV /verif/bin/bmverif check $1 > $EV/$1.out 2>&1; echo $? > $EV/$1.rc; }
if [ "${FAST:-1}" = "1" ]; then
  BMVERIF_REPO=$WT BMVERIF_EVIDENCE=$EV /verif/bin/bmverif check-all $EV $ids > $EV/all.log 2>&1
  for id in $ids; do
    rc=$(cat $EV/$id.rc 2>/dev/null || echo missing)
    if [ "$rc" != "0" ] || grep -q "^VIOLATION" $EV/$id.out; then single $id; fi
  done
else
  printf "%s\n" $ids | xargs -P ${PAR:-6} -I{} sh -c "BMVERIF_REPO=$WT BMVERIF_EVIDENCE=$EV /verif/bin/bmverif check {} > $EV/{}.out 2>&1; echo \$? > $EV/{}.rc"
fi
for id in $ids; do
  rc=$(cat $EV/$id.rc)
  if [ "$rc" != "0" ] || grep -q "^VIOLATION" $EV/$id.out; then
    alarm=1; echo "ALARM $id exit=$rc on $(basename $(dirname $PATCH))/$(basename $PATCH)"
    grep -E "^(VIOLATED|UNDECIDED|FATAL)" $EV/$id.out | sed "s#$WT/##g" | cut -c1-400 | head -${MAXLINES:-6}
  fi
done
git -C /repo worktree remove --force "$WT"; rm -rf "$EV"
[ $alarm -eq 0 ] && echo "silent $(basename $(dirname $PATCH))/$(basename $PATCH)"
exit $alarm
