package checks

import (
	"fmt"
	"go/ast"
	"go/constant"
	"go/token"
	"go/types"
	"sort"
	"strconv"
	"strings"

	"bmverif/internal/core"
	"golang.org/x/tools/go/packages"
)

// E1 LAYOUT — symbolic instruction-field algebra. Every opcode type spells its bit layout
// independently in Op_get_instruction_len, Assembler, Disassembler, Simulate and in its
// Verilog templates. Each view is extracted as fields (offset, width) whose offsets and
// widths are linear forms over architecture symbols, and the views are compared.

// ---- linear forms -------------------------------------------------------------------

type lform struct {
	c int
	t map[string]int
}

func lconst(c int) lform  { return lform{c: c, t: map[string]int{}} }
func lsym(s string) lform { return lform{t: map[string]int{s: 1}} }
func (a lform) add(b lform, sign int) lform {
	r := lform{c: a.c + sign*b.c, t: map[string]int{}}
	for k, v := range a.t {
		r.t[k] += v
	}
	for k, v := range b.t {
		r.t[k] += sign * v
	}
	for k, v := range r.t {
		if v == 0 {
			delete(r.t, k)
		}
	}
	return r
}
func (a lform) scale(k int) lform {
	r := lform{c: a.c * k, t: map[string]int{}}
	for s, v := range a.t {
		if v*k != 0 {
			r.t[s] = v * k
		}
	}
	return r
}
func (a lform) isConst() bool { return len(a.t) == 0 }
func (a lform) unknown() bool {
	for k := range a.t {
		if strings.HasPrefix(k, "?") {
			return true
		}
	}
	return false
}
func (a lform) String() string {
	keys := []string{}
	for k := range a.t {
		keys = append(keys, k)
	}
	sort.Strings(keys)
	s := ""
	for _, k := range keys {
		v := a.t[k]
		switch {
		case v == 1:
			s += "+" + k
		case v == -1:
			s += "-" + k
		default:
			s += fmt.Sprintf("%+d*%s", v, k)
		}
	}
	if a.c != 0 || s == "" {
		s += fmt.Sprintf("%+d", a.c)
	}
	return strings.TrimPrefix(s, "+")
}
func (a lform) eq(b lform) bool { return a.add(b, -1).String() == "0" }

// ---- evaluation -----------------------------------------------------------------------

type lenv map[types.Object]lform

type layoutCtx struct {
	pk      *packages.Package
	info    *types.Info
	mode    string // ha | vn | hyO | hyL
	recv    types.Object
	soNames map[string]string // concrete shared-object type name -> its Shr_get_name() constant
	// variant of a dynamic opcode family: the constant the receiver field (op.opType) is assumed to hold
	variantField string
	variantVal   string                         // constant's exact value
	found        map[string]map[string]string   // discovered: field -> {constant value -> constant name}
	decls        map[types.Object]*ast.FuncDecl // function/method bodies of the package (helper inlining)
	callDepth    int
	soLocals     map[types.Object][]ast.Expr // string locals -> their assignments (soName follows single ones)
}

// evalCall evaluates a call of a helper of the package that returns one integer (e.g.
// `func (op J) locationBits(arch *Arch) int`): the body is walked under the current mode/variant with
// its integer parameters bound to the arguments; the value is the first return on the path taken.
// A return under a condition the engine cannot resolve makes the result opaque.
func (lc *layoutCtx) evalCall(call *ast.CallExpr, callee types.Object, en lenv) (lform, bool) {
	lc.ensureDecls()
	fd := lc.decls[callee]
	if fd == nil || lc.callDepth >= 3 || fd.Type.Results == nil || len(fd.Type.Results.List) != 1 {
		return lform{}, false
	}
	if b, ok := lc.info.TypeOf(fd.Type.Results.List[0].Type).Underlying().(*types.Basic); !ok || b.Info()&types.IsInteger == 0 {
		return lform{}, false
	}
	ce := lenv{}
	idx := 0
	for _, f := range fd.Type.Params.List {
		for _, n := range f.Names {
			if idx < len(call.Args) {
				if o := lc.info.ObjectOf(n); o != nil {
					if b, ok := o.Type().Underlying().(*types.Basic); ok && b.Info()&types.IsInteger != 0 {
						ce[o] = lc.eval(call.Args[idx], en)
					}
				}
			}
			idx++
		}
	}
	savedRecv := lc.recv
	if fd.Recv != nil && len(fd.Recv.List) > 0 && len(fd.Recv.List[0].Names) > 0 {
		lc.recv = lc.info.ObjectOf(fd.Recv.List[0].Names[0])
	}
	lc.callDepth++
	var ret *lform
	opaque := false
	var unresolved [][2]token.Pos
	lc.walk(fd.Body.List, ce, func(n ast.Node, e2 lenv) {
		switch x := n.(type) {
		case *ast.IfStmt, *ast.SwitchStmt, *ast.ForStmt, *ast.RangeStmt, *ast.TypeSwitchStmt, *ast.SelectStmt:
			unresolved = append(unresolved, [2]token.Pos{n.Pos(), n.End()})
		case *ast.ReturnStmt:
			if ret != nil || len(x.Results) != 1 {
				return
			}
			for _, u := range unresolved {
				if x.Pos() >= u[0] && x.Pos() <= u[1] {
					opaque = true
				}
			}
			v := lc.eval(x.Results[0], e2)
			ret = &v
		}
	})
	lc.callDepth--
	lc.recv = savedRecv
	if ret == nil || opaque {
		return lform{}, false
	}
	return *ret, true
}

func (lc *layoutCtx) ensureDecls() {
	if lc.decls != nil {
		return
	}
	lc.decls = map[types.Object]*ast.FuncDecl{}
	core.FuncDecls(lc.pk, func(_ *ast.File, fd *ast.FuncDecl) {
		if o := lc.info.Defs[fd.Name]; o != nil {
			lc.decls[o] = fd
		}
	})
}

// recvFieldOf: `op.F` on the method receiver -> F
func (lc *layoutCtx) recvFieldOf(e ast.Expr) string {
	sel, ok := ast.Unparen(e).(*ast.SelectorExpr)
	if !ok {
		return ""
	}
	id, ok := ast.Unparen(sel.X).(*ast.Ident)
	if !ok || lc.recv == nil || lc.info.ObjectOf(id) != lc.recv {
		return ""
	}
	if f := core.FieldOf(lc.info, sel); f != nil {
		return f.Name()
	}
	return ""
}

func (lc *layoutCtx) constOf(e ast.Expr) (val, name string, ok bool) {
	tv, has := lc.info.Types[e]
	if !has || tv.Value == nil {
		return "", "", false
	}
	return tv.Value.ExactString(), types.ExprString(e), true
}

func (lc *layoutCtx) noteVariant(field, val, name string) {
	if lc.found == nil {
		lc.found = map[string]map[string]string{}
	}
	if lc.found[field] == nil {
		lc.found[field] = map[string]string{}
	}
	lc.found[field][val] = name
}

// variantCond evaluates conditions over the receiver's variant field (op.opType == C, !=, ||, &&).
func (lc *layoutCtx) variantCond(c ast.Expr) (val bool, ok bool) {
	switch x := ast.Unparen(c).(type) {
	case *ast.BinaryExpr:
		switch x.Op {
		case token.EQL, token.NEQ:
			f := lc.recvFieldOf(x.X)
			if f == "" {
				return false, false
			}
			v, n, isC := lc.constOf(x.Y)
			if !isC {
				return false, false
			}
			lc.noteVariant(f, v, n)
			if lc.variantField != f {
				return false, false
			}
			return (lc.variantVal == v) == (x.Op == token.EQL), true
		case token.LOR:
			a, oka := lc.variantCond(x.X)
			b, okb := lc.variantCond(x.Y)
			if oka && okb {
				return a || b, true
			}
		case token.LAND:
			a, oka := lc.variantCond(x.X)
			b, okb := lc.variantCond(x.Y)
			if oka && okb {
				return a && b, true
			}
		}
	}
	return false, false
}

var archFieldSyms = map[string]string{"R": "R", "N": "N", "M": "M", "L": "L", "O": "O", "Rsize": "Rsize", "WordSize": "WordSize"}

func (lc *layoutCtx) eval(e ast.Expr, en lenv) lform {
	info := lc.info
	if tv, ok := info.Types[e]; ok && tv.Value != nil {
		if v, ok := constant.Int64Val(constant.ToInt(tv.Value)); ok && tv.Value.Kind() != constant.String {
			return lconst(int(v))
		}
	}
	switch x := ast.Unparen(e).(type) {
	case *ast.Ident:
		if obj := info.ObjectOf(x); obj != nil {
			if v, ok := en[obj]; ok {
				return v
			}
		}
		return lsym("?" + x.Name)
	case *ast.SelectorExpr:
		if f := core.FieldOf(info, x); f != nil {
			if f.Pkg() != nil && strings.HasSuffix(f.Pkg().Path(), "pkg/procbuilder") {
				if s, ok := archFieldSyms[f.Name()]; ok {
					return lsym(s)
				}
			}
			if id, ok := ast.Unparen(x.X).(*ast.Ident); ok && lc.recv != nil && info.ObjectOf(id) == lc.recv {
				return lsym("op." + f.Name())
			}
			return lsym("?f." + f.Name())
		}
	case *ast.CallExpr:
		if tv, ok := info.Types[x.Fun]; ok && tv.IsType() && len(x.Args) == 1 {
			return lc.eval(x.Args[0], en)
		}
		if c := core.CalleeOf(info, x); c != nil {
			switch c.Name() {
			case "Opcodes_bits":
				return lsym("opbits")
			case "Inputs_bits":
				return lsym("inbits")
			case "Outputs_bits":
				return lsym("outbits")
			case "Max_word":
				return lsym("romword")
			case "Shared_bits":
				if len(x.Args) == 1 {
					return lsym("shbits(" + lc.soName(x.Args[0]) + ")")
				}
			case "Needed_bits":
				if len(x.Args) == 1 {
					return lsym("bits(" + lc.eval(x.Args[0], en).String() + ")")
				}
			case "len":
				return lsym("?len")
			}
			if v, ok := lc.evalCall(x, c, en); ok {
				return v
			}
			return lsym("?call:" + c.Name())
		}
	case *ast.BinaryExpr:
		a, b := lc.eval(x.X, en), lc.eval(x.Y, en)
		switch x.Op {
		case token.ADD:
			return a.add(b, 1)
		case token.SUB:
			return a.add(b, -1)
		case token.MUL:
			if a.isConst() {
				return b.scale(a.c)
			}
			if b.isConst() {
				return a.scale(b.c)
			}
		case token.SHL:
			// c << e with c a power of two: 2^(e+log2 c)
			if a.isConst() && a.c > 0 && a.c&(a.c-1) == 0 {
				k := 0
				for v := a.c; v > 1; v >>= 1 {
					k++
				}
				ex := b.add(lconst(k), 1)
				if ex.isConst() {
					return lconst(1 << uint(ex.c))
				}
				return lsym("2^(" + ex.String() + ")")
			}
			return lsym("?(" + a.String() + "<<" + b.String() + ")")
		}
		return lsym("?bin")
	}
	return lsym("?" + fmt.Sprintf("%T", e))
}

func (lc *layoutCtx) soName(e ast.Expr) string {
	if s, ok := constStr(lc.info, e); ok {
		return s
	}
	if call, ok := ast.Unparen(e).(*ast.CallExpr); ok {
		if sel, ok := call.Fun.(*ast.SelectorExpr); ok && sel.Sel.Name == "Shr_get_name" {
			t := lc.info.TypeOf(sel.X)
			if t != nil {
				if p, ok := t.(*types.Pointer); ok {
					t = p.Elem()
				}
				if n, ok := t.(*types.Named); ok {
					if s, ok := lc.soNames[n.Obj().Name()]; ok {
						return s
					}
					return "type:" + n.Obj().Name()
				}
			}
		}
	}
	// a local assigned once (`kbdName := kSo.Shr_get_name()`)
	if id, ok := ast.Unparen(e).(*ast.Ident); ok {
		if lc.soLocals == nil {
			lc.soLocals = map[types.Object][]ast.Expr{}
			for _, f := range lc.pk.Syntax {
				ast.Inspect(f, func(n ast.Node) bool {
					as, ok := n.(*ast.AssignStmt)
					if !ok {
						return true
					}
					for i, l := range as.Lhs {
						lid, ok := l.(*ast.Ident)
						if !ok {
							continue
						}
						o := lc.info.ObjectOf(lid)
						if o == nil {
							continue
						}
						if _, isStr := o.Type().Underlying().(*types.Basic); !isStr {
							continue
						}
						if len(as.Lhs) == len(as.Rhs) {
							lc.soLocals[o] = append(lc.soLocals[o], as.Rhs[i])
						} else {
							lc.soLocals[o] = append(lc.soLocals[o], nil)
						}
					}
					return true
				})
			}
		}
		if o := lc.info.ObjectOf(id); o != nil {
			if defs := lc.soLocals[o]; len(defs) == 1 && defs[0] != nil {
				if _, again := ast.Unparen(defs[0]).(*ast.Ident); !again {
					return lc.soName(defs[0])
				}
			}
		}
	}
	return "?" + types.ExprString(e)
}

// modeOf evaluates the repo's mode guards; ok=false when the condition is not a mode guard.
func (lc *layoutCtx) modeCond(cond ast.Expr) (val bool, ok bool) {
	be, isBin := ast.Unparen(cond).(*ast.BinaryExpr)
	if !isBin {
		return false, false
	}
	fieldName := func(e ast.Expr) string {
		if f := core.FieldOf(lc.info, e); f != nil && f.Pkg() != nil && strings.HasSuffix(f.Pkg().Path(), "pkg/procbuilder") {
			return f.Name()
		}
		return ""
	}
	a, b := fieldName(be.X), fieldName(be.Y)
	if !((a == "O" && b == "L") || (a == "L" && b == "O")) {
		return false, false
	}
	// in ha the location is O, in vn it is L; treat O>L as true for ha/hyO
	oGreater := lc.mode == "ha" || lc.mode == "hyO"
	switch be.Op {
	case token.GTR, token.GEQ:
		if a == "O" {
			return oGreater, true
		}
		return !oGreater, true
	case token.LSS, token.LEQ:
		if a == "O" {
			return !oGreater, true
		}
		return oGreater, true
	}
	return false, false
}

func isModesTag(info *types.Info, e ast.Expr) bool {
	ie, ok := ast.Unparen(e).(*ast.IndexExpr)
	if !ok {
		return false
	}
	f := core.FieldOf(info, ie.X)
	return f != nil && f.Name() == "Modes"
}

// walk traverses statements in source order, maintaining the integer environment and
// following only the branches the current mode selects.
func (lc *layoutCtx) walk(stmts []ast.Stmt, en lenv, visit func(n ast.Node, en lenv)) {
	for _, s := range stmts {
		switch x := s.(type) {
		case *ast.AssignStmt:
			visit(x, en)
			if len(x.Lhs) == len(x.Rhs) {
				for i, l := range x.Lhs {
					id, ok := l.(*ast.Ident)
					if !ok {
						continue
					}
					obj := lc.info.ObjectOf(id)
					if obj == nil {
						continue
					}
					if b, ok := obj.Type().Underlying().(*types.Basic); !ok || b.Info()&types.IsInteger == 0 {
						continue
					}
					switch x.Tok {
					case token.DEFINE, token.ASSIGN:
						en[obj] = lc.eval(x.Rhs[i], en)
					case token.ADD_ASSIGN:
						en[obj] = lc.eval(l, en).add(lc.eval(x.Rhs[i], en), 1)
					case token.SUB_ASSIGN:
						en[obj] = lc.eval(l, en).add(lc.eval(x.Rhs[i], en), -1)
					default:
						en[obj] = lsym("?" + id.Name)
					}
				}
			}
		case *ast.DeclStmt:
			if gd, ok := x.Decl.(*ast.GenDecl); ok {
				for _, sp := range gd.Specs {
					if vs, ok := sp.(*ast.ValueSpec); ok {
						for i, id := range vs.Names {
							if i < len(vs.Values) {
								if obj := lc.info.ObjectOf(id); obj != nil {
									if b, ok := obj.Type().Underlying().(*types.Basic); ok && b.Info()&types.IsInteger != 0 {
										en[obj] = lc.eval(vs.Values[i], en)
									}
								}
							}
						}
					}
				}
			}
			visit(x, en)
		case *ast.SwitchStmt:
			if x.Tag != nil && isModesTag(lc.info, x.Tag) {
				for _, c := range x.Body.List {
					cc := c.(*ast.CaseClause)
					for _, v := range cc.List {
						if s, ok := constStr(lc.info, v); ok && s == lc.mode[:2] {
							lc.walk(cc.Body, en, visit)
						}
					}
				}
				continue
			}
			if x.Init != nil {
				lc.walk([]ast.Stmt{x.Init}, en, visit)
			}
			if f := func() string {
				if x.Tag == nil {
					return ""
				}
				return lc.recvFieldOf(x.Tag)
			}(); f != "" {
				// a dynamic opcode family: follow only the case of the current variant
				var def *ast.CaseClause
				matched := false
				for _, c := range x.Body.List {
					cc := c.(*ast.CaseClause)
					if len(cc.List) == 0 {
						def = cc
					}
					for _, v := range cc.List {
						if val, name, ok := lc.constOf(v); ok {
							lc.noteVariant(f, val, name)
							if lc.variantField == f && lc.variantVal == val {
								matched = true
								lc.walk(cc.Body, en, visit)
							}
						}
					}
				}
				if lc.variantField == f {
					if !matched && def != nil {
						lc.walk(def.Body, en, visit)
					}
					continue
				}
			}
			visit(x, en)
			before := cloneEnv(en)
			var outs []lenv
			for _, c := range x.Body.List {
				ce := cloneEnv(before)
				lc.walk(c.(*ast.CaseClause).Body, ce, visit)
				outs = append(outs, ce)
			}
			joinEnvs(en, before, outs, true)
		case *ast.IfStmt:
			if x.Init != nil {
				lc.walk([]ast.Stmt{x.Init}, en, visit)
			}
			if v, ok := lc.modeCond(x.Cond); ok {
				if v {
					lc.walk(x.Body.List, en, visit)
				} else if x.Else != nil {
					lc.walk([]ast.Stmt{x.Else}, en, visit)
				}
				continue
			}
			if v, ok := lc.variantCond(x.Cond); ok {
				if v {
					lc.walk(x.Body.List, en, visit)
				} else if x.Else != nil {
					lc.walk([]ast.Stmt{x.Else}, en, visit)
				}
				continue
			}
			visit(x, en)
			before := cloneEnv(en)
			te := cloneEnv(before)
			lc.walk(x.Body.List, te, visit)
			outs := []lenv{te}
			hasElse := x.Else != nil
			if hasElse {
				ee := cloneEnv(before)
				lc.walk([]ast.Stmt{x.Else}, ee, visit)
				outs = append(outs, ee)
			}
			joinEnvs(en, before, outs, !hasElse)
		case *ast.ForStmt:
			visit(x, en)
			if x.Init != nil {
				lc.walk([]ast.Stmt{x.Init}, en, visit)
			}
			before := cloneEnv(en)
			be := cloneEnv(before)
			lc.walk(x.Body.List, be, visit)
			joinEnvs(en, before, []lenv{be}, true)
		case *ast.RangeStmt:
			visit(x, en)
			before := cloneEnv(en)
			be := cloneEnv(before)
			lc.walk(x.Body.List, be, visit)
			joinEnvs(en, before, []lenv{be}, true)
		case *ast.BlockStmt:
			lc.walk(x.List, en, visit)
		case *ast.LabeledStmt:
			lc.walk([]ast.Stmt{x.Stmt}, en, visit)
		default:
			visit(s, en)
		}
	}
}

func cloneEnv(e lenv) lenv {
	n := lenv{}
	for k, v := range e {
		n[k] = v
	}
	return n
}

// joinEnvs merges branch environments back into en: a variable whose value differs between the
// paths becomes an opaque, per-variable symbol "~name" (consistent within one function).
func joinEnvs(en, before lenv, outs []lenv, includeBefore bool) {
	all := outs
	if includeBefore {
		all = append([]lenv{before}, outs...)
	}
	keys := map[types.Object]bool{}
	for _, o := range all {
		for k := range o {
			keys[k] = true
		}
	}
	for k := range keys {
		var first *lform
		same := true
		for _, o := range all {
			v, ok := o[k]
			if !ok {
				continue // declared inside a branch only
			}
			if first == nil {
				vv := v
				first = &vv
			} else if !first.eq(v) {
				same = false
			}
		}
		if first == nil {
			continue
		}
		if _, declaredBefore := before[k]; !declaredBefore {
			continue // branch-local variable
		}
		if same {
			en[k] = *first
		} else {
			en[k] = lsym("~" + k.Name())
		}
	}
}

// ---- views -------------------------------------------------------------------------------

type lfield struct {
	off, w lform
	src    string // provenance / printer / text
	pos    token.Pos
	single bool     // hdl single-bit form [A]
	kind   string   // operand kind: register | input | output | shared | number | ""
	uses   []string // how the decoded value is used (dis: printer kind; sim: array kinds it indexes)
}

func (f lfield) String() string { return "[off " + f.off.String() + ", w " + f.w.String() + "]" }

type opViews struct {
	name     string // receiver type name
	opName   string // Op_get_name constant ("" for dynamic)
	lens     []lform
	lenPos   token.Pos
	asm      []lfield
	asmPos   token.Pos
	hasAsm   bool
	pads     []lform
	padPos   token.Pos
	dis      []lfield
	sim      []lfield
	hdl      []lfield
	unknowns []string
}

// inspectShallow visits the expressions of one statement without descending into nested blocks.
func inspectShallow(n ast.Node, f func(ast.Node) bool) {
	ast.Inspect(n, func(m ast.Node) bool {
		if m == nil {
			return true
		}
		if _, ok := m.(*ast.BlockStmt); ok && m != n {
			return false
		}
		if _, ok := m.(*ast.FuncLit); ok {
			return false
		}
		return f(m)
	})
}

func flattenAdd(e ast.Expr, out *[]ast.Expr) {
	switch x := e.(type) {
	case *ast.BinaryExpr:
		if x.Op == token.ADD {
			flattenAdd(x.X, out)
			flattenAdd(x.Y, out)
			return
		}
	case *ast.ParenExpr:
		flattenAdd(x.X, out)
		return
	}
	*out = append(*out, e)
}

func (lc *layoutCtx) extract(v *opViews, fd *ast.FuncDecl) {
	en := lenv{}
	name := fd.Name.Name
	lc.recv = nil
	if fd.Recv != nil && len(fd.Recv.List) > 0 && len(fd.Recv.List[0].Names) > 0 {
		lc.recv = lc.info.ObjectOf(fd.Recv.List[0].Names[0])
	}
	slices := func(dst *[]lfield, paramName string) func(ast.Node, lenv) {
		// the instruction-string parameter
		var instrObj types.Object
		for _, p := range fd.Type.Params.List {
			for _, n := range p.Names {
				if n.Name == paramName {
					instrObj = lc.info.ObjectOf(n)
				}
			}
		}
		return func(n ast.Node, en lenv) {
			inspectShallow(n, func(m ast.Node) bool {
				se, ok := m.(*ast.SliceExpr)
				if !ok {
					return true
				}
				id, ok := ast.Unparen(se.X).(*ast.Ident)
				if !ok || lc.info.ObjectOf(id) != instrObj {
					return true
				}
				lo := lconst(0)
				if se.Low != nil {
					lo = lc.eval(se.Low, en)
				}
				var w lform
				if se.High == nil {
					// open-ended: the rest of the word
					w = lsym("romword").add(lsym("opbits"), -1).add(lo, -1)
				} else {
					w = lc.eval(se.High, en).add(lo, -1)
				}
				*dst = append(*dst, lfield{off: lo, w: w, src: types.ExprString(se), pos: se.Pos()})
				return true
			})
		}
	}
	switch {
	case name == "Op_get_instruction_len":
		v.lenPos = fd.Pos()
		lc.walk(fd.Body.List, en, func(n ast.Node, en lenv) {
			if r, ok := n.(*ast.ReturnStmt); ok && len(r.Results) == 1 {
				v.lens = append(v.lens, lc.eval(r.Results[0], en))
			}
		})
	case name == "Assembler":
		v.asmPos = fd.Pos()
		v.hasAsm = true
		// loop bound context for get_binary(i)
		type loopB struct {
			obj   types.Object
			bound lform
		}
		var loops []loopB
		partialProv := map[types.Object]string{}
		loopNameKind := map[ast.Node]string{}
		var curLoop ast.Node
		nameKindOf := func(n ast.Node) string {
			k := ""
			ast.Inspect(n, func(m ast.Node) bool {
				if call, ok := m.(*ast.CallExpr); ok {
					if c := core.CalleeOf(lc.info, call); c != nil {
						switch c.Name() {
						case "Get_register_name":
							k = "register"
						case "Get_input_name":
							k = "input"
						case "Get_output_name":
							k = "output"
						}
					}
				}
				return k == ""
			})
			return k
		}
		// closures of the Assembler that build a field (`encodeReg := func(name string) string {…}`) are
		// inlined at each call; a `for _, w := range words` whose length the function has pinned
		// (`if len(words) != n { return … }`) contributes its body n times
		closures := map[types.Object]*ast.FuncLit{}
		var wordsObj types.Object
		for _, p := range fd.Type.Params.List {
			for _, n := range p.Names {
				if _, ok := lc.info.TypeOf(p.Type).Underlying().(*types.Slice); ok {
					wordsObj = lc.info.ObjectOf(n)
				}
			}
		}
		wordsLen := 0
		ast.Inspect(fd.Body, func(m ast.Node) bool {
			be, ok := m.(*ast.BinaryExpr)
			if !ok || be.Op != token.NEQ {
				return true
			}
			call, ok := ast.Unparen(be.X).(*ast.CallExpr)
			if !ok || len(call.Args) != 1 {
				return true
			}
			if id, ok := call.Fun.(*ast.Ident); !ok || id.Name != "len" {
				return true
			}
			if aid, ok := ast.Unparen(call.Args[0]).(*ast.Ident); ok && wordsObj != nil && lc.info.ObjectOf(aid) == wordsObj {
				if tv, ok := lc.info.Types[be.Y]; ok && tv.Value != nil {
					if v, ok := constant.Int64Val(constant.ToInt(tv.Value)); ok && wordsLen == 0 {
						wordsLen = int(v)
					}
				}
			}
			return true
		})
		inlineDepth := 0
		var visitAsm func(n ast.Node, en lenv)
		var emitField func(call *ast.CallExpr, en lenv)
		emitField = func(call *ast.CallExpr, en lenv) {
			w := lc.eval(call.Args[0], en)
			prov := "?"
			val := ast.Unparen(call.Args[1])
			if vc, ok := val.(*ast.CallExpr); ok {
				if c2 := core.CalleeOf(lc.info, vc); c2 != nil && c2.Name() == "get_binary" && len(vc.Args) == 1 {
					prov = "get_binary(?)"
					if aid, ok := ast.Unparen(vc.Args[0]).(*ast.Ident); ok {
						for _, l := range loops {
							if l.obj == lc.info.ObjectOf(aid) {
								prov = "index<" + l.bound.String()
							}
						}
					}
				}
			} else if vid, ok := val.(*ast.Ident); ok {
				if p, ok := partialProv[lc.info.ObjectOf(vid)]; ok {
					prov = p
				}
			}
			kind := ""
			switch {
			case strings.HasPrefix(prov, "Process_input"):
				kind = "input"
			case strings.HasPrefix(prov, "Process_output"):
				kind = "output"
			case strings.HasPrefix(prov, "Process_shared"):
				kind = "shared"
			case strings.HasPrefix(prov, "Process_number"):
				kind = "number"
			case strings.HasPrefix(prov, "index<"):
				kind = loopNameKind[curLoop]
			}
			v.asm = append(v.asm, lfield{w: w, src: prov, pos: call.Pos(), kind: kind})
		}
		visitAsm = func(n ast.Node, en lenv) {
			switch s := n.(type) {
			case *ast.ReturnStmt:
				if inlineDepth > 0 {
					for _, res := range s.Results {
						if call, ok := ast.Unparen(res).(*ast.CallExpr); ok {
							if c := core.CalleeOf(lc.info, call); c != nil && c.Name() == "zeros_prefix" && len(call.Args) == 2 {
								emitField(call, en)
							}
						}
					}
				}
			case *ast.RangeStmt:
				// for i := range n  (an integer bound): the same search loop as for i := 0; i < n; i++
				if b, ok := lc.info.TypeOf(s.X).Underlying().(*types.Basic); ok && b.Info()&types.IsInteger != 0 {
					if id, ok := s.Key.(*ast.Ident); ok {
						loops = append(loops, loopB{lc.info.ObjectOf(id), lc.eval(s.X, en)})
						loopNameKind[s] = nameKindOf(s.Body)
						curLoop = s
					}
				}
				if id, ok := ast.Unparen(s.X).(*ast.Ident); ok && wordsObj != nil && lc.info.ObjectOf(id) == wordsObj && wordsLen > 1 {
					for k := 1; k < wordsLen; k++ {
						lc.walk(s.Body.List, cloneEnv(en), visitAsm)
					}
				}
			case *ast.ForStmt:
				if as, ok := s.Init.(*ast.AssignStmt); ok && len(as.Lhs) == 1 && len(as.Rhs) == 1 {
					if be, ok := s.Cond.(*ast.BinaryExpr); ok && (be.Op == token.LSS) {
						if id, ok := as.Lhs[0].(*ast.Ident); ok {
							hi := lc.eval(be.Y, en)
							if hi.String() == "romword" {
								v.pads = append(v.pads, lc.eval(as.Rhs[0], en))
								v.padPos = s.Pos()
							} else {
								loops = append(loops, loopB{lc.info.ObjectOf(id), hi})
								loopNameKind[s] = nameKindOf(s.Body)
								curLoop = s
							}
						}
					}
				}
			case *ast.IfStmt:
				// if partial, err := Process_xxx(...); err == nil
				if as, ok := s.Init.(*ast.AssignStmt); ok && len(as.Rhs) == 1 {
					if call, ok := as.Rhs[0].(*ast.CallExpr); ok {
						if c := core.CalleeOf(lc.info, call); c != nil && strings.HasPrefix(c.Name(), "Process_") {
							if id, ok := as.Lhs[0].(*ast.Ident); ok {
								prov := c.Name()
								if len(call.Args) >= 2 {
									prov += "(" + lc.eval(call.Args[len(call.Args)-1], en).String() + ")"
								}
								partialProv[lc.info.ObjectOf(id)] = prov
							}
						}
					}
				}
			case *ast.AssignStmt:
				if len(s.Rhs) != 1 {
					return
				}
				if fl, ok := s.Rhs[0].(*ast.FuncLit); ok && len(s.Lhs) == 1 {
					if id, ok := s.Lhs[0].(*ast.Ident); ok {
						closures[lc.info.ObjectOf(id)] = fl
					}
					return
				}
				if call, ok := s.Rhs[0].(*ast.CallExpr); ok {
					if c := core.CalleeOf(lc.info, call); c != nil && strings.HasPrefix(c.Name(), "Process_") && len(s.Lhs) >= 1 {
						if id, ok := s.Lhs[0].(*ast.Ident); ok {
							prov := c.Name()
							if len(call.Args) >= 2 {
								prov += "(" + lc.eval(call.Args[len(call.Args)-1], en).String() + ")"
							}
							partialProv[lc.info.ObjectOf(id)] = prov
						}
					}
					if c := core.CalleeOf(lc.info, call); c != nil && c.Name() == "zeros_prefix" && len(call.Args) == 2 && (s.Tok == token.ADD_ASSIGN || s.Tok == token.ASSIGN || s.Tok == token.DEFINE) {
						emitField(call, en)
					}
					// call of a field-building closure: inline its body
					if fid, ok := ast.Unparen(call.Fun).(*ast.Ident); ok {
						if fl, ok := closures[lc.info.ObjectOf(fid)]; ok && inlineDepth < 2 {
							inlineDepth++
							lc.walk(fl.Body.List, cloneEnv(en), visitAsm)
							inlineDepth--
						}
					}
					// call of a field-building helper of the package (a function whose body calls
					// zeros_prefix, e.g. `r2owaaRegisterOperand(arch, name) (string, bool)`): inline it
					// with its integer parameters bound
					if c := core.CalleeOf(lc.info, call); c != nil && inlineDepth < 2 {
						lc.ensureDecls()
						if hd := lc.decls[c]; hd != nil && hd != fd && hd.Name.Name != "zeros_prefix" && callsNamed(lc.info, hd.Body, "zeros_prefix") {
							ce := lenv{}
							idx := 0
							for _, f := range hd.Type.Params.List {
								for _, pn := range f.Names {
									if idx < len(call.Args) {
										if o := lc.info.ObjectOf(pn); o != nil {
											if b, ok := o.Type().Underlying().(*types.Basic); ok && b.Info()&types.IsInteger != 0 {
												ce[o] = lc.eval(call.Args[idx], en)
											}
										}
									}
									idx++
								}
							}
							inlineDepth++
							lc.walk(hd.Body.List, ce, visitAsm)
							inlineDepth--
						}
					}
				}
			}
		}
		lc.walk(fd.Body.List, en, visitAsm)
		off := lconst(0)
		for i := range v.asm {
			v.asm[i].off = off
			off = off.add(v.asm[i].w, 1)
		}
	case name == "Disassembler":
		lc.walk(fd.Body.List, en, slices(&v.dis, "instr"))
		lc.decodedUses(fd, v.dis)
	case name == "Simulate":
		lc.walk(fd.Body.List, en, slices(&v.sim, "instr"))
		lc.decodedUses(fd, v.sim)
	case strings.Contains(strings.ToLower(name), "verilog"):
		// `case (current_instruction[..])` followed by a loop that emits the labels `<NAME> : begin`:
		// the name function of the labels says which kind of operand the template takes the slice for
		var pending []int
		labelKind := func(body *ast.BlockStmt) string {
			for _, st := range body.List {
				as, ok := st.(*ast.AssignStmt)
				if !ok || len(as.Rhs) != 1 {
					continue
				}
				var leaves []ast.Expr
				flattenAdd(as.Rhs[0], &leaves)
				isLabel, kind := false, ""
				for _, l := range leaves {
					if sl, ok := constStr(lc.info, l); ok {
						if strings.HasPrefix(strings.TrimSpace(sl), ": begin") {
							isLabel = true
						}
						continue
					}
					ast.Inspect(l, func(k ast.Node) bool {
						if call, ok := k.(*ast.CallExpr); ok {
							if c := core.CalleeOf(lc.info, call); c != nil {
								switch c.Name() {
								case "Get_register_name":
									kind = "register"
								case "Get_input_name":
									kind = "input"
								case "Get_output_name":
									kind = "output"
								}
							}
						}
						return true
					})
					if kind != "" && !isLabel {
						// the name comes before the " : begin" literal in the same concatenation
						continue
					}
				}
				if isLabel {
					return kind
				}
				return "" // the first emitting statement of the loop is not a label
			}
			return ""
		}
		lc.walk(fd.Body.List, en, func(n ast.Node, en lenv) {
			var loopBody *ast.BlockStmt
			switch x := n.(type) {
			case *ast.ForStmt:
				loopBody = x.Body
			case *ast.RangeStmt:
				loopBody = x.Body
			}
			if loopBody != nil {
				if k := labelKind(loopBody); k != "" {
					for _, i := range pending {
						v.hdl[i].uses = append(v.hdl[i].uses, k)
					}
				}
				pending = nil
				return
			}
			inspectShallow(n, func(m ast.Node) bool {
				be, ok := m.(*ast.BinaryExpr)
				if !ok || be.Op != token.ADD {
					return true
				}
				var leaves []ast.Expr
				flattenAdd(be, &leaves)
				for i, l := range leaves {
					s, ok := constStr(lc.info, l)
					if !ok || !strings.HasSuffix(s, "current_instruction[") || i+1 >= len(leaves) {
						continue
					}
					c1, ok := leaves[i+1].(*ast.CallExpr)
					if !ok || !core.IsFunc(core.CalleeOf(lc.info, c1), "strconv", "Itoa") {
						v.unknowns = append(v.unknowns, lc.pos(l)+": current_instruction[ not followed by strconv.Itoa")
						continue
					}
					A := lc.eval(c1.Args[0], en)
					next := ""
					if i+2 < len(leaves) {
						next, _ = constStr(lc.info, leaves[i+2])
					}
					top := lsym("romword").add(lconst(1), -1).add(lsym("opbits"), -1) // index of the first operand bit
					var f lfield
					if strings.HasPrefix(next, ":") && i+3 < len(leaves) {
						c2, ok := leaves[i+3].(*ast.CallExpr)
						if !ok || !core.IsFunc(core.CalleeOf(lc.info, c2), "strconv", "Itoa") {
							v.unknowns = append(v.unknowns, lc.pos(l)+": slice low bound is not strconv.Itoa")
							continue
						}
						B := lc.eval(c2.Args[0], en)
						f = lfield{off: top.add(A, -1), w: A.add(B, -1).add(lconst(1), 1)}
					} else {
						f = lfield{off: top.add(A, -1), w: lconst(1), single: true}
					}
					f.pos = l.Pos()
					f.src = fd.Name.Name
					v.hdl = append(v.hdl, f)
					if strings.HasSuffix(s, "case (current_instruction[") || strings.HasSuffix(s, "case(current_instruction[") {
						pending = append(pending, len(v.hdl)-1)
					}
				}
				return false
			})
		})
	}
}

// callsNamed reports whether body contains a call of a function called name.
func callsNamed(info *types.Info, body ast.Node, name string) bool {
	found := false
	ast.Inspect(body, func(n ast.Node) bool {
		if call, ok := n.(*ast.CallExpr); ok {
			if c := core.CalleeOf(info, call); c != nil && c.Name() == name {
				found = true
			}
		}
		return !found
	})
	return found
}

// decodedUses: for each slice `x := get_id(instr[a:b])`, how is x used — which name function prints
// it (Disassembler) or which VM arrays it indexes (Simulate).
func (lc *layoutCtx) decodedUses(fd *ast.FuncDecl, fields []lfield) {
	byPos := map[token.Pos]int{}
	for i, f := range fields {
		byPos[f.pos] = i
	}
	varOf := map[types.Object]int{}
	ast.Inspect(fd.Body, func(n ast.Node) bool {
		as, ok := n.(*ast.AssignStmt)
		if !ok || len(as.Lhs) != 1 || len(as.Rhs) != 1 {
			return true
		}
		id, ok := as.Lhs[0].(*ast.Ident)
		if !ok {
			return true
		}
		// find a slice expression of a known field inside the RHS
		ast.Inspect(as.Rhs[0], func(m ast.Node) bool {
			if se, ok := m.(*ast.SliceExpr); ok {
				if i, ok := byPos[se.Pos()]; ok {
					if o := lc.info.ObjectOf(id); o != nil {
						varOf[o] = i
					}
				}
			}
			return true
		})
		return true
	})
	add := func(i int, u string) {
		for _, x := range fields[i].uses {
			if x == u {
				return
			}
		}
		fields[i].uses = append(fields[i].uses, u)
	}
	vmArrayKind := map[string]string{"Registers": "register", "Inputs": "input", "InputsValid": "input", "InputsRecv": "input", "Outputs": "output", "OutputsValid": "output", "OutputsRecv": "output"}
	ast.Inspect(fd.Body, func(n ast.Node) bool {
		switch x := n.(type) {
		case *ast.CallExpr:
			if c := core.CalleeOf(lc.info, x); c != nil && len(x.Args) == 1 {
				if id, ok := ast.Unparen(x.Args[0]).(*ast.Ident); ok {
					if i, ok := varOf[lc.info.ObjectOf(id)]; ok {
						switch c.Name() {
						case "Get_register_name":
							add(i, "register")
						case "Get_input_name":
							add(i, "input")
						case "Get_output_name":
							add(i, "output")
						case "Itoa":
							add(i, "number")
						}
					}
				}
			}
		case *ast.IndexExpr:
			if id, ok := ast.Unparen(x.Index).(*ast.Ident); ok {
				if i, ok := varOf[lc.info.ObjectOf(id)]; ok {
					if f := core.FieldOf(lc.info, x.X); f != nil && f.Pkg() != nil && strings.HasSuffix(f.Pkg().Path(), "pkg/procbuilder") {
						if k, ok := vmArrayKind[f.Name()]; ok {
							add(i, k)
						}
					}
				}
			}
		}
		return true
	})
}

func (lc *layoutCtx) pos(n ast.Node) string {
	p := lc.pk.Fset.Position(n.Pos())
	return fmt.Sprintf("%s:%d", p.Filename, p.Line)
}

// collectViews extracts the views of every opcode type of pkg/procbuilder under one mode.
func collectViews(prog *core.Program, mode string) (map[string]*opViews, []string) {
	pk := prog.Pkg("pkg/procbuilder")
	lc := &layoutCtx{pk: pk, info: pk.TypesInfo, mode: mode, soNames: map[string]string{}}
	// shared object names
	core.FuncDecls(pk, func(_ *ast.File, fd *ast.FuncDecl) {
		if fd.Name.Name == "Shr_get_name" && fd.Recv != nil {
			for _, st := range fd.Body.List {
				if r, ok := st.(*ast.ReturnStmt); ok && len(r.Results) == 1 {
					if s, ok := constStr(pk.TypesInfo, r.Results[0]); ok {
						lc.soNames[core.RecvTypeName(pk.TypesInfo, fd)] = s
					}
				}
			}
		}
	})
	// the Opcode interface
	var opIface *types.Interface
	if tn, ok := pk.Types.Scope().Lookup("Opcode").(*types.TypeName); ok {
		opIface, _ = tn.Type().Underlying().(*types.Interface)
	}
	views := map[string]*opViews{}
	core.FuncDecls(pk, func(_ *ast.File, fd *ast.FuncDecl) {
		rn := core.RecvTypeName(pk.TypesInfo, fd)
		if rn == "" || opIface == nil {
			return
		}
		tn, ok := pk.Types.Scope().Lookup(rn).(*types.TypeName)
		if !ok {
			return
		}
		if !types.Implements(tn.Type(), opIface) && !types.Implements(types.NewPointer(tn.Type()), opIface) {
			return
		}
		v := views[rn]
		if v == nil {
			v = &opViews{name: rn}
			views[rn] = v
		}
		if fd.Name.Name == "Op_get_name" {
			for _, st := range fd.Body.List {
				if r, ok := st.(*ast.ReturnStmt); ok && len(r.Results) == 1 {
					if s, ok := constStr(pk.TypesInfo, r.Results[0]); ok {
						v.opName = s
					}
				}
			}
		}
		lc.extract(v, fd)
	})
	// dynamic families: re-extract once per variant of the receiver's selector field
	type famKey struct{ typ, field string }
	fams := map[string]map[string]map[string]string{} // type -> field -> val -> name
	core.FuncDecls(pk, func(_ *ast.File, fd *ast.FuncDecl) {
		rn := core.RecvTypeName(pk.TypesInfo, fd)
		if views[rn] == nil {
			return
		}
		probe := &layoutCtx{pk: pk, info: pk.TypesInfo, mode: mode, soNames: lc.soNames}
		tmp := &opViews{}
		probe.extract(tmp, fd)
		for f, vals := range probe.found {
			if fams[rn] == nil {
				fams[rn] = map[string]map[string]string{}
			}
			if fams[rn][f] == nil {
				fams[rn][f] = map[string]string{}
			}
			for v, n := range vals {
				fams[rn][f][v] = n
			}
		}
	})
	for rn, fields := range fams {
		// a single selector field per family in this repository (opType)
		var fnames []string
		for f := range fields {
			fnames = append(fnames, f)
		}
		sort.Strings(fnames)
		f := fnames[0]
		base := views[rn]
		delete(views, rn)
		for val, cname := range fields[f] {
			vlc := &layoutCtx{pk: pk, info: pk.TypesInfo, mode: mode, soNames: lc.soNames, variantField: f, variantVal: val}
			v := &opViews{name: rn + "/" + cname, opName: base.opName}
			core.FuncDecls(pk, func(_ *ast.File, fd *ast.FuncDecl) {
				if core.RecvTypeName(pk.TypesInfo, fd) == rn {
					vlc.extract(v, fd)
				}
			})
			views[v.name] = v
		}
	}
	var names []string
	for n := range views {
		names = append(names, n)
	}
	sort.Strings(names)
	return views, names
}

var _ = strconv.Itoa
