#!/bin/bash
# confirm_seed.sh <seed-worktree-dir> : re-confirms a sub-agent's change independently, in a fresh scratch
# worktree of /repo HEAD: the patch applies, the module builds, the pinned suite still passes, and the
# demonstration fails with the change and passes without it. Prints a one-line verdict.
SRC=$(readlink -f "$1")
export GOFLAGS=-mod=mod GOPROXY=off GOSUMDB=off GOTOOLCHAIN=local
WT=$(mktemp -d /tmp/bmverif-confirm.XXXXXX)
git -C /repo worktree add --detach "$WT" HEAD >/dev/null 2>&1 || { echo "worktree failed"; exit 2; }
cleanup() { git -C /repo worktree remove --force "$WT" >/dev/null 2>&1; }
trap cleanup EXIT
DEMO=$(python3 -c "import json;print(json.load(open('$SRC/meta.json'))['demo_cmd'])")
# copy the demonstration files (everything untracked in the seed dir that is not a deliverable)
(cd "$SRC" && git ls-files --others --exclude-standard | grep -v -E '^(patch.diff|meta.json|PROPERTY.txt|FOREIGN|x.diff|.*\.bak$|\.tests_|pkg/bmanalysis/test.ipynb|pkg/bmserialize/serialize.v|pkg/bmstack/stack)' ) > "$WT/.demo_files"
while read -r f; do mkdir -p "$WT/$(dirname "$f")"; cp "$SRC/$f" "$WT/$f"; done < "$WT/.demo_files"
cd "$WT"
echo "demo files: $(tr '\n' ' ' < .demo_files)"
# 1. without the change the demo passes
if ! (eval "$DEMO") > .demo_without.log 2>&1; then echo "VERDICT: demo FAILS WITHOUT the change (unexpected)"; tail -5 .demo_without.log; exit 1; fi
# 2. apply
if ! git apply "$SRC/patch.diff" 2>/dev/null && ! git apply -3 "$SRC/patch.diff" 2>/dev/null; then echo "VERDICT: patch does not apply to HEAD"; exit 1; fi
# 3. build (ignoring the two packages that never build here)
if ! go build $(go list -f "{{if .GoFiles}}{{.ImportPath}}{{end}}" ./... 2>/dev/null | grep -v -E "melbond|brvgasdl") > .build.log 2>&1; then echo "VERDICT: does not build"; tail -5 .build.log; exit 1; fi
# 4. demo fails with the change
if (eval "$DEMO") > .demo_with.log 2>&1; then echo "VERDICT: demo PASSES WITH the change (not a demonstration)"; exit 1; fi
# 5. pinned suite (remove the demo so that it does not count)
while read -r f; do rm -f "$WT/$f"; done < "$WT/.demo_files"
if ! /verif/scripts/baseline.sh "$WT" > .baseline.log 2>&1; then echo "VERDICT: pinned suite FAILS with the change"; tail -5 .baseline.log; exit 1; fi
echo "VERDICT: confirmed ($(tail -1 .baseline.log)); demo fails with the change: $(grep -m1 -E 'FAIL|ILL-FORMED|panic' .demo_with.log | cut -c1-160)"
