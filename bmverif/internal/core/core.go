// Package core is the shared skeleton of the bmverif static checkers: run
// context, obligation bookkeeping, known-findings matching, floors, evidence
// and replay files.
package core

import (
	"encoding/json"
	"fmt"
	"os"
	"path/filepath"
	"sort"
	"strconv"
	"strings"
	"time"
)

// Status of one obligation (one rule instance on one construct).
type Status string

const (
	Discharged Status = "discharged"
	Violated   Status = "violated"
	Undecided  Status = "undecided"
	Info       Status = "info"
)

// Obligation is one rule instance. Instance keys name rule+construct and never
// contain line numbers, so that known findings survive unrelated edits.
type Obligation struct {
	Rule     string   `json:"rule"`
	Instance string   `json:"instance"`
	Pos      string   `json:"pos,omitempty"`
	Func     string   `json:"func,omitempty"`
	Status   Status   `json:"status"`
	Detail   string   `json:"detail,omitempty"`
	Path     []string `json:"path,omitempty"`
	Known    bool     `json:"known_finding,omitempty"`
}

// Finding is one entry of known_findings.json.
type Finding struct {
	Property  string `json:"property"`
	Rule      string `json:"rule"`
	Instance  string `json:"instance"`
	WhatFails string `json:"what_fails"`
	Witness   string `json:"witness"`
}

type FindingsFile struct {
	Comment string    `json:"comment"`
	Known   []Finding `json:"known"`
	Fixed   []string  `json:"fixed"`
}

// Run is the state of one `check <id>` invocation.
type Run struct {
	Prop     string
	Tier     string
	Seed     int
	Repo     string // root of the tree under analysis (default /repo)
	VerifDir string
	start    time.Time

	Obl         []Obligation
	counts      map[string]int
	countOrder  []string
	Assumptions []string
	Explanation string
	Technique   string
	Trusted     []string
	Extra       map[string]any
	fatal       []string
}

func NewRun(prop, tier string) *Run {
	r := &Run{Prop: prop, Tier: tier, start: time.Now(), counts: map[string]int{}, Extra: map[string]any{}}
	r.Repo = os.Getenv("BMVERIF_REPO")
	if r.Repo == "" {
		r.Repo = "/repo"
	}
	r.VerifDir = os.Getenv("BMVERIF_DIR")
	if r.VerifDir == "" {
		r.VerifDir = "/verif"
	}
	if s := os.Getenv("VERIF_SEED"); s != "" {
		r.Seed, _ = strconv.Atoi(s)
	}
	return r
}

// evidenceDir is /verif/evidence unless BMVERIF_EVIDENCE redirects it (used when the
// checks are pointed at a scratch copy, so that the committed evidence is not disturbed).
func (r *Run) evidenceDir() string {
	if d := os.Getenv("BMVERIF_EVIDENCE"); d != "" {
		return d
	}
	return filepath.Join(r.VerifDir, "evidence")
}

// Rel makes a position relative to the repo root ("pkg/x/y.go:12").
func (r *Run) Rel(pos string) string {
	pos = strings.TrimPrefix(pos, r.Repo+"/")
	return pos
}

func (r *Run) add(o Obligation) { o.Pos = r.Rel(o.Pos); r.Obl = append(r.Obl, o) }

func (r *Run) OK(rule, instance, pos, detail string) {
	r.add(Obligation{Rule: rule, Instance: instance, Pos: pos, Status: Discharged, Detail: detail})
}
func (r *Run) Violation(rule, instance, pos, detail string, path ...string) {
	r.add(Obligation{Rule: rule, Instance: instance, Pos: pos, Status: Violated, Detail: detail, Path: path})
}
func (r *Run) Undecided(rule, instance, pos, detail string) {
	r.add(Obligation{Rule: rule, Instance: instance, Pos: pos, Status: Undecided, Detail: detail})
}
func (r *Run) Note(rule, instance, pos, detail string) {
	r.add(Obligation{Rule: rule, Instance: instance, Pos: pos, Status: Info, Detail: detail})
}

// Check records OK or Violation depending on cond.
func (r *Run) Check(cond bool, rule, instance, pos, okDetail, badDetail string) {
	if cond {
		r.OK(rule, instance, pos, okDetail)
	} else {
		r.Violation(rule, instance, pos, badDetail)
	}
}

// Count records a population size (functions analysed, call sites, ...).
func (r *Run) Count(name string, n int) {
	if _, ok := r.counts[name]; !ok {
		r.countOrder = append(r.countOrder, name)
	}
	r.counts[name] += n
}
func (r *Run) GetCount(name string) int { return r.counts[name] }

// Fatal records a reason why the analysis could not be carried out (exit 2).
func (r *Run) Fatal(format string, a ...any) {
	r.fatal = append(r.fatal, fmt.Sprintf(format, a...))
}

// FatalCount is the number of fatal conditions recorded so far.
func (r *Run) FatalCount() int { return len(r.fatal) }

func (r *Run) loadFindings() FindingsFile {
	var ff FindingsFile
	b, err := os.ReadFile(filepath.Join(r.VerifDir, "known_findings.json"))
	if err != nil {
		return ff
	}
	if err := json.Unmarshal(b, &ff); err != nil {
		r.Fatal("known_findings.json does not parse: %v", err)
	}
	return ff
}

func (r *Run) loadFloors() map[string]map[string]int {
	m := map[string]map[string]int{}
	b, err := os.ReadFile(filepath.Join(r.VerifDir, "floors.json"))
	if err != nil {
		return m
	}
	if err := json.Unmarshal(b, &m); err != nil {
		r.Fatal("floors.json does not parse: %v", err)
	}
	return m
}

// Finish prints the report, writes evidence and replay files and returns the
// process exit code.
func (r *Run) Finish() int {
	// floors: a rule that matches fewer instances than were confirmed by hand
	// on the pinned tree fails (no vacuous pass).
	floors := r.loadFloors()[r.Prop]
	fnames := make([]string, 0, len(floors))
	for k := range floors {
		fnames = append(fnames, k)
	}
	sort.Strings(fnames)
	for _, k := range fnames {
		if r.Tier == "quick" && strings.HasPrefix(k, "thorough:") {
			continue
		}
		name := strings.TrimPrefix(k, "thorough:")
		if got := r.counts[name]; got < floors[k] {
			r.Violation("FLOOR", r.Prop+"/FLOOR:"+name, "", fmt.Sprintf("population %q has %d instances, below the floor %d confirmed on the pinned tree: the rule lost sight of the code it is about", name, got, floors[k]))
		} else {
			r.OK("FLOOR", r.Prop+"/FLOOR:"+name, "", fmt.Sprintf("%d >= floor %d", got, floors[k]))
		}
	}

	ff := r.loadFindings()
	known := map[string]Finding{}
	for _, f := range ff.Known {
		if f.Property == r.Prop {
			known[f.Instance] = f
		}
	}

	sort.SliceStable(r.Obl, func(i, j int) bool {
		a, b := r.Obl[i], r.Obl[j]
		if a.Rule != b.Rule {
			return a.Rule < b.Rule
		}
		if a.Instance != b.Instance {
			return a.Instance < b.Instance
		}
		return posLess(a.Pos, b.Pos)
	})

	var nDis, nViol, nKnown, nUndec, nInfo int
	replayDir := filepath.Join(r.evidenceDir(), "replay")
	os.MkdirAll(replayDir, 0o755)
	// remove stale replay files of this property
	if old, _ := filepath.Glob(filepath.Join(replayDir, r.Prop+"-*.json")); old != nil {
		for _, f := range old {
			os.Remove(f)
		}
	}
	for k, n := range r.countOrder {
		_ = k
		fmt.Printf("analysed %s=%d\n", n, r.counts[n])
	}
	seenKnown := map[string]bool{}
	var lines []string
	nreplay := 0
	for i := range r.Obl {
		o := &r.Obl[i]
		switch o.Status {
		case Discharged:
			nDis++
		case Info:
			nInfo++
		case Violated, Undecided:
			if f, ok := known[o.Instance]; ok && o.Status == Violated {
				o.Known = true
				nKnown++
				if !seenKnown[o.Instance] {
					seenKnown[o.Instance] = true
					lines = append(lines, fmt.Sprintf("KNOWN-FINDING: property=%s %s: %s [%s]", r.Prop, o.Instance, f.WhatFails, o.Pos))
				}
				continue
			}
			if o.Status == Undecided {
				nUndec++
			} else {
				nViol++
			}
			nreplay++
			rp := filepath.Join(replayDir, fmt.Sprintf("%s-%d.json", r.Prop, nreplay))
			b, _ := json.MarshalIndent(map[string]any{"property": r.Prop, "tier": r.Tier, "obligation": o, "repo": r.Repo}, "", " ")
			os.WriteFile(rp, append(b, '\n'), 0o644)
			fmt.Printf("%s %s %s %s: %s\n", strings.ToUpper(string(o.Status)), o.Rule, o.Instance, o.Pos, o.Detail)
			for _, p := range o.Path {
				fmt.Printf("    via %s\n", p)
			}
			lines = append(lines, fmt.Sprintf("VIOLATION property=%s replay=%s", r.Prop, rp))
		}
	}
	for _, l := range lines {
		fmt.Println(l)
	}
	// listed findings that no longer reproduce are reported (not a failure: the
	// defect may have been repaired), so the list can be pruned.
	var stale []string
	for k := range known {
		if !seenKnown[k] {
			stale = append(stale, k)
		}
	}
	sort.Strings(stale)
	for _, k := range stale {
		fmt.Printf("note: listed finding no longer reproduces: %s\n", k)
	}

	total := nDis + nViol + nKnown + nUndec
	fmt.Printf("summary property=%s tier=%s obligations=%d discharged=%d known_findings=%d violations=%d undecided=%d info=%d\n",
		r.Prop, r.Tier, total, nDis, nKnown, nViol, nUndec, nInfo)

	exit := 0
	if nViol+nUndec > 0 {
		exit = 1
	}
	if len(r.fatal) > 0 {
		for _, f := range r.fatal {
			fmt.Printf("FATAL: %s\n", f)
		}
		exit = 2
	}
	r.writeEvidence(total, nDis, nKnown, nViol, nUndec, nInfo, stale)
	return exit
}

func posLess(a, b string) bool {
	fa, la := splitPos(a)
	fb, lb := splitPos(b)
	if fa != fb {
		return fa < fb
	}
	return la < lb
}

func splitPos(p string) (string, int) {
	parts := strings.Split(p, ":")
	if len(parts) >= 2 {
		n, _ := strconv.Atoi(parts[1])
		return parts[0], n
	}
	return p, 0
}

func (r *Run) writeEvidence(total, nDis, nKnown, nViol, nUndec, nInfo int, stale []string) {
	// samples: every non-discharged obligation, plus up to 12 discharged ones
	// spread over the rules, so a reader can see what an obligation looks like.
	var samples []Obligation
	perRule := map[string]int{}
	for _, o := range r.Obl {
		if o.Status != Discharged && o.Status != Info {
			samples = append(samples, o)
		}
	}
	for _, o := range r.Obl {
		if o.Status == Discharged && perRule[o.Rule] < 3 && len(samples) < 60 {
			perRule[o.Rule]++
			samples = append(samples, o)
		}
	}
	for _, o := range r.Obl {
		if o.Status == Info && perRule["info:"+o.Rule] < 5 {
			perRule["info:"+o.Rule]++
			samples = append(samples, o)
		}
	}
	ruleCount := map[string]int{}
	for _, o := range r.Obl {
		if o.Status != Info {
			ruleCount[o.Rule]++
		}
	}
	cov := map[string]any{
		"obligations":          total,
		"discharged":           nDis,
		"known_findings":       nKnown,
		"violations":           nViol,
		"undecided":            nUndec,
		"info_records":         nInfo,
		"rule_instances":       ruleCount,
		"populations":          r.counts,
		"samples":              samples,
		"explanation":          r.Explanation,
		"checker_cmd":          fmt.Sprintf("./bin/bmverif check %s --tier %s", r.Prop, r.Tier),
		"trusted_base":         append([]string{"go/parser, go/types, golang.org/x/tools v0.29.0 (go/packages, go/ssa, go/cfg, callgraph)", "the bmverif rule implementation itself"}, r.Trusted...),
		"exhaustive":           true,
		"repo":                 r.Repo,
		"stale_known_findings": stale,
	}
	for k, v := range r.Extra {
		cov[k] = v
	}
	if r.Assumptions == nil {
		r.Assumptions = []string{}
	}
	ev := map[string]any{
		"property_id": r.Prop,
		"tier":        r.Tier,
		"seed":        r.Seed,
		"level":       "other",
		"coverage":    cov,
		"assumptions": r.Assumptions,
		"wall_s":      float64(int(time.Since(r.start).Seconds()*100)) / 100,
		"violations":  nViol + nUndec,
	}
	b, err := json.MarshalIndent(ev, "", " ")
	if err != nil {
		fmt.Fprintln(os.Stderr, "evidence marshal:", err)
		return
	}
	dir := r.evidenceDir()
	os.MkdirAll(dir, 0o755)
	os.WriteFile(filepath.Join(dir, r.Prop+".json"), append(b, '\n'), 0o644)
}
