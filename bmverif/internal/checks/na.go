package checks

func init() {
	NotApplicable["C06"] = "metamorphic equality of computed values across all partitions of a fragment DAG; the anchors (fragmentComposer, NextResource/ReplaceArg) are value-level register renaming with no pairing/ownership/table structure whose violation is visible without executing the composed program (DESIGN.md §5)"
	NotApplicable["C13"] = "refinement of the reachable states of a generated sequential circuit under all handshake interleavings; the generator is one text/template constant and nothing about occupancy arithmetic, arbitration or ack timing is decidable from the template's shape by static analysis of the Go source (DESIGN.md §5)"
}
