package checks

import (
	"go/ast"
	"go/token"

	"bmverif/internal/core"
)

// acceptorChecksLength: Arch.Assembler_process_line compares len(<word>) with Max_word()
// (== / !=) somewhere on the path that returns the assembled word.
func acceptorChecksLength(prog *core.Program) bool {
	pk := prog.Pkg("pkg/procbuilder")
	found := false
	core.FuncDecls(pk, func(_ *ast.File, fd *ast.FuncDecl) {
		if fd.Name.Name != "Assembler_process_line" {
			return
		}
		ast.Inspect(fd.Body, func(n ast.Node) bool {
			be, ok := n.(*ast.BinaryExpr)
			if !ok || (be.Op != token.NEQ && be.Op != token.EQL && be.Op != token.GTR && be.Op != token.LSS) {
				return true
			}
			isLen := func(e ast.Expr) bool {
				c, ok := ast.Unparen(e).(*ast.CallExpr)
				if !ok {
					return false
				}
				id, ok := c.Fun.(*ast.Ident)
				return ok && id.Name == "len"
			}
			isMax := func(e ast.Expr) bool {
				found := false
				ast.Inspect(e, func(m ast.Node) bool {
					if c, ok := m.(*ast.CallExpr); ok {
						if o := core.CalleeOf(pk.TypesInfo, c); o != nil && o.Name() == "Max_word" {
							found = true
						}
					}
					if id, ok := m.(*ast.Ident); ok {
						if o := pk.TypesInfo.ObjectOf(id); o != nil && (id.Name == "rom_word" || id.Name == "romWord" || id.Name == "maxWord") {
							found = true
						}
					}
					return !found
				})
				return found
			}
			if (isLen(be.X) && isMax(be.Y)) || (isLen(be.Y) && isMax(be.X)) {
				found = true
			}
			return true
		})
	})
	return found
}
