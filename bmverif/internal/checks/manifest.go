package checks

import (
	"encoding/json"
	"os"
	"sort"
)

// WriteManifest renders MANIFEST.json from the registry so that the claims, the
// techniques and the not-applicable list live next to the code that decides them.
func WriteManifest(path string, fixCommits []string) error {
	type lvl struct {
		Category  string `json:"category"`
		Text      string `json:"text"`
		DesignRef string `json:"design_ref,omitempty"`
	}
	type chk struct {
		PropertyID  string `json:"property_id"`
		QuickCmd    string `json:"quick_cmd"`
		ThoroughCmd string `json:"thorough_cmd"`
		Evidence    string `json:"evidence_file"`
		Replay      string `json:"replay_cmd_template"`
		Engine      string `json:"engine"`
		Level       lvl    `json:"level_claimed"`
		Note        string `json:"level_note"`
		Technique   string `json:"technique"`
	}
	var ids []string
	for id := range Registry {
		ids = append(ids, id)
	}
	sort.Strings(ids)
	var checks []chk
	for _, id := range ids {
		m := Metas[id]
		checks = append(checks, chk{
			PropertyID:  id,
			QuickCmd:    "./bin/bmverif check " + id + " --tier quick",
			ThoroughCmd: "./bin/bmverif check " + id + " --tier thorough",
			Evidence:    "/verif/evidence/" + id + ".json",
			Replay:      "./bin/bmverif explain {path}",
			Engine:      "bmverif",
			Level:       lvl{"other", m.Claim, m.DesignRef},
			Note:        m.Note,
			Technique:   m.Technique,
		})
	}
	type na struct {
		PropertyID string `json:"property_id"`
		Reason     string `json:"reason"`
	}
	var nas []na
	var naids []string
	for id := range NotApplicable {
		if _, claimed := Registry[id]; !claimed {
			naids = append(naids, id)
		}
	}
	sort.Strings(naids)
	for _, id := range naids {
		nas = append(nas, na{id, NotApplicable[id]})
	}
	env := "GOFLAGS=-mod=mod GOPROXY=off GOSUMDB=off GOTOOLCHAIN=local"
	man := map[string]any{
		"version":   1,
		"setup_cmd": "cd /verif/bmverif && env -u GOWORK " + env + " go build -o /verif/bin/bmverif ./cmd/bmverif",
		"hooks": map[string]any{
			"guard":            "verif",
			"enable":           "none needed: the checkers are static and read /repo's working tree; the build tag `verif` is reserved and unused (no hook was added to /repo)",
			"baseline_off_cmd": "/verif/scripts/baseline.sh /repo",
			"source_commits":   fixCommits,
			"add_only":         true,
		},
		"engines": []map[string]any{{
			"name": "bmverif", "path": "/verif/bmverif", "serves_properties": ids,
			"kind_free_text": "repository-specific static analysers over go/packages + go/types + go/ssa + go/cfg + call graphs (x/tools v0.29.0); nothing in /repo is executed",
		}},
		"checks":         checks,
		"not_applicable": nas,
		"notes":          "All claims are at level `other`: each check decides a named structural clause that is a necessary condition of the property (see DESIGN.md §2), never the behaviour itself. known_findings.json lists genuine defects that are recorded rather than repaired; `fixed:` entries there suppress nothing.",
	}
	b, err := json.MarshalIndent(man, "", " ")
	if err != nil {
		return err
	}
	return os.WriteFile(path, append(b, '\n'), 0o644)
}
