package checks

import (
	"go/ast"

	"bmverif/internal/core"
	"golang.org/x/tools/go/packages"
)

func init() {
	register("C02", checkC02)
	describe("C02", Meta{
		Technique: "index-space (units-of-measure) inference over the type-checked AST: every int used to index the bond tables, stored into Links or compared is given the index space of its definition (range key/value, len, lookup, Map_to-guarded Res_id/Ext_id) and must agree with the space the container is declared to use",
		Claim:     "Decides one structural clause of C02: both back-ends (VM.Step and the Verilog top-level generator) and every helper that walks Links / Internal_inputs / Internal_outputs use internal-input indices, internal-output indices, external-port indices and processor indices only in the tables of the matching space, and a Map_to case names an endpoint kind that can occur in the list being walked. A swapped Links index or a transfer guarded by the wrong endpoint kind is reported. Stream equality HDL vs. simulator, timing and the AND of received lines are not decided.",
		Note:      "Index spaces are declared per struct field in the checker (read off the data model's own comments); locals with two different definitions are ignored (no obligation). Flow-insensitive per function.",
		DesignRef: "DESIGN.md §2 C02",
	})
}

// the packages C02 is anchored in (both back-ends and the data model they walk)
var ikScope = []string{"pkg/bondmachine", "cmd/bondmachine"}

func checkC02(r *core.Run) {
	r.Explanation = "Decides the index-space clause of C02: in every function of the bond-graph packages, each index expression into Links / Internal_inputs(_regs, Valid, Recv) / Internal_outputs(...) / Inputs_regs / Outputs_regs / Processors and the per-processor port arrays, each value stored into Links and each comparison between two indices is checked to stay within one index space (II, IO, XIN, XOUT, PROC, PIN, POUT), with Bond.Res_id / Ext_id refined by the enclosing Map_to guard; a Map_to case must name an endpoint kind present in the list ranged over. " +
		"Does NOT decide: that HDL and simulator deliver the same streams, timing, the conjunction of received lines, positional port order of generated instances."
	prog := r.Load(core.LoadConfig{})
	if prog == nil {
		return
	}
	e := newIKEngine(r, prog, "C02")
	// simbox tables (C15) and topology editors (C10) are decided under their own property
	e.run(ikScope, func(pk *packages.Package, fd *ast.FuncDecl) bool {
		return !e.mentionsFieldOf(pk, fd, "pkg/bondmachine.SimDrive.", "pkg/bondmachine.SimReport.") && !e.storesTopology(pk, fd)
	})
}
