package core

import (
	"fmt"
	"go/ast"
	"go/token"
	"go/types"
	"os"
	"sort"
	"strings"

	"golang.org/x/tools/go/callgraph"
	"golang.org/x/tools/go/callgraph/cha"
	"golang.org/x/tools/go/callgraph/vta"
	"golang.org/x/tools/go/packages"
	"golang.org/x/tools/go/ssa"
	"golang.org/x/tools/go/ssa/ssautil"
)

const ModPath = "github.com/BondMachineHQ/BondMachine"

// Packages that do not type-check on the pinned tree in this sandbox
// (dependency-version mismatch, `cannot indirect groupsPI`); they anchor no
// property and are excluded by name.
var excluded = map[string]string{
	ModPath + "/pkg/melbond":        "does not type-check on the pinned tree (mel dependency mismatch)",
	ModPath + "/cmd/melbond":        "imports pkg/melbond",
	ModPath + "/pkg/brvga/brvgasdl": "cgo binding to SDL2, whose headers are not installed in this sandbox",
	ModPath + "/cmd/brvgasdl":       "imports pkg/brvga/brvgasdl",
}

// Program is a loaded view of the repository.
type Program struct {
	Fset   *token.FileSet
	Pkgs   []*packages.Package          // module packages, sorted by path
	ByPath map[string]*packages.Package // import path -> package (module packages only)
	All    []*packages.Package          // as returned by go/packages (roots)

	SSA     *ssa.Program
	SSAPkgs map[string]*ssa.Package
	cha     *callgraph.Graph
	vta     *callgraph.Graph
}

// LoadConfig selects build configuration.
type LoadConfig struct {
	GOARCH string
	GOOS   string
	Tags   string
	SSA    bool
}

// ShareLoads makes Load reuse, within one process, the Program loaded for the same configuration
// (the `check-all` command of the self-test scripts; single checks always load afresh).
var ShareLoads bool
var loadCache = map[string]*Program{}

// Load loads every package of the module from r.Repo's working tree.
func (r *Run) Load(cfg LoadConfig) *Program {
	if !ShareLoads {
		return r.load(cfg)
	}
	key := fmt.Sprintf("%s|%+v", r.Repo, cfg)
	if p, ok := loadCache[key]; ok {
		r.Count("packages_loaded", len(p.Pkgs))
		return p
	}
	nf := r.FatalCount()
	p := r.load(cfg)
	if p != nil && r.FatalCount() == nf {
		loadCache[key] = p
	}
	return p
}

func (r *Run) load(cfg LoadConfig) *Program {
	mode := packages.LoadSyntax
	if cfg.SSA {
		mode = packages.LoadAllSyntax
	}
	env := append(os.Environ(), "GOFLAGS=-mod=mod", "GOPROXY=off", "GOSUMDB=off", "GOTOOLCHAIN=local", "GOWORK=off")
	if cfg.GOARCH != "" {
		env = append(env, "GOARCH="+cfg.GOARCH)
	}
	if cfg.GOOS != "" {
		env = append(env, "GOOS="+cfg.GOOS)
	}
	pc := &packages.Config{Mode: mode, Dir: r.Repo, Tests: false, Env: env}
	if cfg.Tags != "" {
		pc.BuildFlags = []string{"-tags=" + cfg.Tags}
	}
	if os.Getenv("BMVERIF_TRIMPATH") != "" {
		// used by the self-test scripts only: with -trimpath the build cache entries of the packages
		// a scratch worktree did not change are shared with /repo's (export data of non-module
		// dependencies; module packages are always type-checked from source)
		pc.BuildFlags = append(pc.BuildFlags, "-trimpath")
	}
	pkgs, err := packages.Load(pc, "./...")
	if err != nil {
		r.Fatal("go/packages load failed: %v", err)
		return nil
	}
	p := &Program{ByPath: map[string]*packages.Package{}, All: pkgs}
	for _, pk := range pkgs {
		if p.Fset == nil {
			p.Fset = pk.Fset
		}
		if _, ex := excluded[pk.PkgPath]; ex {
			continue
		}
		if !strings.HasPrefix(pk.PkgPath, ModPath) {
			continue
		}
		if len(pk.Errors) > 0 || pk.IllTyped {
			msg := "ill-typed"
			if len(pk.Errors) > 0 {
				msg = pk.Errors[0].Error()
			}
			r.Fatal("package %s does not type-check: %s", pk.PkgPath, msg)
			continue
		}
		p.Pkgs = append(p.Pkgs, pk)
		p.ByPath[pk.PkgPath] = pk
	}
	sort.Slice(p.Pkgs, func(i, j int) bool { return p.Pkgs[i].PkgPath < p.Pkgs[j].PkgPath })
	if len(p.Pkgs) == 0 {
		r.Fatal("no packages loaded from %s", r.Repo)
		return nil
	}
	r.Count("packages_loaded", len(p.Pkgs))
	if cfg.SSA {
		// build SSA only for well-typed roots (and all their deps)
		var good []*packages.Package
		for _, pk := range pkgs {
			if _, ex := excluded[pk.PkgPath]; !ex {
				good = append(good, pk)
			}
		}
		prog, spkgs := ssautil.AllPackages(good, ssa.InstantiateGenerics)
		prog.Build()
		p.SSA = prog
		p.SSAPkgs = map[string]*ssa.Package{}
		for _, sp := range spkgs {
			if sp != nil {
				p.SSAPkgs[sp.Pkg.Path()] = sp
			}
		}
	}
	return p
}

// Pkg returns the module package with the given module-relative path ("pkg/basm").
func (p *Program) Pkg(rel string) *packages.Package { return p.ByPath[ModPath+"/"+rel] }

// SSAPkg returns the SSA package with the given module-relative path.
func (p *Program) SSAPkg(rel string) *ssa.Package { return p.SSAPkgs[ModPath+"/"+rel] }

func (p *Program) Pos(pos token.Pos) string {
	if !pos.IsValid() {
		return ""
	}
	ps := p.Fset.Position(pos)
	return fmt.Sprintf("%s:%d", ps.Filename, ps.Line)
}

// CHA returns the class-hierarchy call graph (over-approximate).
func (p *Program) CHA() *callgraph.Graph {
	if p.cha == nil {
		p.cha = cha.CallGraph(p.SSA)
	}
	return p.cha
}

// VTA returns the VTA-refined call graph.
func (p *Program) VTA() *callgraph.Graph {
	if p.vta == nil {
		p.vta = vta.CallGraph(ssautil.AllFunctions(p.SSA), p.CHA())
	}
	return p.vta
}

// InModule reports whether the SSA function belongs to the analysed module.
func InModule(fn *ssa.Function) bool {
	if fn == nil {
		return false
	}
	if fn.Pkg != nil {
		return strings.HasPrefix(fn.Pkg.Pkg.Path(), ModPath)
	}
	if o := fn.Object(); o != nil && o.Pkg() != nil {
		return strings.HasPrefix(o.Pkg().Path(), ModPath)
	}
	if fn.Parent() != nil {
		return InModule(fn.Parent())
	}
	if fn.Origin() != nil {
		return InModule(fn.Origin())
	}
	return false
}

// FuncDecls iterates over every function declaration with a body in pkg.
func FuncDecls(pk *packages.Package, f func(file *ast.File, fd *ast.FuncDecl)) {
	for _, file := range pk.Syntax {
		for _, d := range file.Decls {
			if fd, ok := d.(*ast.FuncDecl); ok && fd.Body != nil {
				f(file, fd)
			}
		}
	}
}

// RecvTypeName returns the receiver's named type ("" for plain functions).
func RecvTypeName(info *types.Info, fd *ast.FuncDecl) string {
	if fd.Recv == nil || len(fd.Recv.List) == 0 {
		return ""
	}
	t := info.TypeOf(fd.Recv.List[0].Type)
	if t == nil {
		return ""
	}
	if pt, ok := t.(*types.Pointer); ok {
		t = pt.Elem()
	}
	if n, ok := t.(*types.Named); ok {
		return n.Obj().Name()
	}
	return ""
}

// FuncKey gives a stable, line-free name for a declaration: "pkg/x.Recv.Name".
func FuncKey(pk *packages.Package, fd *ast.FuncDecl) string {
	rel := strings.TrimPrefix(pk.PkgPath, ModPath+"/")
	if rn := RecvTypeName(pk.TypesInfo, fd); rn != "" {
		return rel + "." + rn + "." + fd.Name.Name
	}
	return rel + "." + fd.Name.Name
}

// SSAFuncKey is FuncKey for SSA functions.
func SSAFuncKey(fn *ssa.Function) string {
	if fn == nil {
		return "<nil>"
	}
	if fn.Parent() != nil {
		return SSAFuncKey(fn.Parent()) + "$" + strings.TrimPrefix(fn.Name(), fn.Parent().Name()+"$")
	}
	pkg := ""
	if fn.Pkg != nil {
		pkg = strings.TrimPrefix(fn.Pkg.Pkg.Path(), ModPath+"/")
	} else if o := fn.Object(); o != nil && o.Pkg() != nil {
		pkg = strings.TrimPrefix(o.Pkg().Path(), ModPath+"/")
	}
	if recv := fn.Signature.Recv(); recv != nil {
		t := recv.Type()
		if pt, ok := t.(*types.Pointer); ok {
			t = pt.Elem()
		}
		if n, ok := t.(*types.Named); ok {
			return pkg + "." + n.Obj().Name() + "." + fn.Name()
		}
	}
	return pkg + "." + fn.Name()
}

// FieldOf resolves a selector expression to the struct field it denotes, or nil.
func FieldOf(info *types.Info, e ast.Expr) *types.Var {
	sel, ok := ast.Unparen(e).(*ast.SelectorExpr)
	if !ok {
		return nil
	}
	if s, ok := info.Selections[sel]; ok && s.Kind() == types.FieldVal {
		if v, ok := s.Obj().(*types.Var); ok {
			return v
		}
	}
	if v, ok := info.Uses[sel.Sel].(*types.Var); ok && v.IsField() {
		return v
	}
	return nil
}

// IsField reports whether v is the field `name` declared in module package rel.
func IsField(v *types.Var, rel, name string) bool {
	return v != nil && v.IsField() && v.Name() == name && v.Pkg() != nil && v.Pkg().Path() == ModPath+"/"+rel
}

// CalleeOf resolves the static callee object of a call (function or method), or nil.
func CalleeOf(info *types.Info, call *ast.CallExpr) types.Object {
	fun := ast.Unparen(call.Fun)
	switch f := fun.(type) {
	case *ast.Ident:
		return info.Uses[f]
	case *ast.SelectorExpr:
		if s, ok := info.Selections[f]; ok {
			return s.Obj()
		}
		return info.Uses[f.Sel]
	}
	return nil
}

// IsFunc reports whether obj is function/method `name` of package path pkgPath
// (full import path, e.g. "strconv").
func IsFunc(obj types.Object, pkgPath, name string) bool {
	f, ok := obj.(*types.Func)
	return ok && f.Name() == name && f.Pkg() != nil && f.Pkg().Path() == pkgPath
}

// IsModFunc is IsFunc for a module-relative package.
func IsModFunc(obj types.Object, rel, name string) bool {
	return IsFunc(obj, ModPath+"/"+rel, name)
}
