package checks

import (
	"fmt"
	"go/ast"
	"go/token"
	"go/types"
	"sort"
	"strings"

	"bmverif/internal/core"
	"golang.org/x/tools/go/packages"
)

// C12 — termination side of the bondgo compiler: the three goroutines (visitor,
// Var_assigner, Usage_Monitor) talk over unbuffered channels.
//   J1 join order in every launcher (SSA, see chanproto.go)
//   J2 the allocator replies exactly once per request on every path of one iteration
//   J3 every client request is followed by exactly one answer receive before the next
//      request / return, and no protocol-re-entering call happens in between
//   J4 every launched compiler goroutine has an exit and its exit message is sent

func init() {
	register("C12", checkC12)
	describe("C12", Meta{
		Technique: "abstract interpretation of the allocator's server loop and of every client function (reply-exactly-once / request-answer pairing, path-sensitive in constant boolean flags), plus dominance of joins over exit requests on the launchers' SSA control-flow graphs",
		Claim:     "Decides the structural termination clauses of C12: the variable allocator answers every request exactly once on every path that continues its loop (or panics/exits), every client pairs each request with one answer, launchers join a goroutine before telling the goroutine it still sends to to exit, and every compiler goroutine has an exit that is requested on all normal paths. A goroutine launched by a compiler goroutine that sends to another one's channel is joined by its parent before the parent reports completion (nested JOINORDER), and a helper that answers on the allocator's behalf sends the same number of answers on every path. CELLLIFE: after a client has released a cell (REQ_REMOVE) it does not read the variable holding it, nor a local list into which it copied it, again — emitted code would use a register the allocator may already have handed to the next expression. Necessary conditions for 'compilation always terminates'; compiler correctness (emitted code vs. Go semantics) is not decided.",
		Note:      "Channels are unbuffered (checked: make(chan T) without capacity at the launch sites). Server loops and their request/response channels are a table in the checker confirmed by reading (Var_assigner: req, resp); a server loop that disappears is reported, not skipped. Paths are distinguished at switch-case granularity.",
		DesignRef: "DESIGN.md §2 C12",
	})
}

// serverLoops: request/response server loops, confirmed by reading.
var c12Servers = []struct {
	pkg, recv, fn string
	reqParam      string
	respParam     string
}{
	{"pkg/bondgo", "BondgoRuninfo", "Var_assigner", "req", "resp"},
}

func checkC12(r *core.Run) {
	r.Explanation = "Decides termination-side clauses of C12 by static analysis: J2 reply-exactly-once in the allocator's server loop (every path through one iteration that continues the loop sends exactly one answer; paths that panic or leave the loop are exempt), J3 request/answer pairing in every client function of pkg/bondgo and cmd/bondgo, J1 join order and J4 exit requests in every function that launches the compiler goroutines. " +
		"Does NOT decide: that the emitted assembly computes what the Go source computes, register allocation, message-order effects on requirements."
	r.Assumptions = []string{"all compiler channels are unbuffered", "a request is answered by the allocator goroutine only (single server per channel)"}
	prog := r.Load(core.LoadConfig{SSA: true})
	if prog == nil {
		return
	}
	c12ReplyOnce(r, prog)
	c12ClientPairing(r, prog)
	c12CellLife(r, prog)
	chanJoinOrder(r, prog, "C12", []string{"pkg/bondgo", "cmd/bondgo"})
}

func chanObj(info *types.Info, e ast.Expr) types.Object {
	switch x := ast.Unparen(e).(type) {
	case *ast.Ident:
		return info.ObjectOf(x)
	case *ast.SelectorExpr:
		if f := core.FieldOf(info, x); f != nil {
			return f
		}
	}
	return nil
}

func noReturnCall(info *types.Info) func(call *ast.CallExpr) bool {
	return func(call *ast.CallExpr) bool {
		switch f := ast.Unparen(call.Fun).(type) {
		case *ast.Ident:
			if f.Name == "panic" {
				_, ok := info.Uses[f].(*types.Builtin)
				return ok
			}
		case *ast.SelectorExpr:
			if obj := info.Uses[f.Sel]; obj != nil && obj.Pkg() != nil {
				p, n := obj.Pkg().Path(), obj.Name()
				return (p == "os" && n == "Exit") || (p == "log" && strings.HasPrefix(n, "Fatal")) || (p == "log" && strings.HasPrefix(n, "Panic"))
			}
		}
		return false
	}
}

// c12DispatchGaps: no-reply paths of the allocator that no client request can take, confirmed by
// reading the clients (one path, one reason). Any other no-reply path is a violation.
var c12DispatchGaps = map[string]string{
	"pkg/bondgo.BondgoRuninfo.Var_assigner:REQ_NEW/CHANNEL/noelse":    "the only REQ_NEW/CHANNEL requests (visiter.go, var declarations and go statements) are guarded by the same Same_Type(Basic_chantype | chan bool) tests the allocator dispatches on",
	"pkg/bondgo.BondgoRuninfo.Var_assigner:REQ_ATTACH/CHANNEL/noelse": "REQ_ATTACH is only sent for cells whose Vtype passed the same Same_Type(Basic_chantype) test (visiter.go go-statement lowering); the allocator's single if has no second type to miss",
	"pkg/bondgo.BondgoRuninfo.Var_assigner:REQ_ATTACH/nocase":         "REQ_ATTACH is only sent for channel cells (cells answered by a REQ_NEW/CHANNEL or typed chan): Procobjtype is CHANNEL",
}

// switchExhaustive decides whether a default-less switch covers every value its tag can take:
// (i) the tag is compared against constants of one const group and every member of the group
// has a case, or (ii) the tag is a struct field and the cases cover every constant ever stored
// into that field anywhere in the module (and nothing non-constant is stored other than copies).
func switchExhaustive(prog *core.Program, pk *packages.Package, sw *ast.SwitchStmt) bool {
	info := pk.TypesInfo
	if sw.Tag == nil {
		return false
	}
	caseVals := map[string]bool{}
	var caseConsts []*types.Const
	for _, c := range sw.Body.List {
		for _, e := range c.(*ast.CaseClause).List {
			tv, ok := info.Types[e]
			if !ok || tv.Value == nil {
				return false
			}
			caseVals[tv.Value.ExactString()] = true
			switch x := ast.Unparen(e).(type) {
			case *ast.Ident:
				if k, ok := info.Uses[x].(*types.Const); ok {
					caseConsts = append(caseConsts, k)
				}
			case *ast.SelectorExpr:
				if k, ok := info.Uses[x.Sel].(*types.Const); ok {
					caseConsts = append(caseConsts, k)
				}
			}
		}
	}
	// (ii) field value set
	if f := core.FieldOf(info, sw.Tag); f != nil {
		if vals, ok := fieldConstValues(prog, f); ok {
			all := true
			for v := range vals {
				if !caseVals[v] {
					all = false
				}
			}
			if all && len(vals) > 0 {
				return true
			}
		}
	}
	// (i) const group of the first case constant
	if len(caseConsts) == 0 {
		return false
	}
	group := constGroup(prog, caseConsts[0])
	if len(group) == 0 {
		return false
	}
	for _, g := range group {
		if !caseVals[g.Val().ExactString()] {
			return false
		}
	}
	// the tag must only ever hold members of that group: accept when the tag is a local copied
	// from a field whose stored constants all belong to the group
	return tagFromGroup(prog, pk, sw.Tag, group)
}

func constGroup(prog *core.Program, k *types.Const) []*types.Const {
	for _, pk := range prog.Pkgs {
		if pk.Types != k.Pkg() {
			continue
		}
		for _, f := range pk.Syntax {
			for _, d := range f.Decls {
				gd, ok := d.(*ast.GenDecl)
				if !ok || gd.Tok != token.CONST || k.Pos() < gd.Pos() || k.Pos() > gd.End() {
					continue
				}
				var out []*types.Const
				for _, sp := range gd.Specs {
					for _, n := range sp.(*ast.ValueSpec).Names {
						if c, ok := pk.TypesInfo.Defs[n].(*types.Const); ok && n.Name != "_" {
							out = append(out, c)
						}
					}
				}
				return out
			}
		}
	}
	return nil
}

// tagFromGroup: the switch tag is (a local initialised from) a struct field into which only
// constants of the group are ever stored.
func tagFromGroup(prog *core.Program, pk *packages.Package, tag ast.Expr, group []*types.Const) bool {
	info := pk.TypesInfo
	var f *types.Var
	if f = core.FieldOf(info, tag); f == nil {
		id, ok := ast.Unparen(tag).(*ast.Ident)
		if !ok {
			return false
		}
		obj := info.ObjectOf(id)
		// find `obj := x.F` (single definition)
		n := 0
		for _, file := range pk.Syntax {
			ast.Inspect(file, func(m ast.Node) bool {
				as, ok := m.(*ast.AssignStmt)
				if !ok {
					return true
				}
				for i, l := range as.Lhs {
					if lid, ok := l.(*ast.Ident); ok && info.ObjectOf(lid) == obj && len(as.Lhs) == len(as.Rhs) {
						n++
						f = core.FieldOf(info, as.Rhs[i])
					}
				}
				return true
			})
		}
		if n != 1 || f == nil {
			return false
		}
	}
	vals, ok := fieldConstValues(prog, f)
	if !ok {
		return false
	}
	gv := map[string]bool{}
	for _, g := range group {
		gv[g.Val().ExactString()] = true
	}
	for v := range vals {
		if !gv[v] {
			return false
		}
	}
	return true
}

var fieldValCache = map[*types.Var]map[string]bool{}
var fieldValOK = map[*types.Var]bool{}

// fieldConstValues collects every constant stored into field f anywhere in the module
// (composite literals, assignments). ok=false if a non-constant that is not a copy of the
// same field is stored.
func fieldConstValues(prog *core.Program, f *types.Var) (map[string]bool, bool) {
	if v, done := fieldValCache[f]; done {
		return v, fieldValOK[f]
	}
	vals := map[string]bool{}
	ok := true
	note := func(info *types.Info, e ast.Expr) {
		if tv, has := info.Types[e]; has && tv.Value != nil {
			vals[tv.Value.ExactString()] = true
			return
		}
		if core.FieldOf(info, e) == f {
			return // copy of the same field
		}
		ok = false
	}
	for _, pk := range prog.Pkgs {
		info := pk.TypesInfo
		for _, file := range pk.Syntax {
			ast.Inspect(file, func(m ast.Node) bool {
				switch x := m.(type) {
				case *ast.CompositeLit:
					t := info.TypeOf(x)
					if t == nil {
						return true
					}
					st, isSt := t.Underlying().(*types.Struct)
					if !isSt {
						return true
					}
					idx := -1
					for i := 0; i < st.NumFields(); i++ {
						if st.Field(i) == f {
							idx = i
						}
					}
					if idx < 0 {
						return true
					}
					keyed := len(x.Elts) > 0
					for _, el := range x.Elts {
						if _, isKV := el.(*ast.KeyValueExpr); !isKV {
							keyed = false
						}
					}
					if keyed {
						found := false
						for _, el := range x.Elts {
							kv := el.(*ast.KeyValueExpr)
							if id, isID := kv.Key.(*ast.Ident); isID && id.Name == f.Name() {
								note(info, kv.Value)
								found = true
							}
						}
						if !found {
							vals["0"] = true // zero value
						}
					} else if idx < len(x.Elts) {
						note(info, x.Elts[idx])
					} else {
						vals["0"] = true
					}
				case *ast.AssignStmt:
					for i, l := range x.Lhs {
						if core.FieldOf(info, l) == f {
							if len(x.Lhs) == len(x.Rhs) && x.Tok == token.ASSIGN {
								note(info, x.Rhs[i])
							} else {
								ok = false
							}
						}
					}
				case *ast.UnaryExpr:
					if x.Op == token.AND && core.FieldOf(info, x.X) == f {
						ok = false // address taken
					}
				}
				return true
			})
		}
	}
	fieldValCache[f], fieldValOK[f] = vals, ok
	return vals, ok
}

// ---- J2 ---------------------------------------------------------------------------------

func c12ReplyOnce(r *core.Run, prog *core.Program) {
	for _, sv := range c12Servers {
		pk := prog.Pkg(sv.pkg)
		key := sv.pkg + "." + sv.recv + "." + sv.fn
		if pk == nil {
			r.Undecided("C12/REPLYONCE", "C12/REPLYONCE:"+key, "", "package not loaded")
			continue
		}
		info := pk.TypesInfo
		var fdecl *ast.FuncDecl
		core.FuncDecls(pk, func(_ *ast.File, fd *ast.FuncDecl) {
			if fd.Name.Name == sv.fn && core.RecvTypeName(info, fd) == sv.recv {
				fdecl = fd
			}
		})
		if fdecl == nil {
			r.Undecided("C12/REPLYONCE", "C12/REPLYONCE:"+key, "", "server function not found: the request/response server moved; update the server table after reading the new code")
			continue
		}
		var reqO, respO types.Object
		for _, p := range fdecl.Type.Params.List {
			for _, n := range p.Names {
				if _, isChan := info.TypeOf(p.Type).Underlying().(*types.Chan); !isChan {
					continue
				}
				if n.Name == sv.reqParam {
					reqO = info.ObjectOf(n)
				}
				if n.Name == sv.respParam {
					respO = info.ObjectOf(n)
				}
			}
		}
		if reqO == nil || respO == nil {
			// fall back to positions: first two channel parameters
			var chans []types.Object
			for _, p := range fdecl.Type.Params.List {
				for _, n := range p.Names {
					if _, isChan := info.TypeOf(p.Type).Underlying().(*types.Chan); isChan {
						chans = append(chans, info.ObjectOf(n))
					}
				}
			}
			if len(chans) >= 2 {
				reqO, respO = chans[0], chans[1]
			} else {
				r.Undecided("C12/REPLYONCE", "C12/REPLYONCE:"+key, prog.Pos(fdecl.Pos()), "request/response channel parameters not found")
				continue
			}
		}
		// the server loop: the `for` whose body receives from reqO
		var loop *ast.ForStmt
		loopLabel := ""
		ast.Inspect(fdecl.Body, func(n ast.Node) bool {
			if ls, ok := n.(*ast.LabeledStmt); ok {
				if f, ok := ls.Stmt.(*ast.ForStmt); ok && loop == nil && recvIn(info, f.Body, reqO) {
					loop, loopLabel = f, ls.Label.Name
					return false
				}
			}
			if f, ok := n.(*ast.ForStmt); ok && loop == nil && recvIn(info, f.Body, reqO) {
				loop = f
				return false
			}
			return true
		})
		if loop == nil {
			r.Undecided("C12/REPLYONCE", "C12/REPLYONCE:"+key, prog.Pos(fdecl.Pos()), "no loop receiving from the request channel")
			continue
		}
		nSends := 0
		var undec []string
		pi := &pinterp{info: info, noReturn: noReturnCall(info)}
		pi.exhaustive = func(sw *ast.SwitchStmt) bool { return switchExhaustive(prog, pk, sw) }
		pi.events = func(n ast.Node) []pevent {
			var evs []pevent
			ast.Inspect(n, func(m ast.Node) bool {
				switch x := m.(type) {
				case *ast.FuncLit:
					return false
				case *ast.BlockStmt:
					return m == n
				case *ast.SendStmt:
					if chanObj(info, x.Chan) == respO {
						evs = append(evs, pevent{d: +1, pos: x.Pos()})
					}
				case *ast.CallExpr:
					// the response channel handed to a helper: use the helper's summary (the number of
					// sends on that parameter, the same on every returning path)
					for ai, a := range x.Args {
						if chanObj(info, a) == respO {
							k, why := helperSendCount(prog, pk, x, ai, 0)
							if why != "" {
								undec = append(undec, prog.Pos(x.Pos())+": response channel passed to "+types.ExprString(x.Fun)+": "+why)
							} else if k > 0 {
								evs = append(evs, pevent{d: k, pos: x.Pos()})
							}
						}
					}
				}
				return true
			})
			return evs
		}
		pi.containsEvent = func(n ast.Node) bool {
			found := false
			ast.Inspect(n, func(m ast.Node) bool {
				if s, ok := m.(*ast.SendStmt); ok && chanObj(info, s.Chan) == respO {
					found = true
				}
				if c, ok := m.(*ast.CallExpr); ok {
					for _, a := range c.Args {
						if chanObj(info, a) == respO {
							found = true
						}
					}
				}
				return !found
			})
			return found
		}
		pi.onError = func(pos token.Pos, s pstate, what string) {}
		pi.undecided = func(pos token.Pos, what string) { undec = append(undec, prog.Pos(pos)+": "+what) }
		ast.Inspect(loop.Body, func(m ast.Node) bool {
			if s, ok := m.(*ast.SendStmt); ok && chanObj(info, s.Chan) == respO {
				nSends++
			}
			if c, ok := m.(*ast.CallExpr); ok {
				for _, a := range c.Args {
					if chanObj(info, a) == respO {
						nSends++ // a helper that answers on behalf of the loop
					}
				}
			}
			return true
		})
		in := pset{}
		in.add(pstate{flags: map[types.Object]bool{}})
		out := pi.block(loop.Body.List, in)
		ends := pset{}
		ends.addAll(out.normal)
		for l, ss := range out.cont {
			if l == "" || l == loopLabel {
				ends.addAll(ss)
			}
		}
		r.Count("server_loops", 1)
		r.Count("reply_send_sites", nSends)
		for _, u := range undec {
			r.Undecided("C12/REPLYONCE", "C12/REPLYONCE:"+key+":uninterpreted", u, "construct outside the interpreted fragment")
		}
		// group by trail
		type res struct{ zero, one, many bool }
		byTrail := map[string]*res{}
		for _, s := range ends {
			t := strings.Join(s.trail, "/")
			if byTrail[t] == nil {
				byTrail[t] = &res{}
			}
			switch {
			case s.n == 0:
				byTrail[t].zero = true
			case s.n == 1:
				byTrail[t].one = true
			default:
				byTrail[t].many = true
			}
		}
		var trails []string
		for t := range byTrail {
			trails = append(trails, t)
		}
		sort.Strings(trails)
		r.Count("iteration_paths", len(trails))
		pos := prog.Pos(loop.Pos())
		for _, t := range trails {
			res := byTrail[t]
			inst := "C12/REPLYONCE:" + key + ":" + t
			if why, ok := c12DispatchGaps[key+":"+t]; ok && res.zero && !res.many {
				r.Note("C12/REPLYONCE", inst, pos, "benign exception: "+why)
				continue
			}
			switch {
			case res.zero:
				r.Violation("C12/REPLYONCE", inst, pos, fmt.Sprintf("%s: the iteration path [%s] reaches the next receive without sending any answer; the requester blocks forever on the answer channel (compiler hangs)", sv.fn, t))
			case res.many:
				r.Violation("C12/REPLYONCE", inst, pos, fmt.Sprintf("%s: the iteration path [%s] can send more than one answer for one request; the second send blocks forever (unbuffered channel, the requester receives once)", sv.fn, t))
			default:
				r.OK("C12/REPLYONCE", inst, pos, "exactly one answer on every path of this case")
			}
		}
	}
}

func recvIn(info *types.Info, body *ast.BlockStmt, ch types.Object) bool {
	found := false
	ast.Inspect(body, func(n ast.Node) bool {
		if u, ok := n.(*ast.UnaryExpr); ok && u.Op == token.ARROW && chanObj(info, u.X) == ch {
			found = true
		}
		return !found
	})
	return found
}

// ---- J3 ---------------------------------------------------------------------------------

func c12ClientPairing(r *core.Run, prog *core.Program) {
	bg := prog.Pkg("pkg/bondgo")
	if bg == nil {
		r.Fatal("pkg/bondgo not loaded")
		return
	}
	// the client-side channel fields: the fields of BondgoCheck whose types are the
	// server's request and response channel types
	var reqF, ansF *types.Var
	if tn, ok := bg.Types.Scope().Lookup("BondgoCheck").(*types.TypeName); ok {
		if st, ok := tn.Type().Underlying().(*types.Struct); ok {
			for i := 0; i < st.NumFields(); i++ {
				f := st.Field(i)
				if ch, ok := f.Type().Underlying().(*types.Chan); ok {
					switch types.TypeString(ch.Elem(), func(*types.Package) string { return "" }) {
					case "VarReq":
						reqF = f
					case "VarAns":
						ansF = f
					}
				}
			}
		}
	}
	if reqF == nil || ansF == nil {
		r.Undecided("C12/PAIRING", "C12/PAIRING:fields", "", "BondgoCheck no longer has chan VarReq / chan VarAns fields")
		return
	}
	exitConst := bg.Types.Scope().Lookup("REQ_EXIT")
	nFuncs, nSites := 0, 0
	for _, rel := range []string{"pkg/bondgo", "cmd/bondgo"} {
		pk := prog.Pkg(rel)
		if pk == nil {
			continue
		}
		info := pk.TypesInfo
		// F = functions that (transitively, by static calls inside the package) send requests
		sends := map[types.Object]bool{}
		calls := map[types.Object][]types.Object{}
		decls := map[types.Object]*ast.FuncDecl{}
		isReqSend := func(s *ast.SendStmt) bool {
			if chanObj(info, s.Chan) != types.Object(reqF) {
				return false
			}
			return true
		}
		isExitMsg := func(s *ast.SendStmt) bool {
			if cl, ok := ast.Unparen(s.Value).(*ast.CompositeLit); ok && len(cl.Elts) > 0 {
				first := cl.Elts[0]
				if kv, ok := first.(*ast.KeyValueExpr); ok {
					first = kv.Value
				}
				switch f := ast.Unparen(first).(type) {
				case *ast.Ident:
					return info.Uses[f] == exitConst
				case *ast.SelectorExpr:
					return info.Uses[f.Sel] == exitConst
				}
			}
			return false
		}
		core.FuncDecls(pk, func(_ *ast.File, fd *ast.FuncDecl) {
			o := info.Defs[fd.Name]
			decls[o] = fd
			ast.Inspect(fd.Body, func(n ast.Node) bool {
				switch x := n.(type) {
				case *ast.SendStmt:
					if isReqSend(x) {
						sends[o] = true
					}
				case *ast.CallExpr:
					if c := core.CalleeOf(info, x); c != nil {
						calls[o] = append(calls[o], c)
					}
				}
				return true
			})
		})
		changed := true
		for changed {
			changed = false
			for f, cs := range calls {
				if sends[f] {
					continue
				}
				for _, c := range cs {
					if sends[c] {
						sends[f] = true
						changed = true
						break
					}
				}
			}
		}
		var fl []*ast.FuncDecl
		for o, fd := range decls {
			hasDirect := false
			ast.Inspect(fd.Body, func(n ast.Node) bool {
				switch x := n.(type) {
				case *ast.SendStmt:
					if isReqSend(x) {
						hasDirect = true
					}
				case *ast.UnaryExpr:
					if x.Op == token.ARROW && chanObj(info, x.X) == types.Object(ansF) {
						hasDirect = true
					}
				}
				return true
			})
			_ = o
			if hasDirect {
				fl = append(fl, fd)
			}
		}
		sort.Slice(fl, func(i, j int) bool { return fl[i].Pos() < fl[j].Pos() })
		for _, fd := range fl {
			nFuncs++
			fkey := core.FuncKey(pk, fd)
			var errs []string
			var undec []string
			pi := &pinterp{info: info, noReturn: noReturnCall(info), noFlags: true}
			pi.events = func(n ast.Node) []pevent {
				var evs []pevent
				var visit func(m ast.Node)
				visit = func(m ast.Node) {
					// post-order for expressions (operands before the operation), statements as written
					switch x := m.(type) {
					case nil:
						return
					case *ast.FuncLit:
						return
					case *ast.BlockStmt:
						if m != n {
							return
						}
					case *ast.SendStmt:
						visit(x.Value)
						if isReqSend(x) {
							nSites++
							if !isExitMsg(x) {
								evs = append(evs, pevent{d: +1, limit: 1, pos: x.Pos(), what: "a second request is sent while the answer to the previous one has not been received (the allocator is blocked sending that answer: deadlock)"})
							}
						}
						return
					case *ast.UnaryExpr:
						visit(x.X)
						if x.Op == token.ARROW && chanObj(info, x.X) == types.Object(ansF) {
							evs = append(evs, pevent{d: -1, pos: x.Pos()})
						}
						return
					case *ast.CallExpr:
						for _, a := range x.Args {
							visit(a)
						}
						visit(x.Fun)
						if c := core.CalleeOf(info, x); c != nil && sends[c] {
							evs = append(evs, pevent{needZero: true, pos: x.Pos(), what: "call to " + c.Name() + ", which itself talks to the allocator, while a request of this function is still unanswered"})
						}
						return
					}
					// generic: children in source order
					var kids []ast.Node
					ast.Inspect(m, func(k ast.Node) bool {
						if k == m {
							return true
						}
						if k != nil {
							kids = append(kids, k)
						}
						return false
					})
					for _, k := range kids {
						visit(k)
					}
				}
				visit(n)
				return evs
			}
			pi.containsEvent = func(n ast.Node) bool { return false }
			pi.onError = func(pos token.Pos, s pstate, what string) { errs = append(errs, prog.Pos(pos)+": "+what) }
			pi.undecided = func(pos token.Pos, what string) { undec = append(undec, prog.Pos(pos)+": "+what) }
			in := pset{}
			in.add(pstate{flags: map[types.Object]bool{}})
			nSites0 := nSites
			out := pi.block(fd.Body.List, in)
			_ = nSites0
			ends := pset{}
			ends.addAll(out.normal)
			ends.addAll(out.ret)
			for _, s := range ends {
				if s.n != 0 {
					errs = append(errs, prog.Pos(fd.End())+": the function can return with a request still unanswered (the allocator stays blocked sending the answer)")
					break
				}
			}
			inst := "C12/PAIRING:" + fkey
			pos := prog.Pos(fd.Pos())
			sort.Strings(errs)
			sort.Strings(undec)
			switch {
			case len(undec) > 0:
				r.Undecided("C12/PAIRING", inst, pos, undec[0])
			case len(errs) > 0:
				r.Violation("C12/PAIRING", inst, pos, errs[0])
			default:
				r.OK("C12/PAIRING", inst, pos, "every request is followed by exactly one answer receive on all paths")
			}
		}
	}
	r.Count("client_functions", nFuncs)
	// count request send sites syntactically (the interpreter may visit a site several times)
	nReq := 0
	for _, rel := range []string{"pkg/bondgo", "cmd/bondgo"} {
		if pk := prog.Pkg(rel); pk != nil {
			nReq += countReqSends(pk, reqF)
		}
	}
	r.Count("request_send_sites", nReq)
}

func countReqSends(pk *packages.Package, reqF *types.Var) int {
	n := 0
	for _, f := range pk.Syntax {
		ast.Inspect(f, func(m ast.Node) bool {
			if s, ok := m.(*ast.SendStmt); ok && chanObj(pk.TypesInfo, s.Chan) == types.Object(reqF) {
				n++
			}
			return true
		})
	}
	return n
}

// helperSendCount: the callee of `call` is a module function with a body; returns k when every
// returning path of the callee sends exactly k times on its parameter number argIdx (paths that
// end in panic/os.Exit are exempt). Otherwise a reason.
func helperSendCount(prog *core.Program, pk *packages.Package, call *ast.CallExpr, argIdx int, depth int) (int, string) {
	info := pk.TypesInfo
	c := core.CalleeOf(info, call)
	fn, ok := c.(*types.Func)
	if !ok || fn.Pkg() == nil || depth > 2 {
		return 0, "callee not resolved"
	}
	var fd *ast.FuncDecl
	var fpk *packages.Package
	for _, p2 := range prog.Pkgs {
		if p2.Types != fn.Pkg() {
			continue
		}
		core.FuncDecls(p2, func(_ *ast.File, d *ast.FuncDecl) {
			if p2.TypesInfo.Defs[d.Name] == fn {
				fd, fpk = d, p2
			}
		})
	}
	if fd == nil {
		return 0, "callee has no body in the module"
	}
	finfo := fpk.TypesInfo
	// parameter object number argIdx
	var pobj types.Object
	idx := 0
	for _, f := range fd.Type.Params.List {
		for _, n := range f.Names {
			if idx == argIdx {
				pobj = finfo.ObjectOf(n)
			}
			idx++
		}
	}
	if pobj == nil {
		return 0, "parameter not found"
	}
	why := ""
	pi := &pinterp{info: finfo, noReturn: noReturnCall(finfo), noFlags: true}
	pi.exhaustive = func(sw *ast.SwitchStmt) bool { return switchExhaustive(prog, fpk, sw) }
	pi.events = func(n ast.Node) []pevent {
		var evs []pevent
		ast.Inspect(n, func(m ast.Node) bool {
			switch x := m.(type) {
			case *ast.FuncLit:
				return false
			case *ast.BlockStmt:
				return m == n
			case *ast.SendStmt:
				if chanObj(finfo, x.Chan) == pobj {
					evs = append(evs, pevent{d: +1, pos: x.Pos()})
				}
			case *ast.CallExpr:
				for ai, a := range x.Args {
					if chanObj(finfo, a) == pobj {
						k, w := helperSendCount(prog, fpk, x, ai, depth+1)
						if w != "" {
							why = w
						} else if k > 0 {
							evs = append(evs, pevent{d: k, pos: x.Pos()})
						}
					}
				}
			}
			return true
		})
		return evs
	}
	pi.containsEvent = func(ast.Node) bool { return false }
	pi.onError = func(token.Pos, pstate, string) {}
	pi.undecided = func(_ token.Pos, what string) { why = what }
	in := pset{}
	in.add(pstate{flags: map[types.Object]bool{}})
	out := pi.block(fd.Body.List, in)
	if why != "" {
		return 0, why
	}
	ends := pset{}
	ends.addAll(out.normal)
	ends.addAll(out.ret)
	k := -1
	for _, st := range ends {
		if k == -1 {
			k = st.n
		} else if k != st.n {
			return 0, fmt.Sprintf("%s sends %d or %d times on the channel depending on the path", fn.Name(), k, st.n)
		}
	}
	if k < 0 {
		return 0, "" // never returns
	}
	return k, ""
}


// c12CellLife (C12/CELLLIFE): typestate of an allocator cell in the compiler's clients. After a client
// has sent VarReq{REQ_REMOVE, _, C} the register or memory cell C is free and the next Expr_eval may be
// given the same cell; code emitted from C afterwards reads whatever was computed last. So, after the
// release statement, (1) the variable C is rooted at may not be read again before it is reassigned
// (within the statements that follow it, up to the loop iteration in which the variable is declared), and
// (2) a slice into which C's value was copied earlier in the same loop (`X[i] = C`) may not be read after
// that loop — all of its elements have been released by then.
func c12CellLife(r *core.Run, prog *core.Program) {
	pk := prog.Pkg("pkg/bondgo")
	if pk == nil {
		return
	}
	info := pk.TypesInfo
	var removeConst types.Object
	if o := pk.Types.Scope().Lookup("REQ_REMOVE"); o != nil {
		removeConst = o
	}
	if removeConst == nil {
		r.Undecided("C12/CELLLIFE", "C12/CELLLIFE:const", "", "REQ_REMOVE not found")
		return
	}
	rootIdent := func(e ast.Expr) *ast.Ident {
		for {
			switch x := ast.Unparen(e).(type) {
			case *ast.Ident:
				return x
			case *ast.IndexExpr:
				e = x.X
			case *ast.SelectorExpr:
				e = x.X
			case *ast.StarExpr:
				e = x.X
			default:
				return nil
			}
		}
	}
	// release helpers: a function that sends VarReq{REQ_REMOVE, _, <its parameter>}; a call of it
	// releases the argument
	isRemoveSend := func(n ast.Node) (ast.Expr, bool) {
		send, ok := n.(*ast.SendStmt)
		if !ok {
			return nil, false
		}
		cl, ok := ast.Unparen(send.Value).(*ast.CompositeLit)
		if !ok || len(cl.Elts) != 3 {
			return nil, false
		}
		first := cl.Elts[0]
		if kv, ok := first.(*ast.KeyValueExpr); ok {
			first = kv.Value
		}
		id0, ok := ast.Unparen(first).(*ast.Ident)
		if !ok || info.ObjectOf(id0) != removeConst {
			return nil, false
		}
		cellE := cl.Elts[2]
		if kv, ok := cellE.(*ast.KeyValueExpr); ok {
			cellE = kv.Value
		}
		return cellE, true
	}
	releaseHelpers := map[types.Object]int{}
	core.FuncDecls(pk, func(_ *ast.File, fd *ast.FuncDecl) {
		pidx := map[types.Object]int{}
		i := 0
		for _, f := range fd.Type.Params.List {
			for _, nm := range f.Names {
				pidx[info.ObjectOf(nm)] = i
				i++
			}
		}
		ast.Inspect(fd.Body, func(n ast.Node) bool {
			if cellE, ok := isRemoveSend(n); ok {
				if id, ok := ast.Unparen(cellE).(*ast.Ident); ok {
					if k, ok := pidx[info.ObjectOf(id)]; ok {
						if o := info.Defs[fd.Name]; o != nil {
							releaseHelpers[o] = k
						}
					}
				}
			}
			return true
		})
	})
	nSites := 0
	core.FuncDecls(pk, func(_ *ast.File, fd *ast.FuncDecl) {
		if o := info.Defs[fd.Name]; o != nil {
			if _, isHelper := releaseHelpers[o]; isHelper {
				return // its own send is the release the callers are charged with
			}
		}
		// parent map
		parents := map[ast.Node]ast.Node{}
		var stack []ast.Node
		ast.Inspect(fd.Body, func(n ast.Node) bool {
			if n == nil {
				stack = stack[:len(stack)-1]
				return true
			}
			if len(stack) > 0 {
				parents[n] = stack[len(stack)-1]
			}
			stack = append(stack, n)
			return true
		})
		// reads of object o in node n, not counting whole assignments to it; stops at a whole reassignment at statement level
		readsIn := func(stmts []ast.Stmt, o types.Object) (token.Pos, bool) {
			for _, st := range stmts {
				if as, ok := st.(*ast.AssignStmt); ok {
					// whole reassignment kills (after evaluating the right-hand side)
					for _, rh := range as.Rhs {
						var p token.Pos
						ast.Inspect(rh, func(m ast.Node) bool {
							if id, ok := m.(*ast.Ident); ok && info.ObjectOf(id) == o && !p.IsValid() {
								p = id.Pos()
							}
							return true
						})
						if p.IsValid() {
							return p, true
						}
					}
					killed := false
					for _, l := range as.Lhs {
						if id, ok := l.(*ast.Ident); ok && info.ObjectOf(id) == o {
							killed = true
						}
					}
					if killed {
						return token.NoPos, false
					}
				}
				var p token.Pos
				ast.Inspect(st, func(m ast.Node) bool {
					if as, ok := m.(*ast.AssignStmt); ok {
						for _, l := range as.Lhs {
							if id, ok := l.(*ast.Ident); ok && info.ObjectOf(id) == o {
								// visit only the right-hand sides
								for _, rh := range as.Rhs {
									ast.Inspect(rh, func(k ast.Node) bool {
										if id, ok := k.(*ast.Ident); ok && info.ObjectOf(id) == o && !p.IsValid() {
											p = id.Pos()
										}
										return true
									})
								}
								return false
							}
						}
					}
					if id, ok := m.(*ast.Ident); ok && info.ObjectOf(id) == o && !p.IsValid() {
						p = id.Pos()
					}
					return true
				})
				if p.IsValid() {
					return p, true
				}
			}
			return token.NoPos, false
		}
		following := func(st ast.Stmt, stopAt ast.Node) [][]ast.Stmt {
			// statement lists that execute after st, innermost first, up to (excluding) the block stopAt's parent
			var out [][]ast.Stmt
			var cur ast.Node = st
			for cur != nil && cur != stopAt {
				par := parents[cur]
				var list []ast.Stmt
				switch b := par.(type) {
				case *ast.BlockStmt:
					switch parents[par].(type) {
					case *ast.SwitchStmt, *ast.TypeSwitchStmt, *ast.SelectStmt:
						// the other clauses of a switch do not run after this one
					default:
						list = b.List
					}
				case *ast.CaseClause:
					list = b.Body
				case *ast.CommClause:
					list = b.Body
				}
				if list != nil {
					for i, s2 := range list {
						if s2 == cur && i+1 < len(list) {
							out = append(out, list[i+1:])
						}
					}
				}
				cur = par
			}
			return out
		}
		k := 0
		ast.Inspect(fd.Body, func(n ast.Node) bool {
			var send ast.Stmt
			var cellE ast.Expr
			if ce, ok := isRemoveSend(n); ok {
				send, cellE = n.(ast.Stmt), ce
			} else if call, ok := n.(*ast.CallExpr); ok {
				if k, ok := releaseHelpers[core.CalleeOf(info, call)]; ok && k < len(call.Args) {
					cellE = call.Args[k]
					// the statement the call belongs to
					for p := ast.Node(call); p != nil; p = parents[p] {
						if st, ok := p.(ast.Stmt); ok {
							switch parents[p].(type) {
							case *ast.BlockStmt, *ast.CaseClause, *ast.CommClause:
								send = st
							}
						}
						if send != nil {
							break
						}
					}
				}
			}
			if send == nil {
				return true
			}
			rid := rootIdent(cellE)
			if rid == nil {
				return true
			}
			v := info.ObjectOf(rid)
			if v == nil {
				return true
			}
			k++
			nSites++
			inst := fmt.Sprintf("C12/CELLLIFE:%s:release%d:%s", core.FuncKey(pk, fd), k, canonRangeExpr(info, cellE))
			// the loop (if any) in whose body v is declared: uses in the next iteration see a new v
			var declLoop ast.Node
			for p := parents[ast.Node(send)]; p != nil; p = parents[p] {
				switch l := p.(type) {
				case *ast.ForStmt:
					if l.Body.Pos() <= v.Pos() && v.Pos() <= l.Body.End() && declLoop == nil {
						declLoop = l.Body
					}
				case *ast.RangeStmt:
					if l.Pos() <= v.Pos() && v.Pos() <= l.End() && declLoop == nil {
						declLoop = l.Body
					}
				}
			}
			// (1) reads of v after the release
			var stmtOfSend ast.Stmt = send
			bad, badWhat := token.NoPos, ""
			for _, list := range following(stmtOfSend, declLoop) {
				if p, found := readsIn(list, v); found {
					bad, badWhat = p, "reads "+rid.Name+" again"
					break
				} else if !p.IsValid() {
					// either killed or not mentioned in this list; a kill ends the search
					killed := false
					for _, st := range list {
						if as, ok := st.(*ast.AssignStmt); ok {
							for _, l := range as.Lhs {
								if id, ok := l.(*ast.Ident); ok && info.ObjectOf(id) == v {
									killed = true
								}
							}
						}
					}
					if killed {
						break
					}
				}
			}
			// (2) aliases: X[i] = <expr rooted at v> earlier in the innermost loop body; X read after that loop
			if !bad.IsValid() {
				var loop ast.Stmt
				for p := parents[ast.Node(send)]; p != nil && loop == nil; p = parents[p] {
					switch l := p.(type) {
					case *ast.ForStmt:
						loop = l
					case *ast.RangeStmt:
						loop = l
					}
				}
				if loop != nil {
					var aliases []types.Object
					ast.Inspect(loop, func(m ast.Node) bool {
						as, ok := m.(*ast.AssignStmt)
						if !ok || as.Pos() > send.Pos() || len(as.Lhs) != len(as.Rhs) {
							return true
						}
						for i, l := range as.Lhs {
							ie, ok := ast.Unparen(l).(*ast.IndexExpr)
							if !ok {
								continue
							}
							if rr := rootIdent(as.Rhs[i]); rr != nil && info.ObjectOf(rr) == v {
								// only a local slice/map indexed directly (a scratch list of cells); a store
								// into a field of the compiler state (bg.Vars[name] = cell) hands the cell over
								if xid, ok := ast.Unparen(ie.X).(*ast.Ident); ok {
									if xo := info.ObjectOf(xid); xo != nil && xo != v {
										aliases = append(aliases, xo)
									}
								}
							}
						}
						return true
					})
					for _, xo := range aliases {
						for _, list := range following(loop, nil) {
							if p, found := readsIn(list, xo); found {
								bad, badWhat = p, "reads "+xo.Name()+", which holds copies of the released cells,"
								break
							}
						}
						if bad.IsValid() {
							break
						}
					}
				}
			}
			if bad.IsValid() {
				r.Violation("C12/CELLLIFE", inst, prog.Pos(bad), fmt.Sprintf("%s tells the allocator to free %s (REQ_REMOVE at %s) and then %s: the cell can be handed to the next expression in between, so the code emitted from it uses a register that holds another value (e.g. every store of `a, b = b, a` writes the last right-hand side)", core.FuncKey(pk, fd), types.ExprString(cellE), r.Rel(prog.Pos(send.Pos())), badWhat))
			} else {
				r.OK("C12/CELLLIFE", inst, prog.Pos(send.Pos()), "the released cell is not used again")
			}
			return true
		})
	})
	r.Count("cell_release_sites", nSites)
}
