package checks

// Rules added in the sixth round of independently seeded changes (DESIGN.md 8.6.1e). Each is a small
// AST rule over the type-checked program, phrased over resolved objects (callee, field, channel field),
// and each states a necessary condition of the property it is registered under.

import (
	"fmt"
	"go/ast"
	"go/token"
	"go/types"
	"path/filepath"
	"sort"
	"strings"

	"bmverif/internal/core"

	"golang.org/x/tools/go/packages"
)

func r6File(prog *core.Program, pos token.Pos) string {
	return filepath.Base(strings.SplitN(prog.Pos(pos), ":", 2)[0])
}

// enclosingLoops returns, for every node of a function body, nothing — helper: walks a body and calls
// visit with the stack of enclosing loop statements (outermost first).
func r6WalkLoops(body *ast.BlockStmt, visit func(n ast.Node, loops []ast.Stmt)) {
	var loops []ast.Stmt
	var walk func(n ast.Node)
	walk = func(n ast.Node) {
		if n == nil {
			return
		}
		ast.Inspect(n, func(m ast.Node) bool {
			if m == nil || m == n {
				return true
			}
			switch x := m.(type) {
			case *ast.ForStmt:
				visit(m, loops)
				if x.Init != nil {
					walk(x.Init)
				}
				loops = append(loops, x)
				walk(x.Body)
				loops = loops[:len(loops)-1]
				return false
			case *ast.RangeStmt:
				visit(m, loops)
				walk(x.X)
				loops = append(loops, x)
				walk(x.Body)
				loops = loops[:len(loops)-1]
				return false
			case *ast.FuncLit:
				visit(m, loops)
				return false
			}
			visit(m, loops)
			return true
		})
	}
	walk(body)
}

// ---- C09/NONBLOCK -------------------------------------------------------------------------------
// In the simulator (pkg/bondmachine, pkg/procbuilder, pkg/simbox; the emulated external devices and
// the bmapi templates excepted) no select with a default clause may receive from a channel: whether
// the value is there when the select runs is decided by the scheduler, so what the simulation does or
// reports depends on timing.
func c09NonBlocking(r *core.Run, prog *core.Program) {
	n := 0
	for _, rel := range []string{"pkg/bondmachine", "pkg/procbuilder", "pkg/simbox"} {
		pk := prog.Pkg(rel)
		if pk == nil {
			continue
		}
		core.FuncDecls(pk, func(_ *ast.File, fd *ast.FuncDecl) {
			if fd.Body == nil {
				return
			}
			base := r6File(prog, fd.Pos())
			if strings.HasPrefix(base, "exmod_") || strings.HasPrefix(base, "bmapi") || strings.HasPrefix(base, "emudriver") {
				return
			}
			fkey := core.FuncKey(pk, fd)
			k := 0
			ast.Inspect(fd.Body, func(m ast.Node) bool {
				sel, ok := m.(*ast.SelectStmt)
				if !ok {
					return true
				}
				n++
				hasDefault, recv := false, ""
				for _, cl := range sel.Body.List {
					cc := cl.(*ast.CommClause)
					if cc.Comm == nil {
						hasDefault = true
						continue
					}
					ast.Inspect(cc.Comm, func(q ast.Node) bool {
						if u, ok := q.(*ast.UnaryExpr); ok && u.Op == token.ARROW {
							recv = types.ExprString(u.X)
						}
						return true
					})
				}
				k++
				inst := fmt.Sprintf("C09/NONBLOCK:%s:select#%d", fkey, k)
				if hasDefault && recv != "" {
					r.Violation("C09/NONBLOCK", inst, prog.Pos(sel.Pos()), fmt.Sprintf("%s receives from %s in a select with a default clause: whether the value has been sent when the select runs depends on the scheduler, so what this simulation step sees (or reports) differs between runs of the same machine and input", fkey, recv))
				} else {
					r.OK("C09/NONBLOCK", inst, prog.Pos(sel.Pos()), "blocking select")
				}
				return true
			})
		})
	}
	r.Count("simulator_select_statements", n)
}

// ---- C10/COMPACT --------------------------------------------------------------------------------
// slices.Compact removes ADJACENT duplicates only. Where the tools that edit a machine build a list of
// ids (deletions are applied one by one and renumber the ports above), a Compact whose argument has not
// been sorted before, in the same function, leaves duplicates in: the same id is deleted twice and the
// second deletion removes a port nobody named, with its bond.
func c10Compact(r *core.Run, prog *core.Program) {
	n := 0
	for _, rel := range []string{"cmd/bondmachine", "pkg/bondmachine"} {
		pk := prog.Pkg(rel)
		if pk == nil {
			continue
		}
		info := pk.TypesInfo
		core.FuncDecls(pk, func(_ *ast.File, fd *ast.FuncDecl) {
			if fd.Body == nil {
				return
			}
			fkey := core.FuncKey(pk, fd)
			type ev struct {
				pos  token.Pos
				kind string // sort | append | compact
				obj  types.Object
			}
			var evs []ev
			objOf := func(e ast.Expr) types.Object {
				// x, sort.IntSlice(x), sort.Reverse(sort.IntSlice(x))
				for {
					e = ast.Unparen(e)
					if c, ok := e.(*ast.CallExpr); ok && len(c.Args) == 1 {
						e = c.Args[0]
						continue
					}
					break
				}
				if id, ok := e.(*ast.Ident); ok {
					return info.ObjectOf(id)
				}
				return nil
			}
			ast.Inspect(fd.Body, func(m ast.Node) bool {
				switch x := m.(type) {
				case *ast.CallExpr:
					c := core.CalleeOf(info, x)
					if c == nil || c.Pkg() == nil || len(x.Args) == 0 {
						return true
					}
					switch c.Pkg().Path() {
					case "sort":
						switch c.Name() {
						case "Ints", "Strings", "Sort", "Stable", "Slice", "SliceStable":
							evs = append(evs, ev{x.Pos(), "sort", objOf(x.Args[0])})
						}
					case "slices":
						switch c.Name() {
						case "Sort", "SortFunc", "SortStableFunc":
							evs = append(evs, ev{x.Pos(), "sort", objOf(x.Args[0])})
						case "Compact", "CompactFunc":
							evs = append(evs, ev{x.Pos(), "compact", objOf(x.Args[0])})
						}
					}
				case *ast.AssignStmt:
					for i, rhs := range x.Rhs {
						if call, ok := ast.Unparen(rhs).(*ast.CallExpr); ok {
							if id, ok := call.Fun.(*ast.Ident); ok && id.Name == "append" && i < len(x.Lhs) {
								if _, isB := info.Uses[id].(*types.Builtin); isB {
									if l, ok := x.Lhs[i].(*ast.Ident); ok {
										evs = append(evs, ev{x.Pos(), "append", info.ObjectOf(l)})
									}
								}
							}
						}
					}
				}
				return true
			})
			k := 0
			for _, e := range evs {
				if e.kind != "compact" {
					continue
				}
				n++
				k++
				inst := fmt.Sprintf("C10/COMPACT:%s:compact#%d", fkey, k)
				sorted := false
				for _, p := range evs {
					if p.pos >= e.pos || p.obj == nil || p.obj != e.obj {
						continue
					}
					switch p.kind {
					case "sort":
						sorted = true
					case "append":
						sorted = false
					}
				}
				if sorted {
					r.OK("C10/COMPACT", inst, prog.Pos(e.pos), "the list is sorted before adjacent duplicates are removed")
				} else {
					r.Violation("C10/COMPACT", inst, prog.Pos(e.pos), fmt.Sprintf("%s removes duplicates with slices.Compact from a list it has not sorted first: Compact drops adjacent duplicates only, so an id repeated with another id in between (1,0,1) stays twice in the list and the edit it names is applied twice — the second deletion removes a port (and its bond) that nobody addressed", fkey))
				}
			}
		})
	}
	r.Count("compact_calls_in_edit_tools", n)
}

// ---- SINGLEPARSER (C08 and C15) -----------------------------------------------------------------
// bmnumbers.ImportString is the one reader of numeric literals (C08: one meaning per literal). A
// function that hands a string to ImportString may not also parse the same string with strconv: the two
// readers disagree on some notation (`010` is octal for ParseUint base 0, decimal for bmnumbers), so
// the value depends on which of them happens to accept it.
func ruleSingleParser(r *core.Run, prog *core.Program, prop string, rels []string) {
	n := 0
	var pks []*packages.Package
	if rels == nil {
		for _, pk := range prog.Pkgs {
			pks = append(pks, pk)
		}
	} else {
		for _, rel := range rels {
			if pk := prog.Pkg(rel); pk != nil {
				pks = append(pks, pk)
			}
		}
	}
	rule := prop + "/SINGLEPARSER"
	for _, pk := range pks {
		if strings.HasSuffix(pk.PkgPath, "/pkg/bmnumbers") {
			continue // the reader itself
		}
		info := pk.TypesInfo
		core.FuncDecls(pk, func(_ *ast.File, fd *ast.FuncDecl) {
			if fd.Body == nil {
				return
			}
			var imported []types.Object
			type sc struct {
				pos  token.Pos
				obj  types.Object
				name string
			}
			var parsed []sc
			ast.Inspect(fd.Body, func(m ast.Node) bool {
				call, ok := m.(*ast.CallExpr)
				if !ok || len(call.Args) == 0 {
					return true
				}
				c := core.CalleeOf(info, call)
				if c == nil || c.Pkg() == nil {
					return true
				}
				id, ok := ast.Unparen(call.Args[0]).(*ast.Ident)
				if !ok {
					return true
				}
				o := info.ObjectOf(id)
				if core.IsModFunc(c, "pkg/bmnumbers", "ImportString") {
					imported = append(imported, o)
				}
				if c.Pkg().Path() == "strconv" {
					switch c.Name() {
					case "Atoi", "ParseInt", "ParseUint", "ParseFloat":
						parsed = append(parsed, sc{call.Pos(), o, c.Name()})
					}
				}
				return true
			})
			if len(imported) == 0 {
				return
			}
			n++
			fkey := core.FuncKey(pk, fd)
			bad := false
			for _, p := range parsed {
				for _, o := range imported {
					if o != nil && o == p.obj {
						bad = true
						r.Violation(rule, fmt.Sprintf("%s:%s:%s", rule, fkey, p.name), prog.Pos(p.pos), fmt.Sprintf("%s reads the literal %q both with bmnumbers.ImportString and with strconv.%s: the two readers give different values for some notations (a zero-padded decimal is octal for strconv base 0; 0x…/0b… are 0 for Atoi), so the number a rule or a source line states is not the number used", fkey, o.Name(), p.name))
					}
				}
			}
			if !bad {
				r.OK(rule, rule+":"+fkey, prog.Pos(fd.Pos()), "literals handed to bmnumbers.ImportString have no second reader in the function")
			}
		})
	}
	r.Count("functions_importing_literals", n)
}

// ---- C18/FRESHFLAGS -----------------------------------------------------------------------------
// The declare-once flags of a processor module (Runinfo.Check, rule ONCE/F) live in Config.Runinfo. A
// loop that writes several processor modules (calls Conproc.Write_verilog once per iteration) must give
// every iteration a RuntimeInfo allocated in that iteration; with a shared one only the first processor
// that uses a flagged helper (carry flag, ROM read port) declares it and the later pN.v use it undeclared.
func c18FreshFlags(r *core.Run, prog *core.Program) {
	n := 0
	for _, pk := range prog.Pkgs {
		info := pk.TypesInfo
		pk := pk
		core.FuncDecls(pk, func(_ *ast.File, fd *ast.FuncDecl) {
			if fd.Body == nil {
				return
			}
			fkey := core.FuncKey(pk, fd)
			k := 0
			r6WalkLoops(fd.Body, func(m ast.Node, loops []ast.Stmt) {
				call, ok := m.(*ast.CallExpr)
				if !ok || len(call.Args) == 0 {
					return
				}
				c, _ := core.CalleeOf(info, call).(*types.Func)
				if c == nil || c.Name() != "Write_verilog" || !core.IsModFunc(c, "pkg/procbuilder", "Write_verilog") {
					return
				}
				sig := c.Type().(*types.Signature)
				if sig.Recv() == nil || !strings.HasSuffix(sig.Recv().Type().String(), "procbuilder.Conproc") {
					return
				}
				n++
				k++
				inst := fmt.Sprintf("C18/FRESHFLAGS:%s:processor-module#%d", fkey, k)
				if len(loops) == 0 {
					r.OK("C18/FRESHFLAGS", inst, prog.Pos(call.Pos()), "one processor module per call of the function")
					return
				}
				cfg, _ := ast.Unparen(call.Args[0]).(*ast.Ident)
				outer := loops[0]
				var body *ast.BlockStmt
				switch l := outer.(type) {
				case *ast.ForStmt:
					body = l.Body
				case *ast.RangeStmt:
					body = l.Body
				}
				fresh := false
				if cfg != nil {
					cobj := info.ObjectOf(cfg)
					// allocated in the loop?
					allocIn := map[types.Object]bool{}
					ast.Inspect(body, func(q ast.Node) bool {
						as, ok := q.(*ast.AssignStmt)
						if !ok || q.Pos() > call.Pos() {
							return true
						}
						for i, l := range as.Lhs {
							if i >= len(as.Rhs) {
								break
							}
							isNew := false
							switch rv := ast.Unparen(as.Rhs[i]).(type) {
							case *ast.CallExpr:
								if id, ok := rv.Fun.(*ast.Ident); ok && id.Name == "new" {
									isNew = true
								}
							case *ast.UnaryExpr:
								if _, ok := rv.X.(*ast.CompositeLit); ok && rv.Op == token.AND {
									isNew = true
								}
							}
							if id, ok := l.(*ast.Ident); ok && isNew {
								allocIn[info.ObjectOf(id)] = true
							}
							if se, ok := l.(*ast.SelectorExpr); ok {
								if f := core.FieldOf(info, se); f != nil && f.Name() == "Runinfo" {
									if root, ok := ast.Unparen(se.X).(*ast.Ident); ok && info.ObjectOf(root) == cobj {
										if isNew {
											fresh = true
										}
										if id, ok := ast.Unparen(as.Rhs[i]).(*ast.Ident); ok && allocIn[info.ObjectOf(id)] {
											fresh = true
										}
									}
								}
							}
							// the whole configuration is built inside the loop
							if id, ok := l.(*ast.Ident); ok && info.ObjectOf(id) == cobj && as.Tok == token.DEFINE {
								fresh = true
							}
						}
						return true
					})
				}
				if fresh {
					r.OK("C18/FRESHFLAGS", inst, prog.Pos(call.Pos()), "every iteration gives the processor module a RuntimeInfo allocated in that iteration")
				} else {
					r.Violation("C18/FRESHFLAGS", inst, prog.Pos(call.Pos()), fmt.Sprintf("%s writes one processor module per loop iteration but does not give each a RuntimeInfo of its own (no `<config>.Runinfo = <allocated in the loop>` before the call): the declare-once flags (Runinfo.Check) are then shared, so only the first processor that uses a flagged helper register declares it and the later pN.v use it undeclared", fkey))
				}
			})
		})
	}
	r.Count("processor_module_call_sites", n)
}

// ---- C11/ALIAS ----------------------------------------------------------------------------------
// Dejsoner hands the slices of the JSON mirror to the machine it returns (by reference). A loader that
// decodes several files into ONE mirror variable declared outside its loop makes encoding/json reuse
// those arrays for the next file: the machine loaded first silently takes the later machine's tables.
func c11Alias(r *core.Run, prog *core.Program) {
	// does Dejsoner share a slice/map by reference?
	shares := map[string]bool{}
	for _, rel := range []string{"pkg/bondmachine", "pkg/procbuilder"} {
		pk := prog.Pkg(rel)
		if pk == nil {
			continue
		}
		info := pk.TypesInfo
		core.FuncDecls(pk, func(_ *ast.File, fd *ast.FuncDecl) {
			if fd.Name.Name != "Dejsoner" || fd.Recv == nil || fd.Body == nil || len(fd.Recv.List[0].Names) == 0 {
				return
			}
			recv := info.ObjectOf(fd.Recv.List[0].Names[0])
			ast.Inspect(fd.Body, func(m ast.Node) bool {
				as, ok := m.(*ast.AssignStmt)
				if !ok {
					return true
				}
				for i, rhs := range as.Rhs {
					se, ok := ast.Unparen(rhs).(*ast.SelectorExpr)
					if !ok || i >= len(as.Lhs) {
						continue
					}
					root, ok := ast.Unparen(se.X).(*ast.Ident)
					if !ok || info.ObjectOf(root) != recv {
						continue
					}
					switch info.TypeOf(se).Underlying().(type) {
					case *types.Slice, *types.Map:
						shares[core.RecvTypeName(info, fd)] = true
					}
				}
				return true
			})
		})
	}
	n := 0
	for _, pk := range prog.Pkgs {
		info := pk.TypesInfo
		pk := pk
		core.FuncDecls(pk, func(_ *ast.File, fd *ast.FuncDecl) {
			if fd.Body == nil {
				return
			}
			fkey := core.FuncKey(pk, fd)
			k := 0
			r6WalkLoops(fd.Body, func(m ast.Node, loops []ast.Stmt) {
				call, ok := m.(*ast.CallExpr)
				if !ok {
					return
				}
				se, ok := call.Fun.(*ast.SelectorExpr)
				if !ok || se.Sel.Name != "Dejsoner" {
					return
				}
				c, _ := info.ObjectOf(se.Sel).(*types.Func)
				if c == nil || c.Pkg() == nil || !strings.HasPrefix(c.Pkg().Path(), core.ModPath) {
					return
				}
				x := ast.Unparen(se.X)
				if u, ok := x.(*ast.UnaryExpr); ok && u.Op == token.AND {
					x = ast.Unparen(u.X)
				}
				id, ok := x.(*ast.Ident)
				if !ok {
					return
				}
				o := info.ObjectOf(id)
				tn := ""
				if named, ok := derefType(o.Type()).(*types.Named); ok {
					tn = named.Obj().Name()
				}
				if !shares[tn] {
					return
				}
				n++
				k++
				inst := fmt.Sprintf("C11/ALIAS:%s:load#%d", fkey, k)
				if len(loops) == 0 {
					r.OK("C11/ALIAS", inst, prog.Pos(call.Pos()), "one load per call")
					return
				}
				outer := loops[0]
				if o.Pos() >= outer.Pos() && o.Pos() <= outer.End() {
					r.OK("C11/ALIAS", inst, prog.Pos(call.Pos()), "the decode target is declared inside the loop: fresh arrays for every file")
					return
				}
				r.Violation("C11/ALIAS", inst, prog.Pos(call.Pos()), fmt.Sprintf("%s loads several machines in a loop through one %s variable (%s) declared outside the loop: %s.Dejsoner hands the mirror's slices to the machine it returns, and decoding the next file into the same variable overwrites those arrays in place — the machine loaded first ends up with the later file's bonds / processors / shared-object links", fkey, tn, id.Name, tn))
			})
		})
	}
	r.Count("dejsoner_call_sites", n)
}

func derefType(t types.Type) types.Type {
	if p, ok := t.(*types.Pointer); ok {
		return p.Elem()
	}
	return t
}

// ---- C17/ABANDON --------------------------------------------------------------------------------
// A goroutine that does a plain (blocking) send or receive on a channel field stays blocked for ever if
// every counterpart of that operation may walk away: when the other side's operation on the same
// channel sits in a select with an alternative (ctx.Done, a timeout), the goroutine's own operation
// must sit in one too.
func c17Abandon(r *core.Run, prog *core.Program, rels []string) {
	n := 0
	for _, rel := range rels {
		pk := prog.Pkg(rel)
		if pk == nil {
			continue
		}
		info := pk.TypesInfo
		// functions launched with `go`
		launched := map[types.Object]bool{}
		core.FuncDecls(pk, func(_ *ast.File, fd *ast.FuncDecl) {
			if fd.Body == nil {
				return
			}
			ast.Inspect(fd.Body, func(m ast.Node) bool {
				if g, ok := m.(*ast.GoStmt); ok {
					if c := core.CalleeOf(info, g.Call); c != nil {
						launched[c] = true
					}
				}
				return true
			})
		})
		type op struct {
			send     bool
			fd       *ast.FuncDecl
			pos      token.Pos
			guarded  bool // inside a select with another comm clause
			launched bool
		}
		ops := map[*types.Var][]op{}
		core.FuncDecls(pk, func(_ *ast.File, fd *ast.FuncDecl) {
			if fd.Body == nil {
				return
			}
			isLaunched := launched[info.ObjectOf(fd.Name)]
			var visit func(n ast.Node, guarded bool)
			record := func(e ast.Expr, send bool, pos token.Pos, guarded bool) {
				if f := core.FieldOf(info, e); f != nil {
					if _, ok := f.Type().Underlying().(*types.Chan); ok {
						ops[f] = append(ops[f], op{send, fd, pos, guarded, isLaunched})
					}
				}
			}
			visit = func(n ast.Node, guarded bool) {
				ast.Inspect(n, func(m ast.Node) bool {
					switch x := m.(type) {
					case *ast.SelectStmt:
						multi := len(x.Body.List) >= 2
						for _, cl := range x.Body.List {
							cc := cl.(*ast.CommClause)
							if cc.Comm != nil {
								visit(cc.Comm, multi)
							}
							for _, s := range cc.Body {
								visit(s, false)
							}
						}
						return false
					case *ast.SendStmt:
						record(x.Chan, true, x.Pos(), guarded)
					case *ast.UnaryExpr:
						if x.Op == token.ARROW {
							record(x.X, false, x.Pos(), guarded)
						}
					case *ast.FuncLit:
						return false
					}
					return true
				})
			}
			visit(fd.Body, false)
		})
		for f, os := range ops {
			for i, o := range os {
				if !o.launched || o.guarded {
					continue
				}
				n++
				counterparts, abandonable := 0, 0
				for _, p := range os {
					if p.send != o.send {
						counterparts++
						if p.guarded {
							abandonable++
						}
					}
				}
				fkey := core.FuncKey(pk, o.fd)
				kind := "receive from"
				if o.send {
					kind = "send on"
				}
				inst := fmt.Sprintf("C17/ABANDON:%s:%s:%s#%d", fkey, f.Name(), strings.Fields(kind)[0], i)
				if counterparts > 0 && abandonable == counterparts {
					r.Violation("C17/ABANDON", inst, prog.Pos(o.pos), fmt.Sprintf("the goroutine %s does a blocking %s %s, but every counterpart of that operation sits in a select with an alternative (the other side may give up): once it has, this goroutine is blocked for ever and outlives the release of its owner", fkey, kind, f.Name()))
				} else {
					r.OK("C17/ABANDON", inst, prog.Pos(o.pos), "a counterpart that cannot walk away exists")
				}
			}
		}
	}
	r.Count("blocking_channel_ops_in_goroutines", n)
}

// ---- C04/FRESH ----------------------------------------------------------------------------------
// bondmachine.VM.Step moves the handshake lines through per-endpoint tables: a source table is written,
// a table derived from it (through Links, possibly through a local map) is rebuilt, the derived table
// is read. A statement that reads a derived table after one of the tables it was derived from has been
// written again — without the derivation in between — hands a stale valid/received line to a processor
// or to the outside: a producer sees an acknowledge that belongs to the previous value (the value is
// lost) or misses one (it is sent twice). The statement sequence of Step (one-line VM helper methods
// inlined) is interpreted twice in a row, so that what one tick leaves behind is seen by the next.
func c04Fresh(r *core.Run, prog *core.Program) {
	pk := prog.Pkg("pkg/bondmachine")
	if pk == nil {
		return
	}
	info := pk.TypesInfo
	decls := map[types.Object]*ast.FuncDecl{}
	var step *ast.FuncDecl
	core.FuncDecls(pk, func(_ *ast.File, fd *ast.FuncDecl) {
		if o := info.Defs[fd.Name]; o != nil {
			decls[o] = fd
		}
		if fd.Name.Name == "Step" && core.RecvTypeName(info, fd) == "VM" {
			step = fd
		}
	})
	if step == nil || step.Body == nil {
		r.Undecided("C04/FRESH", "C04/FRESH:pkg/bondmachine.VM.Step", "", "VM.Step not found")
		return
	}
	// the statement sequence, helper methods of VM inlined (depth 2)
	var seq []ast.Stmt
	var flatten func(stmts []ast.Stmt, depth int)
	flatten = func(stmts []ast.Stmt, depth int) {
		for _, s := range stmts {
			if es, ok := s.(*ast.ExprStmt); ok && depth < 2 {
				if call, ok := es.X.(*ast.CallExpr); ok {
					if c := core.CalleeOf(info, call); c != nil {
						if d, ok := decls[c]; ok && d.Body != nil && core.RecvTypeName(info, d) == "VM" {
							flatten(d.Body.List, depth+1)
							continue
						}
					}
				}
			}
			if as, ok := s.(*ast.AssignStmt); ok && depth < 2 && len(as.Rhs) == 1 {
				if call, ok := as.Rhs[0].(*ast.CallExpr); ok {
					if c := core.CalleeOf(info, call); c != nil {
						if d, ok := decls[c]; ok && d.Body != nil && core.RecvTypeName(info, d) == "VM" {
							flatten(d.Body.List, depth+1)
							continue
						}
					}
				}
			}
			seq = append(seq, s)
		}
	}
	flatten(step.Body.List, 0)
	// nodes: slice/map fields of VM and slice/map locals
	nodeOf := func(e ast.Expr) types.Object {
		e = ast.Unparen(e)
		if f := core.FieldOf(info, e); f != nil && core.IsField(f, "pkg/bondmachine", f.Name()) {
			switch f.Type().Underlying().(type) {
			case *types.Slice, *types.Map:
				if f.Name() != "Processors" {
					return f
				}
			}
			return nil
		}
		if id, ok := e.(*ast.Ident); ok {
			if v, ok := info.ObjectOf(id).(*types.Var); ok && !v.IsField() {
				switch v.Type().Underlying().(type) {
				case *types.Slice, *types.Map:
					if b, ok := v.Type().Underlying().(*types.Map); ok {
						if bb, ok := b.Elem().Underlying().(*types.Basic); ok && bb.Info()&types.IsString != 0 {
							return nil // debug text
						}
					}
					return v
				}
			}
		}
		return nil
	}
	type rw struct {
		w, rd map[types.Object]bool
		reset map[types.Object]bool
	}
	sets := make([]rw, len(seq))
	for i, s := range seq {
		cur := rw{map[types.Object]bool{}, map[types.Object]bool{}, map[types.Object]bool{}}
		lhsRoots := map[ast.Expr]bool{}
		ast.Inspect(s, func(m ast.Node) bool {
			if as, ok := m.(*ast.AssignStmt); ok {
				for li, l := range as.Lhs {
					switch x := ast.Unparen(l).(type) {
					case *ast.IndexExpr:
						if n := nodeOf(x.X); n != nil {
							cur.w[n] = true
							lhsRoots[x.X] = true
						}
					default:
						if n := nodeOf(l); n != nil {
							lhsRoots[l] = true
							// x = make(...) / x := make(...) resets the table
							if li < len(as.Rhs) {
								if call, ok := ast.Unparen(as.Rhs[li]).(*ast.CallExpr); ok {
									if id, ok := call.Fun.(*ast.Ident); ok && id.Name == "make" {
										cur.reset[n] = true
										continue
									}
								}
							}
							cur.w[n] = true
						}
					}
				}
			}
			return true
		})
		ast.Inspect(s, func(m ast.Node) bool {
			if call, ok := m.(*ast.CallExpr); ok && len(call.Args) == 1 {
				if id, ok := call.Fun.(*ast.Ident); ok && id.Name == "clear" {
					if n := nodeOf(call.Args[0]); n != nil {
						cur.reset[n] = true
						lhsRoots[call.Args[0]] = true
					}
				}
			}
			return true
		})
		ast.Inspect(s, func(m ast.Node) bool {
			e, ok := m.(ast.Expr)
			if !ok || lhsRoots[e] {
				return true
			}
			if n := nodeOf(e); n != nil {
				// an ident that is the Sel of a selector is visited through the selector
				cur.rd[n] = true
			}
			return true
		})
		sets[i] = cur
	}
	version := map[types.Object]int{}
	srcs := map[types.Object]map[types.Object]int{}
	bornStale := map[types.Object]string{}
	reported := map[string]bool{}
	nReads := 0
	var staleRec func(n types.Object, seen map[types.Object]bool) string
	staleRec = func(n types.Object, seen map[types.Object]bool) string {
		if seen[n] {
			return ""
		}
		seen[n] = true
		if w, ok := bornStale[n]; ok {
			return w
		}
		var names []string
		for s := range srcs[n] {
			names = append(names, s.Name())
		}
		sort.Strings(names)
		for _, nm := range names {
			for s, v := range srcs[n] {
				if s.Name() != nm {
					continue
				}
				if version[s] != v {
					return s.Name()
				}
				if w := staleRec(s, seen); w != "" {
					return w
				}
			}
		}
		return ""
	}
	staleWhy := func(n types.Object) string { return staleRec(n, map[types.Object]bool{}) }
	for pass := 0; pass < 2; pass++ {
		for i, s := range seq {
			cur := sets[i]
			for n := range cur.rd {
				if cur.w[n] {
					continue // accumulation into the table being built
				}
				nReads++
				inst := fmt.Sprintf("C04/FRESH:pkg/bondmachine.VM.Step:%s", n.Name())
				if why := staleWhy(n); why != "" && !reported[inst] {
					reported[inst] = true
					r.Violation("C04/FRESH", inst, prog.Pos(s.Pos()), fmt.Sprintf("VM.Step reads %s here although %s, from which it was derived, has been written since (tick %d of two consecutive ticks): the line handed on is the one of the previous value — a producer sees a stale acknowledge and its next value is lost, or misses one and repeats", n.Name(), why, pass+1))
				}
			}
			for n := range cur.reset {
				version[n]++
				srcs[n] = map[types.Object]int{}
				delete(bornStale, n)
			}
			for n := range cur.w {
				version[n]++
				m := map[types.Object]int{}
				delete(bornStale, n)
				for sN := range cur.rd {
					if sN == n {
						continue
					}
					m[sN] = version[sN]
					if why := staleWhy(sN); why != "" {
						bornStale[n] = why
					}
				}
				if len(m) > 0 || srcs[n] == nil {
					// keep sources from an earlier partial fill of the same derivation
					for k, v := range srcs[n] {
						if _, ok := m[k]; !ok && cur.reset[n] == false && version[k] == v {
							m[k] = v
						}
					}
					srcs[n] = m
				}
			}
		}
	}
	for n := range version {
		inst := fmt.Sprintf("C04/FRESH:pkg/bondmachine.VM.Step:%s", n.Name())
		if !reported[inst] {
			r.OK("C04/FRESH", inst, prog.Pos(step.Pos()), "never read after one of its sources was rewritten without re-deriving it")
		}
	}
	r.Count("step_tables", len(version))
	r.Count("step_table_reads", nReads)
}

// ---- C01/MEMO -----------------------------------------------------------------------------------
// The machine description (Arch, Conproc, Rom, Ram, Machine …) is a plain record whose fields the
// front-ends assign directly. A method that keeps a value computed from those fields in a receiver field
// and returns the kept value on later calls (a memo) while no other function ever stores that field (no
// invalidation) hands out a stale width once a front-end changes a parameter: the assembler, the
// simulator and the HDL generators then disagree on the instruction word (C01, C03, C16).
func c01Memo(r *core.Run, prog *core.Program) {
	pk := prog.Pkg("pkg/procbuilder")
	if pk == nil {
		return
	}
	info := pk.TypesInfo
	// stores per field, per function, over the whole module
	storedIn := map[*types.Var]map[string]bool{}
	for _, p := range prog.Pkgs {
		pinfo := p.TypesInfo
		p := p
		core.FuncDecls(p, func(_ *ast.File, fd *ast.FuncDecl) {
			if fd.Body == nil {
				return
			}
			key := core.FuncKey(p, fd)
			ast.Inspect(fd.Body, func(m ast.Node) bool {
				switch x := m.(type) {
				case *ast.AssignStmt:
					for _, l := range x.Lhs {
						if f := core.FieldOf(pinfo, l); f != nil {
							if storedIn[f] == nil {
								storedIn[f] = map[string]bool{}
							}
							storedIn[f][key] = true
						}
					}
				case *ast.IncDecStmt:
					if f := core.FieldOf(pinfo, x.X); f != nil {
						if storedIn[f] == nil {
							storedIn[f] = map[string]bool{}
						}
						storedIn[f][key] = true
					}
				}
				return true
			})
		})
	}
	n := 0
	core.FuncDecls(pk, func(_ *ast.File, fd *ast.FuncDecl) {
		if fd.Body == nil || fd.Recv == nil || len(fd.Recv.List) == 0 || len(fd.Recv.List[0].Names) == 0 || fd.Type.Results == nil {
			return
		}
		recv := info.ObjectOf(fd.Recv.List[0].Names[0])
		rootIsRecv := func(e ast.Expr) bool {
			se, ok := ast.Unparen(e).(*ast.SelectorExpr)
			if !ok {
				return false
			}
			id, ok := ast.Unparen(se.X).(*ast.Ident)
			return ok && info.ObjectOf(id) == recv
		}
		stored := map[*types.Var]token.Pos{}
		returned := map[*types.Var]bool{}
		ast.Inspect(fd.Body, func(m ast.Node) bool {
			switch x := m.(type) {
			case *ast.AssignStmt:
				for _, l := range x.Lhs {
					if rootIsRecv(l) {
						if f := core.FieldOf(info, l); f != nil {
							stored[f] = x.Pos()
						}
					}
				}
			case *ast.ReturnStmt:
				for _, res := range x.Results {
					e := ast.Unparen(res)
					if call, ok := e.(*ast.CallExpr); ok && len(call.Args) == 1 {
						if tv, ok := info.Types[call.Fun]; ok && tv.IsType() {
							e = ast.Unparen(call.Args[0])
						}
					}
					if rootIsRecv(e) {
						if f := core.FieldOf(info, e); f != nil {
							returned[f] = true
						}
					}
				}
			}
			return true
		})
		key := core.FuncKey(pk, fd)
		for f, pos := range stored {
			if !returned[f] {
				continue
			}
			n++
			inst := fmt.Sprintf("C01/MEMO:%s:%s", key, f.Name())
			if len(storedIn[f]) <= 1 {
				r.Violation("C01/MEMO", inst, prog.Pos(pos), fmt.Sprintf("%s keeps a computed value in the field %s and returns the kept value, and no other function ever stores that field (nothing invalidates it): the machine description's parameters are assigned directly by the front-ends, so after such an assignment the method keeps returning the value of the old parameters — the assembler pads to one instruction width while the generators reloaded from JSON use another", key, f.Name()))
			} else {
				r.OK("C01/MEMO", inst, prog.Pos(pos), "the kept field is also stored elsewhere (set or invalidated by other code)")
			}
		}
	})
	r.Count("memo_candidates", n)
}
