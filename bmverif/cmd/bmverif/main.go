// bmverif: repository-specific static checkers for BondMachine (see /verif/DESIGN.md).
package main

import (
	"fmt"
	"os"
	"sort"

	"bmverif/internal/checks"
	"bmverif/internal/core"
)

func usage() {
	fmt.Fprintln(os.Stderr, "usage: bmverif check <Cnn> [--tier quick|thorough]\n       bmverif explain <replay.json>\n       bmverif list")
	os.Exit(2)
}

func main() {
	if len(os.Args) < 2 {
		usage()
	}
	switch os.Args[1] {
	case "list":
		ids := []string{}
		for id := range checks.Registry {
			ids = append(ids, id)
		}
		sort.Strings(ids)
		for _, id := range ids {
			fmt.Println(id)
		}
	case "check":
		if len(os.Args) < 3 {
			usage()
		}
		id := os.Args[2]
		tier := os.Getenv("VERIF_TIER")
		for i := 3; i < len(os.Args); i++ {
			if os.Args[i] == "--tier" && i+1 < len(os.Args) {
				tier = os.Args[i+1]
			}
		}
		if tier != "thorough" {
			tier = "quick"
		}
		fn, ok := checks.Registry[id]
		if !ok {
			fmt.Fprintf(os.Stderr, "no check registered for %s\n", id)
			os.Exit(2)
		}
		r := core.NewRun(id, tier)
		func() {
			defer func() {
				if e := recover(); e != nil {
					r.Fatal("analyser panic: %v", e)
					if os.Getenv("BMVERIF_DEBUG") != "" {
						panic(e)
					}
				}
			}()
			fn(r)
		}()
		os.Exit(r.Finish())
	case "check-all":
		// bmverif check-all <outdir> [Cnn...]: the self-test scripts' fast path. Runs the named checks
		// (default: all) one after the other in ONE process, sharing the loaded program between
		// checks that ask for the same configuration; writes <outdir>/<id>.out and <outdir>/<id>.rc.
		// The registered commands never use it.
		if len(os.Args) < 3 {
			usage()
		}
		outdir := os.Args[2]
		ids := os.Args[3:]
		if len(ids) == 0 {
			for id := range checks.Registry {
				ids = append(ids, id)
			}
		}
		sort.Strings(ids)
		tier := os.Getenv("VERIF_TIER")
		if tier != "thorough" {
			tier = "quick"
		}
		core.ShareLoads = true
		stdout := os.Stdout
		for _, id := range ids {
			fn, ok := checks.Registry[id]
			if !ok {
				fmt.Fprintf(os.Stderr, "no check registered for %s\n", id)
				os.Exit(2)
			}
			f, err := os.Create(outdir + "/" + id + ".out")
			if err != nil {
				fmt.Fprintln(os.Stderr, err)
				os.Exit(2)
			}
			os.Stdout = f
			checks.ResetGlobals()
			r := core.NewRun(id, tier)
			func() {
				defer func() {
					if e := recover(); e != nil {
						r.Fatal("analyser panic: %v", e)
					}
				}()
				fn(r)
			}()
			rc := r.Finish()
			os.Stdout = stdout
			f.Close()
			os.WriteFile(outdir+"/"+id+".rc", []byte(fmt.Sprintf("%d\n", rc)), 0o644)
		}
	case "debug-effects":
		checks.DebugEffects(os.Args[2])
	case "manifest":
		// bmverif manifest <path> [fix commits...]
		if len(os.Args) < 3 {
			usage()
		}
		if err := checks.WriteManifest(os.Args[2], os.Args[3:]); err != nil {
			fmt.Fprintln(os.Stderr, err)
			os.Exit(2)
		}
	case "explain":
		if len(os.Args) < 3 {
			usage()
		}
		os.Exit(checks.Explain(os.Args[2]))
	default:
		usage()
	}
}
