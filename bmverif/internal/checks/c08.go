package checks

import (
	"fmt"
	"go/ast"
	"go/constant"
	"go/token"
	"go/types"
	"regexp"
	"regexp/syntax"
	"sort"
	"strings"

	"bmverif/internal/core"
)

// C08 — "at most one notation accepts any string", decided exactly on the
// regular languages of the matcher table, plus the writer/reader agreement
// between each regex's named groups and the import function that consumes them.

func init() { register("C08", checkC08) }

type matcherKey struct {
	re      string
	pos     string
	owner   string // type whose importMatchers registers it
	impFunc *types.Func
	impName string
}

func checkC08(r *core.Run) {
	r.Explanation = "Decides one clause of C08: the regular languages of all keys that can reach bmnumbers.AllMatchers are pairwise disjoint " +
		"(product automaton over regexp/syntax programs, exhaustive over all strings; a jointly accepted shortest witness is printed), every key is a compile-time constant and anchored, " +
		"and every ${group} an import function substitutes is a named group of every regex registered for it. " +
		"Does NOT decide: value round trips import(export(v))==v, stated widths, ExportBinaryNBits length, float rounding."
	r.Assumptions = []string{
		"ImportString matches with regexp.MatchString on the map key itself (checked: the key is compiled unchanged)",
		"matcher keys reach AllMatchers only through importMatchers() results or direct constant-key stores (checked: any other store to AllMatchers is undecided)",
	}
	prog := r.Load(core.LoadConfig{})
	if prog == nil {
		return
	}
	pk := prog.Pkg("pkg/bmnumbers")
	if pk == nil {
		r.Fatal("pkg/bmnumbers not loaded")
		return
	}
	info := pk.TypesInfo
	var keys []matcherKey
	nFuncs := 0

	addKey := func(keyExpr ast.Expr, val ast.Expr, owner string) {
		tv, ok := info.Types[keyExpr]
		pos := prog.Pos(keyExpr.Pos())
		if !ok || tv.Value == nil || tv.Value.Kind() != constant.String {
			r.Undecided("C08/CONSTKEY", "C08/CONSTKEY:"+owner+":"+types.ExprString(keyExpr), pos, "matcher key is not a compile-time string constant; its language cannot be decided statically")
			return
		}
		mk := matcherKey{re: constant.StringVal(tv.Value), pos: pos, owner: owner}
		if val != nil {
			if id, ok := ast.Unparen(val).(*ast.Ident); ok {
				if f, ok := info.Uses[id].(*types.Func); ok {
					mk.impFunc = f
					mk.impName = f.Name()
				}
			}
		}
		keys = append(keys, mk)
	}

	// 1. every method named importMatchers, and every direct store to AllMatchers
	core.FuncDecls(pk, func(file *ast.File, fd *ast.FuncDecl) {
		if fd.Name.Name == "importMatchers" && fd.Recv != nil {
			nFuncs++
			owner := core.RecvTypeName(info, fd)
			ast.Inspect(fd.Body, func(n ast.Node) bool {
				switch x := n.(type) {
				case *ast.AssignStmt:
					for i, l := range x.Lhs {
						ie, ok := l.(*ast.IndexExpr)
						if !ok {
							continue
						}
						if _, isMap := info.TypeOf(ie.X).Underlying().(*types.Map); !isMap {
							continue
						}
						var v ast.Expr
						if i < len(x.Rhs) {
							v = x.Rhs[i]
						}
						addKey(ie.Index, v, owner)
					}
				case *ast.CompositeLit:
					if _, isMap := info.TypeOf(x).Underlying().(*types.Map); isMap {
						for _, el := range x.Elts {
							if kv, ok := el.(*ast.KeyValueExpr); ok {
								addKey(kv.Key, kv.Value, owner)
							}
						}
					}
				}
				return true
			})
			return
		}
		// stores to the global AllMatchers outside importMatchers
		ast.Inspect(fd.Body, func(n ast.Node) bool {
			as, ok := n.(*ast.AssignStmt)
			if !ok {
				return true
			}
			for i, l := range as.Lhs {
				ie, ok := l.(*ast.IndexExpr)
				if !ok {
					continue
				}
				id, ok := ast.Unparen(ie.X).(*ast.Ident)
				if !ok {
					continue
				}
				v, ok := info.Uses[id].(*types.Var)
				if !ok || v.Name() != "AllMatchers" || v.Parent() != pk.Types.Scope() {
					continue
				}
				// accepted idiom: key is the range key over <x>.importMatchers()
				if kid, ok := ast.Unparen(ie.Index).(*ast.Ident); ok && isRangeKeyOverImportMatchers(info, fd, kid) {
					r.OK("C08/WRITER", "C08/WRITER:"+core.FuncKey(pk, fd), prog.Pos(as.Pos()), "AllMatchers filled from importMatchers() result")
					continue
				}
				var val ast.Expr
				if i < len(as.Rhs) {
					val = as.Rhs[i]
				}
				addKey(ie.Index, val, core.FuncKey(pk, fd))
			}
			return true
		})
	})
	// other packages must not write AllMatchers at all
	for _, op := range prog.Pkgs {
		if op == pk {
			continue
		}
		for id, obj := range op.TypesInfo.Uses {
			if v, ok := obj.(*types.Var); ok && v.Name() == "AllMatchers" && v.Pkg() == pk.Types {
				// a read is fine; flag index-assignments
				_ = id
			}
		}
		core.FuncDecls(op, func(file *ast.File, fd *ast.FuncDecl) {
			ast.Inspect(fd.Body, func(n ast.Node) bool {
				as, ok := n.(*ast.AssignStmt)
				if !ok {
					return true
				}
				for _, l := range as.Lhs {
					e := l
					if ie, ok := l.(*ast.IndexExpr); ok {
						e = ie.X
					}
					if sel, ok := ast.Unparen(e).(*ast.SelectorExpr); ok {
						if v, ok := op.TypesInfo.Uses[sel.Sel].(*types.Var); ok && v.Name() == "AllMatchers" && v.Pkg() == pk.Types {
							r.Undecided("C08/WRITER", "C08/WRITER:"+core.FuncKey(op, fd), prog.Pos(as.Pos()), "AllMatchers written outside pkg/bmnumbers; the matcher set is no longer the one analysed")
						}
					}
				}
				return true
			})
		})
	}

	sort.Slice(keys, func(i, j int) bool { return keys[i].re < keys[j].re })
	// de-duplicate identical keys (the same key registered twice is a single map entry,
	// but if two different import functions claim it the winner is order dependent)
	var uniq []matcherKey
	for _, k := range keys {
		if n := len(uniq); n > 0 && uniq[n-1].re == k.re {
			if uniq[n-1].impName != k.impName {
				r.Violation("C08/DISJOINT", "C08/DISJOINT:samekey:"+k.re, k.pos, fmt.Sprintf("key %q registered for two import functions (%s, %s)", k.re, uniq[n-1].impName, k.impName))
			}
			continue
		}
		uniq = append(uniq, k)
	}
	keys = uniq
	r.Count("importMatchers_methods", nFuncs)
	r.Count("matcher_regexes", len(keys))

	// 2. compile and check anchoring
	type compiled struct {
		k    matcherKey
		prog *syntax.Prog
		re   *syntax.Regexp
	}
	var cs []compiled
	for _, k := range keys {
		inst := "C08/ANCHOR:" + k.re
		re, err := syntax.Parse(k.re, syntax.Perl)
		if err != nil {
			r.Violation("C08/COMPILE", "C08/COMPILE:"+k.re, k.pos, "regexp.MustCompile would panic in ImportString: "+err.Error())
			continue
		}
		// MatchString semantics: match anywhere => wrap in (?s:.*) on both sides
		wrapped, err := syntax.Parse("(?s:.*)(?:"+k.re+")(?s:.*)", syntax.Perl)
		if err != nil {
			r.Undecided("C08/COMPILE", "C08/COMPILE:"+k.re, k.pos, "cannot wrap regex: "+err.Error())
			continue
		}
		p, err := syntax.Compile(wrapped.Simplify())
		if err != nil {
			r.Undecided("C08/COMPILE", "C08/COMPILE:"+k.re, k.pos, err.Error())
			continue
		}
		cs = append(cs, compiled{k, p, re})
		if anchored(re) {
			r.OK("C08/ANCHOR", inst, k.pos, "anchored ^…$")
		} else {
			r.Violation("C08/ANCHOR", inst, k.pos, "matcher regex is not anchored with ^…$: MatchString accepts any string containing a match, so it overlaps with every other notation")
		}
	}

	// 3. pairwise disjointness
	pairs := 0
	for i := 0; i < len(cs); i++ {
		for j := i + 1; j < len(cs); j++ {
			pairs++
			a, b := cs[i], cs[j]
			inst := "C08/DISJOINT:" + a.k.re + " & " + b.k.re
			w, ok, why := intersectWitness(a.prog, b.prog)
			if why != "" {
				r.Undecided("C08/DISJOINT", inst, a.k.pos, why)
				continue
			}
			if ok {
				// cross-check the witness with the real regexp engine (guards the checker itself)
				ra, rb := regexp.MustCompile(a.k.re), regexp.MustCompile(b.k.re)
				if !ra.MatchString(w) || !rb.MatchString(w) {
					r.Undecided("C08/DISJOINT", inst, a.k.pos, fmt.Sprintf("internal: product automaton witness %q is not accepted by both regexes", w))
					continue
				}
				r.Violation("C08/DISJOINT", inst, a.k.pos, fmt.Sprintf("both notations accept %q (%s registered by %s at %s; %s registered by %s at %s): which meaning wins depends on map iteration order", w, a.k.re, a.k.owner, r.Rel(a.k.pos), b.k.re, b.k.owner, r.Rel(b.k.pos)))
			} else {
				r.OK("C08/DISJOINT", inst, a.k.pos, "languages disjoint (product automaton exhausted)")
			}
		}
	}
	r.Count("regex_pairs", pairs)

	// 4. named groups used by the import function exist in the regex
	groupUses := importFuncGroups(pk.TypesInfo, pk.Syntax)
	nGroupObl := 0
	for _, c := range cs {
		if c.k.impFunc == nil {
			continue
		}
		names := map[string]bool{}
		for _, n := range c.re.CapNames() {
			if n != "" {
				names[n] = true
			}
		}
		used := groupUses[c.k.impFunc]
		var ul []string
		for g := range used {
			ul = append(ul, g)
		}
		sort.Strings(ul)
		for _, g := range ul {
			nGroupObl++
			inst := "C08/GROUPS:" + c.k.re + ":" + c.k.impName + ":" + g
			if names[g] {
				r.OK("C08/GROUPS", inst, c.k.pos, "group ${"+g+"} consumed by "+c.k.impName+" is defined by the regex")
			} else {
				r.Violation("C08/GROUPS", inst, c.k.pos, fmt.Sprintf("import function %s substitutes ${%s} but regex %q defines no such named group (ReplaceAllString yields the empty string: literal is mis-parsed or rejected)", c.k.impName, g, c.k.re))
			}
		}
		// and the reverse: a named group nobody reads is a field of the notation that is dropped
		var nl []string
		for n := range names {
			nl = append(nl, n)
		}
		sort.Strings(nl)
		for _, n := range nl {
			if len(used) == 0 {
				continue
			}
			nGroupObl++
			inst := "C08/GROUPS:" + c.k.re + ":" + c.k.impName + ":unused:" + n
			if used[n] {
				r.OK("C08/GROUPS", inst, c.k.pos, "named group read by "+c.k.impName)
			} else {
				r.Violation("C08/GROUPS", inst, c.k.pos, fmt.Sprintf("regex %q captures (?P<%s>…) but import function %s never reads it: that part of the literal (e.g. its stated width) is ignored", c.k.re, n, c.k.impName))
			}
		}
	}
	r.Count("group_obligations", nGroupObl)
	ruleSingleParser(r, prog, "C08", nil)
}

func isRangeKeyOverImportMatchers(info *types.Info, fd *ast.FuncDecl, key *ast.Ident) bool {
	obj := info.ObjectOf(key)
	found := false
	ast.Inspect(fd.Body, func(n ast.Node) bool {
		rs, ok := n.(*ast.RangeStmt)
		if !ok {
			return true
		}
		kid, ok := rs.Key.(*ast.Ident)
		if !ok || info.ObjectOf(kid) != obj {
			return true
		}
		if call, ok := ast.Unparen(rs.X).(*ast.CallExpr); ok {
			if c := core.CalleeOf(info, call); c != nil && c.Name() == "importMatchers" {
				found = true
			}
		}
		return true
	})
	return found
}

// importFuncGroups collects, per function, the ${name} templates it passes to
// ReplaceAllString / Expand / SubexpIndex (string constants).
func importFuncGroups(info *types.Info, files []*ast.File) map[*types.Func]map[string]bool {
	out := map[*types.Func]map[string]bool{}
	groupRe := regexp.MustCompile(`\$\{([A-Za-z_][A-Za-z0-9_]*)\}|\$([A-Za-z_][A-Za-z0-9_]*)`)
	for _, f := range files {
		for _, d := range f.Decls {
			fd, ok := d.(*ast.FuncDecl)
			if !ok || fd.Body == nil {
				continue
			}
			fn, _ := info.Defs[fd.Name].(*types.Func)
			if fn == nil {
				continue
			}
			ast.Inspect(fd.Body, func(n ast.Node) bool {
				call, ok := n.(*ast.CallExpr)
				if !ok {
					return true
				}
				c := core.CalleeOf(info, call)
				if c == nil || c.Pkg() == nil || c.Pkg().Path() != "regexp" {
					return true
				}
				switch c.Name() {
				case "ReplaceAllString", "ReplaceAll", "Expand", "ExpandString":
					for _, a := range call.Args {
						if tv, ok := info.Types[a]; ok && tv.Value != nil && tv.Value.Kind() == constant.String {
							for _, m := range groupRe.FindAllStringSubmatch(constant.StringVal(tv.Value), -1) {
								g := m[1]
								if g == "" {
									g = m[2]
								}
								if out[fn] == nil {
									out[fn] = map[string]bool{}
								}
								out[fn][g] = true
							}
						}
					}
				case "SubexpIndex":
					for _, a := range call.Args {
						if tv, ok := info.Types[a]; ok && tv.Value != nil && tv.Value.Kind() == constant.String {
							if out[fn] == nil {
								out[fn] = map[string]bool{}
							}
							out[fn][constant.StringVal(tv.Value)] = true
						}
					}
				}
				return true
			})
		}
	}
	return out
}

// anchored reports whether re is ^…$ at top level (every alternative).
func anchored(re *syntax.Regexp) bool {
	re = re.Simplify()
	switch re.Op {
	case syntax.OpConcat:
		if len(re.Sub) == 0 {
			return false
		}
		return startsWith(re.Sub[0], syntax.OpBeginText) && endsWith(re.Sub[len(re.Sub)-1], syntax.OpEndText)
	case syntax.OpAlternate:
		for _, s := range re.Sub {
			if !anchored(s) {
				return false
			}
		}
		return true
	case syntax.OpCapture:
		return anchored(re.Sub[0])
	}
	return false
}

func startsWith(re *syntax.Regexp, op syntax.Op) bool {
	switch re.Op {
	case op:
		return true
	case syntax.OpConcat:
		return len(re.Sub) > 0 && startsWith(re.Sub[0], op)
	case syntax.OpCapture:
		return startsWith(re.Sub[0], op)
	case syntax.OpAlternate:
		for _, s := range re.Sub {
			if !startsWith(s, op) {
				return false
			}
		}
		return true
	}
	return false
}

func endsWith(re *syntax.Regexp, op syntax.Op) bool {
	switch re.Op {
	case op:
		return true
	case syntax.OpConcat:
		return len(re.Sub) > 0 && endsWith(re.Sub[len(re.Sub)-1], op)
	case syntax.OpCapture:
		return endsWith(re.Sub[0], op)
	case syntax.OpAlternate:
		for _, s := range re.Sub {
			if !endsWith(s, op) {
				return false
			}
		}
		return true
	}
	return false
}

// ---- product automaton over two syntax.Prog NFAs ------------------------------------

type pcset string // sorted pcs encoded

func encodeSet(m map[uint32]bool) pcset {
	l := make([]int, 0, len(m))
	for k := range m {
		l = append(l, int(k))
	}
	sort.Ints(l)
	var sb strings.Builder
	for _, v := range l {
		fmt.Fprintf(&sb, "%d,", v)
	}
	return pcset(sb.String())
}

// closure follows Alt/Capture/Nop and the empty-width assertions that hold under
// (atStart, atEnd). Threads blocked on an assertion stay in the set as that pc.
func closure(p *syntax.Prog, pcs []uint32, atStart, atEnd bool, unsupported *string) map[uint32]bool {
	seen := map[uint32]bool{}
	var stack []uint32
	stack = append(stack, pcs...)
	for len(stack) > 0 {
		pc := stack[len(stack)-1]
		stack = stack[:len(stack)-1]
		if seen[pc] {
			continue
		}
		seen[pc] = true
		in := &p.Inst[pc]
		switch in.Op {
		case syntax.InstAlt, syntax.InstAltMatch:
			stack = append(stack, in.Out, in.Arg)
		case syntax.InstCapture, syntax.InstNop:
			stack = append(stack, in.Out)
		case syntax.InstEmptyWidth:
			op := syntax.EmptyOp(in.Arg)
			ok := true
			if op&^(syntax.EmptyBeginText|syntax.EmptyEndText|syntax.EmptyBeginLine|syntax.EmptyEndLine) != 0 {
				*unsupported = "word-boundary assertion"
				ok = false
			}
			if op&(syntax.EmptyBeginLine|syntax.EmptyEndLine) != 0 {
				// (?m) anchors depend on the neighbouring rune; not used by the repo
				*unsupported = "multi-line anchor"
				ok = false
			}
			if op&syntax.EmptyBeginText != 0 && !atStart {
				ok = false
			}
			if op&syntax.EmptyEndText != 0 && !atEnd {
				ok = false
			}
			if ok {
				stack = append(stack, in.Out)
			}
		}
	}
	return seen
}

func hasMatch(p *syntax.Prog, s map[uint32]bool) bool {
	for pc := range s {
		if p.Inst[pc].Op == syntax.InstMatch {
			return true
		}
	}
	return false
}

func step(p *syntax.Prog, s map[uint32]bool, r rune) []uint32 {
	var out []uint32
	for pc := range s {
		in := &p.Inst[pc]
		switch in.Op {
		case syntax.InstRune, syntax.InstRune1, syntax.InstRuneAny, syntax.InstRuneAnyNotNL:
			if in.MatchRune(r) {
				out = append(out, in.Out)
			}
		}
	}
	return out
}

// representatives returns one rune per cell of the partition induced by all
// rune classes of both programs.
func representatives(ps ...*syntax.Prog) []rune {
	bounds := map[rune]bool{0: true, '\n': true, '\n' + 1: true}
	fold := false
	for _, p := range ps {
		for i := range p.Inst {
			in := &p.Inst[i]
			switch in.Op {
			case syntax.InstRune, syntax.InstRune1:
				if syntax.Flags(in.Arg)&syntax.FoldCase != 0 {
					fold = true
				}
				rs := in.Rune
				if len(rs) == 1 {
					bounds[rs[0]] = true
					bounds[rs[0]+1] = true
				}
				for k := 0; k+1 < len(rs); k += 2 {
					bounds[rs[k]] = true
					bounds[rs[k+1]+1] = true
				}
			}
		}
	}
	if fold {
		for c := rune(0); c < 0x250; c++ {
			bounds[c] = true
		}
	}
	var out []rune
	for b := range bounds {
		if b >= 0 && b <= 0x10FFFF && !(b >= 0xD800 && b <= 0xDFFF) {
			out = append(out, b)
		}
	}
	sort.Slice(out, func(i, j int) bool { return out[i] < out[j] })
	// prefer printable representatives first so witnesses read well
	sort.SliceStable(out, func(i, j int) bool { return printable(out[i]) && !printable(out[j]) })
	return out
}

func printable(r rune) bool { return r > 0x20 && r < 0x7f }

// intersectWitness explores the product of the two (subset-constructed) automata and
// returns a shortest jointly accepted string, if any.
func intersectWitness(a, b *syntax.Prog) (string, bool, string) {
	reps := representatives(a, b)
	unsupported := ""
	type node struct {
		sa, sb map[uint32]bool
		parent int
		r      rune
	}
	sa0 := closure(a, []uint32{uint32(a.Start)}, true, false, &unsupported)
	sb0 := closure(b, []uint32{uint32(b.Start)}, true, false, &unsupported)
	nodes := []node{{sa0, sb0, -1, 0}}
	seen := map[[2]pcset]bool{{encodeSet(sa0), encodeSet(sb0)}: true}
	accept := func(n node, atStart bool) bool {
		ca := closure(a, keysOf(n.sa), atStart, true, &unsupported)
		cb := closure(b, keysOf(n.sb), atStart, true, &unsupported)
		return hasMatch(a, ca) && hasMatch(b, cb)
	}
	build := func(i int) string {
		var rs []rune
		for i > 0 {
			rs = append(rs, nodes[i].r)
			i = nodes[i].parent
		}
		for l, r := 0, len(rs)-1; l < r; l, r = l+1, r-1 {
			rs[l], rs[r] = rs[r], rs[l]
		}
		return string(rs)
	}
	for i := 0; i < len(nodes); i++ {
		if accept(nodes[i], i == 0) {
			if unsupported != "" {
				return "", false, "regex uses " + unsupported + " (outside the decided fragment)"
			}
			return build(i), true, ""
		}
		if len(nodes) > 200000 {
			return "", false, "product automaton exceeds 200000 states"
		}
		for _, r := range reps {
			na := step(a, nodes[i].sa, r)
			nb := step(b, nodes[i].sb, r)
			if len(na) == 0 || len(nb) == 0 {
				continue
			}
			ca := closure(a, na, false, false, &unsupported)
			cb := closure(b, nb, false, false, &unsupported)
			k := [2]pcset{encodeSet(ca), encodeSet(cb)}
			if seen[k] {
				continue
			}
			seen[k] = true
			nodes = append(nodes, node{ca, cb, i, r})
		}
	}
	if unsupported != "" {
		return "", false, "regex uses " + unsupported + " (outside the decided fragment)"
	}
	return "", false, ""
}

func keysOf(m map[uint32]bool) []uint32 {
	out := make([]uint32, 0, len(m))
	for k := range m {
		out = append(out, k)
	}
	return out
}

var _ = token.NoPos

func init() {
	describe("C08", Meta{
		Technique: "regular-language disjointness by product automaton over regexp/syntax programs extracted from the type-checked source (go/constant), plus named-group writer/reader agreement",
		Claim:     "Decides exactly, over all strings, the clause 'at most one notation accepts any string' for every regex that can reach bmnumbers.AllMatchers, and that each import function only substitutes groups its regexes define. A necessary condition of C08; value round-trips and stated widths are not decided. (SINGLEPARSER) a string handed to bmnumbers.ImportString is not also read with strconv in the same function.",
		Note:      "Trusts regexp/syntax's parser/compiler (the same one the repo uses at run time) and that matcher keys are compile-time constants (a non-constant key is reported as undecided). Each witness is re-validated with regexp.MatchString.",
		DesignRef: "DESIGN.md §2 C08",
	})
}
