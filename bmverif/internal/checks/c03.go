package checks

import (
	"fmt"
	"go/ast"
	"go/token"
	"go/types"
	"sort"
	"strings"

	"bmverif/internal/core"
)

func init() {
	register("C03", checkC03)
	describe("C03", Meta{
		Technique: "symbolic instruction-field algebra (LAYOUT): the field lists written by each Assembler, read by each Disassembler and declared by Op_get_instruction_len are extracted from the AST as linear forms over the architecture's widths and compared, in all four execution-mode cases; field provenance gives the range-check clause",
		Claim:     "Decides structural clauses of C03 for every opcode type: (a) the nominal length declared by Op_get_instruction_len equals opcode bits plus the widths the Assembler appends, and the Assembler pads from exactly that length up to Max_word(); (b) every slice the Disassembler reads is a field the Assembler wrote (same offset, same width); (c) every field the Assembler appends is bounded by its width by construction (register lookup loop bounded by 2^width, Process_input/output/shared bounded by the port/object count) or the accepting function rejects words whose length is not Max_word(). (RANGE) the index a Process_* helper turns into a field is bounded on both sides. (DECODEWIDTH) a base-2 strconv.Parse* used to decode bit strings parses at 64 bits and looks at its error. (L3K) the Disassembler prints a register/input/output field with the name function that inverts the Assembler's parser for it. Symbolic in every width, so all register sizes and R/N/M/L/O at once. Necessary conditions; Process_number's parsing and asm(disasm(w)) outside the assembler's image are not decided.",
		Note:      "The Assembler idioms are the six shapes found in the tree (result/partial += zeros_prefix(W, get_binary(i) | partial), result += partial, result += \"0\" pad loop); an expression outside the recognised forms yields a '?' symbol and makes the obligation undecided.",
		DesignRef: "DESIGN.md §1.5, §2 C03",
	})
}

var layoutModes = []string{"ha", "vn", "hyO", "hyL"}

func posOf(prog *core.Program, v *opViews, f lfield) string { return prog.Pos(f.pos) }

func matchField(f lfield, fields []lfield) bool {
	for _, e := range fields {
		if e.off.eq(f.off) && e.w.eq(f.w) {
			return true
		}
	}
	return false
}

func fieldsString(fs []lfield) string {
	var p []string
	for _, f := range fs {
		p = append(p, f.String())
	}
	return "{" + strings.Join(p, " ") + "}"
}

func checkC03(r *core.Run) {
	r.Explanation = "Decides structural clauses of C03 with the LAYOUT engine: L1 declared length == opcode bits + sum of assembled field widths == start of the pad loop; L2 the Assembler pads to Max_word(); L3 every Disassembler slice is an assembled field; L6 every assembled field is bounded by its width by construction, or word length is checked against Max_word() by the accepting function. All four mode cases (ha, vn, hy with O>L, hy with O<=L). " +
		"Does NOT decide: numeric-literal parsing (C08), normalisation of the printed operands, words outside the assembler's image."
	prog := r.Load(core.LoadConfig{})
	if prog == nil {
		return
	}
	nOps := 0
	seenObl := map[string]bool{}
	lengthChecked := wordLengthChecked(prog)
	for _, mode := range layoutModes {
		views, names := collectViews(prog, mode)
		for _, n := range names {
			v := views[n]
			if !v.hasAsm || len(v.lens) == 0 {
				continue
			}
			if mode == "ha" {
				nOps++
			}
			key := "pkg/procbuilder." + n
			// in a mode where the opcode declares length 0 it is not available
			allZero := true
			for _, l := range v.lens {
				if l.String() != "0" {
					allZero = false
				}
			}
			if allZero {
				continue
			}
			report := func(ok bool, rule, what, pos, okd, bad string, undecided bool) {
				inst := fmt.Sprintf("C03/%s:%s:%s", rule, key, what)
				k := inst + "|" + fmt.Sprint(ok)
				if seenObl[k] {
					return
				}
				seenObl[k] = true
				full := inst + "@" + mode
				if seenObl[inst+"#ok"] && ok {
					return
				}
				switch {
				case undecided:
					r.Undecided("C03/"+rule, full, pos, bad)
				case ok:
					seenObl[inst+"#ok"] = true
					r.OK("C03/"+rule, inst, pos, okd+" (mode "+mode+")")
				default:
					r.Violation("C03/"+rule, inst, pos, bad+" [mode "+mode+"]")
				}
			}
			sum := lsym("opbits")
			unknown := false
			for _, f := range v.asm {
				sum = sum.add(f.w, 1)
				if f.w.unknown() {
					unknown = true
				}
			}
			for _, u := range v.unknowns {
				report(false, "L1", "uninterpreted", u, "", "construct outside the recognised forms: "+u, true)
			}
			// L1
			lenOK := false
			for _, l := range v.lens {
				if l.eq(sum) {
					lenOK = true
				}
			}
			var ls []string
			for _, l := range v.lens {
				ls = append(ls, l.String())
			}
			report(lenOK, "L1", "len", prog.Pos(v.lenPos), "declared length equals opcode bits + assembled widths",
				fmt.Sprintf("%s declares instruction length %s but its Assembler writes opcode + fields %s = %s bits: Max_word()/padding and the decoder disagree with the encoder about where the instruction ends", n, strings.Join(ls, " | "), fieldsString(v.asm), sum), unknown)
			// L2 + pad start
			if len(v.pads) == 0 {
				report(false, "L2", "pad", prog.Pos(v.asmPos), "", fmt.Sprintf("%s.Assembler has no loop padding the word with zeros up to Max_word(): its words are shorter than the ROM word whenever it is not the longest opcode of the processor", n), false)
			} else {
				okp := true
				for _, p := range v.pads {
					if !p.eq(sum) {
						okp = false
					}
				}
				report(okp, "L2", "pad", prog.Pos(v.padPos), "pads from the nominal length up to Max_word()",
					fmt.Sprintf("%s.Assembler starts padding at %s but has written %s bits: the word comes out %s Max_word()", n, v.pads[0], sum, map[bool]string{true: "longer/shorter than", false: "different from"}[true]), unknown)
			}
			// L3
			for i, f := range v.dis {
				report(matchField(f, v.asm), "L3", fmt.Sprintf("dis%d:%s", i, f.src), prog.Pos(f.pos), "disassembler slice is an assembled field",
					fmt.Sprintf("%s.Disassembler reads %s = %s, which is not a field its Assembler writes %s: disassembly does not give back the operands that were assembled", n, f.src, f, fieldsString(v.asm)), f.off.unknown() || f.w.unknown())
			}
			// L3K: the disassembler prints each field with the name function that inverts the assembler's parser
			for i, f := range v.dis {
				var af *lfield
				for k := range v.asm {
					if v.asm[k].off.eq(f.off) && v.asm[k].w.eq(f.w) {
						af = &v.asm[k]
					}
				}
				if af == nil || af.kind == "" || af.kind == "shared" || af.kind == "number" {
					continue
				}
				for _, u := range f.uses {
					if u == "number" {
						continue // a plain number print of a port index is lossy in name only; not decided
					}
					report(u == af.kind, "L3K", fmt.Sprintf("dis%d:%s", i, f.src), prog.Pos(f.pos), "field printed with the matching name function",
						fmt.Sprintf("%s.Disassembler prints the field %s with a %s name, but its Assembler parses that field as a %s name: disassembly does not give back the instruction that was assembled (and re-assembling it fails or encodes another operand)", n, f, u, af.kind), false)
				}
			}
			// L6
			for i, f := range v.asm {
				bounded := false
				why := ""
				switch {
				case strings.HasPrefix(f.src, "index<"):
					b := strings.TrimPrefix(f.src, "index<")
					want := "2^(" + f.w.String() + ")"
					// an index beyond the field's capacity lengthens the word, which the acceptor rejects
					bounded = b == want || lengthChecked
					why = "lookup loop bound " + b + " vs field capacity " + want + ", and the accepting function does not check the word length"
				case strings.HasPrefix(f.src, "Process_input"), strings.HasPrefix(f.src, "Process_output"), strings.HasPrefix(f.src, "Process_shared"):
					bounded = true // bounded by the port / object count, whose bit width is the field width by definition of Inputs_bits/Outputs_bits/Shared_bits
				case strings.HasPrefix(f.src, "Process_number"):
					bounded = lengthChecked
					why = "immediate parsed by Process_number is unbounded, and the accepting function does not check the word length"
				default:
					why = "unrecognised value source " + f.src
				}
				und := !bounded && (f.src == "?" || strings.HasPrefix(f.src, "get_binary(?)"))
				report(bounded, "L6", fmt.Sprintf("field%d", i), prog.Pos(f.pos), "field bounded by its width",
					fmt.Sprintf("%s.Assembler field %d (width %s) is not bounded by its width (%s): an operand that does not fit lengthens the word instead of being rejected", n, i, f.w, why), und)
			}
		}
	}
	r.Count("opcode_types_with_assembler", nOps)
	var ds int
	for _, o := range r.Obl {
		if o.Rule == "C03/L3" {
			ds++
		}
	}
	r.Count("disassembler_slices", ds)
	kp := 0
	for _, o := range r.Obl {
		if o.Rule == "C03/L3K" {
			kp++
		}
	}
	r.Count("printer_kind_fields", kp)
	decodeWidth(r, prog, "C03")
	c03OperandRange(r, prog)
	_ = sort.Strings
}

// wordLengthChecked: does Arch.Assembler_process_line (the accepting function) reject words whose
// length differs from Max_word() on every path that returns a word?
func wordLengthChecked(prog *core.Program) bool {
	// decided structurally in layout_accept.go
	return acceptorChecksLength(prog)
}

// c03DecodeWidth (C03/DECODEWIDTH): instruction fields are as wide as the register size (up to 64
// bits). A conversion of a bit string to a number in pkg/procbuilder through strconv.ParseInt /
// ParseUint with base 2 must therefore parse at 64 bits (bitSize 0 or 64) and must not drop the
// error: a narrower bitSize makes ParseUint clamp (and report an error that a `_` discards), so a
// wide field decodes to another value than was encoded. Expected population on this tree: none
// (get_id converts by hand); the rule exists for the day the hand-written loop is replaced.
func decodeWidth(r *core.Run, prog *core.Program, prop string) {
	pk := prog.Pkg("pkg/procbuilder")
	if pk == nil {
		return
	}
	info := pk.TypesInfo
	n := 0
	core.FuncDecls(pk, func(_ *ast.File, fd *ast.FuncDecl) {
		k := 0
		ast.Inspect(fd.Body, func(nd ast.Node) bool {
			var call *ast.CallExpr
			dropped := false
			switch x := nd.(type) {
			case *ast.AssignStmt:
				if len(x.Rhs) == 1 && len(x.Lhs) == 2 {
					if c, ok := ast.Unparen(x.Rhs[0]).(*ast.CallExpr); ok {
						call = c
						if id, ok := x.Lhs[1].(*ast.Ident); ok && id.Name == "_" {
							dropped = true
						}
					}
				}
			default:
				return true
			}
			if call == nil || len(call.Args) != 3 {
				return true
			}
			c := core.CalleeOf(info, call)
			if c == nil || c.Pkg() == nil || c.Pkg().Path() != "strconv" || (c.Name() != "ParseInt" && c.Name() != "ParseUint") {
				return true
			}
			btv, ok := info.Types[call.Args[1]]
			if !ok || btv.Value == nil || btv.Value.String() != "2" {
				return true
			}
			k++
			n++
			inst := fmt.Sprintf("%s/DECODEWIDTH:%s:parse%d", prop, core.FuncKey(pk, fd), k)
			size := "?"
			if tv, ok := info.Types[call.Args[2]]; ok && tv.Value != nil {
				size = tv.Value.String()
			}
			switch {
			case size != "0" && size != "64":
				r.Violation(prop+"/DECODEWIDTH", inst, prog.Pos(call.Pos()), fmt.Sprintf("%s decodes a bit string with strconv.%s(…, 2, %s): a field wider than %s bits (fields are as wide as the register size, up to 64) is clamped to the maximum instead of decoded — the disassembler and the simulator see another operand than the one that was encoded (and than the one the Verilog template slices out of the word)", core.FuncKey(pk, fd), c.Name(), size, size))
			case dropped:
				r.Violation(prop+"/DECODEWIDTH", inst, prog.Pos(call.Pos()), fmt.Sprintf("%s decodes a bit string with strconv.%s and discards the error: a field the parse cannot represent (over-long, or with the top bit set under a signed parse) silently decodes to a clamped value, so the simulator and the disassembler use another operand than the generated hardware, which takes the bits as they are", core.FuncKey(pk, fd), c.Name()))
			default:
				r.OK(prop+"/DECODEWIDTH", inst, prog.Pos(call.Pos()), "base-2 parse at 64 bits with the error looked at")
			}
			return true
		})
	})
	r.Count("base2_parses", n)
}


// c03OperandRange (C03/RANGE): the Process_* helpers turn an operand name into the binary index
// that fills a field. L6 trusts them to return only indices of existing ports/objects, so the rule
// looks inside: every get_binary(v) they return must have v bounded on BOTH sides — a counter of
// `for v := 0; v < n; v++` / `for v := range n`, or a value tested against 0 and against the count on the
// path. A parsed number checked only from above lets a negative index through: get_binary(-1) is the
// text "-1", which fits a wide enough field and puts a '-' into the ROM word.
func c03OperandRange(r *core.Run, prog *core.Program) {
	pk := prog.Pkg("pkg/procbuilder")
	info := pk.TypesInfo
	n := 0
	// the Process_* helpers and the package functions they delegate to
	scope := map[*ast.FuncDecl]bool{}
	decls := map[types.Object]*ast.FuncDecl{}
	core.FuncDecls(pk, func(_ *ast.File, fd *ast.FuncDecl) {
		if o := info.Defs[fd.Name]; o != nil {
			decls[o] = fd
		}
	})
	core.FuncDecls(pk, func(_ *ast.File, fd *ast.FuncDecl) {
		if fd.Recv != nil || !strings.HasPrefix(fd.Name.Name, "Process_") {
			return
		}
		scope[fd] = true
		ast.Inspect(fd.Body, func(m ast.Node) bool {
			if call, ok := m.(*ast.CallExpr); ok {
				if d, ok := decls[core.CalleeOf(info, call)]; ok && d.Recv == nil {
					scope[d] = true
				}
			}
			return true
		})
	})
	core.FuncDecls(pk, func(_ *ast.File, fd *ast.FuncDecl) {
		if !scope[fd] {
			return
		}
		// counters bounded by construction
		counter := map[types.Object]bool{}
		ast.Inspect(fd.Body, func(m ast.Node) bool {
			switch x := m.(type) {
			case *ast.ForStmt:
				as, ok1 := x.Init.(*ast.AssignStmt)
				be, ok2 := x.Cond.(*ast.BinaryExpr)
				if ok1 && ok2 && len(as.Lhs) == 1 && len(as.Rhs) == 1 && be.Op == token.LSS {
					if id, ok := as.Lhs[0].(*ast.Ident); ok {
						if tv, ok := info.Types[as.Rhs[0]]; ok && tv.Value != nil && tv.Value.String() == "0" {
							if cid, ok := ast.Unparen(be.X).(*ast.Ident); ok && info.ObjectOf(cid) == info.ObjectOf(id) {
								counter[info.ObjectOf(id)] = true
							}
						}
					}
				}
			case *ast.RangeStmt:
				if b, ok := info.TypeOf(x.X).Underlying().(*types.Basic); ok && b.Info()&types.IsInteger != 0 {
					if id, ok := x.Key.(*ast.Ident); ok {
						counter[info.ObjectOf(id)] = true
					}
				}
			}
			return true
		})
		k := 0
		ast.Inspect(fd.Body, func(m ast.Node) bool {
			call, ok := m.(*ast.CallExpr)
			if !ok || len(call.Args) != 1 {
				return true
			}
			if c := core.CalleeOf(info, call); c == nil || c.Name() != "get_binary" {
				return true
			}
			k++
			n++
			inst := fmt.Sprintf("C03/RANGE:%s:value%d", core.FuncKey(pk, fd), k)
			arg := ast.Unparen(call.Args[0])
			id, isID := arg.(*ast.Ident)
			bounded := false
			why := "the value is not a counter of a loop from 0 to the count"
			if isID {
				o := info.ObjectOf(id)
				if counter[o] {
					bounded = true
				} else {
					if b, ok := o.Type().Underlying().(*types.Basic); ok && b.Info()&types.IsUnsigned != 0 {
						// unsigned: only the upper bound matters
						lower := true
						_ = lower
					}
					// both bounds tested somewhere in the function on this variable
					lo, hi := false, false
					ast.Inspect(fd.Body, func(k2 ast.Node) bool {
						be, ok := k2.(*ast.BinaryExpr)
						if !ok {
							return true
						}
						x, xok := ast.Unparen(be.X).(*ast.Ident)
						y, yok := ast.Unparen(be.Y).(*ast.Ident)
						isV := func(i *ast.Ident, ok bool) bool { return ok && info.ObjectOf(i) == o }
						zero := func(e ast.Expr) bool {
							tv, ok := info.Types[e]
							return ok && tv.Value != nil && tv.Value.String() == "0"
						}
						switch be.Op {
						case token.GEQ:
							if isV(x, xok) && zero(be.Y) {
								lo = true
							}
							if isV(y, yok) && !zero(be.X) {
								hi = true
							}
						case token.LSS:
							if isV(x, xok) && !zero(be.Y) {
								hi = true
							}
							if isV(y, yok) && zero(be.X) {
								lo = true // 0 < v is stricter than needed but bounds below
							}
						case token.LEQ:
							if isV(y, yok) && zero(be.X) {
								lo = true
							}
						case token.GTR:
							if isV(y, yok) && !zero(be.X) {
								hi = true
							}
						}
						return true
					})
					if b, ok := o.Type().Underlying().(*types.Basic); ok && b.Info()&types.IsUnsigned != 0 {
						lo = true
					}
					bounded = lo && hi
					switch {
					case !lo && hi:
						why = "it is tested against the count but never against 0 (a negative index passes)"
					case lo && !hi:
						why = "it is tested against 0 but never against the count"
					case !lo && !hi:
						why = "it is not tested against 0 nor against the count"
					}
				}
			}
			if bounded {
				r.OK("C03/RANGE", inst, prog.Pos(call.Pos()), "the index turned into a field is bounded on both sides")
			} else {
				r.Violation("C03/RANGE", inst, prog.Pos(call.Pos()), fmt.Sprintf("%s returns get_binary(%s) for a value that is not bounded on both sides (%s): an operand naming a port or object that does not exist is encoded instead of rejected — get_binary of a negative number even yields a '-' character, which fits a wide enough field and ends up in the ROM word", core.FuncKey(pk, fd), types.ExprString(arg), why))
			}
			return true
		})
	})
	r.Count("operand_index_conversions", n)
}
