package checks

import (
	"fmt"
	"go/ast"
	"go/token"
	"go/types"
	"os"
	"sort"
	"strings"

	"bmverif/internal/core"
	"golang.org/x/tools/go/packages"
	"golang.org/x/tools/go/ssa"
)

func init() {
	register("C07", checkC07)
	describe("C07", Meta{
		Technique: "commutativity classification of every range-over-map loop reachable (CHA) from the artefact entry points, call-graph reachability of the clock and the PRNG, and the sorted-before-store rule for opcode lists",
		Claim:     "Decides structural clauses of C07: no function reachable from an artefact-producing entry point (assembler, compiler, neural/quantum front-ends, HDL and JSON writers) (M) lets hash-map iteration order reach an artefact — every such loop's body consists only of commutative effects (distinct-key map writes, integer accumulation, set insertion, collect-then-sort, element-confined writes, diagnostics, failing returns) or is a listed, individually justified exception; (T) reaches time.Now or math/rand; (S) stores an opcode list that is not sorted by name; (G) collects the results of goroutines launched in a loop from a channel and appends/concatenates them in completion order. A necessary condition for byte-identical artefacts; other sources of nondeterminism (directory order, %p formatting) are not decided.",
		Note:      "The loop-body classification is exact on the commutative forms and conservative otherwise; each residual loop was read and is either a known finding (with the artefact it perturbs) or a benign exception with its reason in the checker.",
		DesignRef: "DESIGN.md §2 C07",
	})
}

// artefact entry points: (package, receiver or "", function name prefix)
var c07Entries = []struct{ rel, recv, name string }{
	{"pkg/basm", "BasmInstance", "ParseAssembly"},
	{"pkg/basm", "BasmInstance", "RunAssembler"},
	{"pkg/basm", "BasmInstance", "Assembler2BondMachine"},
	{"pkg/basm", "BasmInstance", "Assembler2BCOF"},
	{"pkg/basm", "BasmInstance", "Assembler2Cluster"},
	{"pkg/bondmachine", "Bondmachine", "Write_verilog"},
	{"pkg/bondmachine", "Bondmachine", "Jsoner"},
	{"pkg/bondmachine", "Bondmachine", "Dot"},
	{"pkg/procbuilder", "Machine", "Jsoner"},
	{"pkg/procbuilder", "Machine", "Write_verilog"},
	{"pkg/bondgo", "BondgoCheck", "Visit"},
	{"pkg/bondgo", "BondgoCheck", "Create_"},
	{"pkg/bondgo", "BondgoCheck", "Write_assembly"},
	{"pkg/bondgo", "BondgoRequirements", "Usage_Monitor"},
	{"pkg/bondgo", "BondgoRuninfo", "Var_assigner"},
	{"pkg/neuralbond", "", "Write"},
	{"pkg/neuralbond", "TrainedNet", "Write"},
	{"pkg/neuralbond", "TrainedNet", "Normalize"},
	{"pkg/bmqsim", "BmQSimulator", "QasmToBmMatrices"},
	{"pkg/bmqsim", "BmQSimulator", "Emit"},
	{"pkg/bmqsim", "BmQSimulator", "Verilog"},
	{"pkg/bmnumbers", "", "ImportString"},
	{"pkg/bmreqs", "ReqRoot", "Requirement"},
	{"pkg/bmreqs", "ReqRoot", "run"},
	{"pkg/bmreqs", "ReqRoot", "Export"},
	{"pkg/bmbuilder", "BMBuilder", "Build"},
	{"pkg/bmbuilder", "BMBuilder", "BMMerge"},
}

func checkC07(r *core.Run) {
	r.Explanation = "Decides structural clauses of C07 over everything reachable (class-hierarchy call graph, module-internal edges) from the artefact entry points: M every range over a map has a commutative body or is individually listed; T neither time.Now nor math/rand is reachable; S every opcode list stored into a processor was sorted. " +
		"Does NOT decide: whether two different map orders actually change bytes for a given input (the rule is conservative on sensitive loops, exact on insensitive ones), directory listing order, address-dependent formatting."
	prog := r.Load(core.LoadConfig{SSA: true})
	if prog == nil {
		return
	}
	// reachable set
	cg := prog.CHA()
	reach := map[*ssa.Function][]string{}
	var queue []*ssa.Function
	nEntries := 0
	for _, e := range c07Entries {
		sp := prog.SSAPkg(e.rel)
		if sp == nil {
			continue
		}
		for fn := range allFuncsOf(prog, sp) {
			if fn.Parent() != nil || !strings.HasPrefix(fn.Name(), e.name) {
				continue
			}
			k := core.SSAFuncKey(fn)
			if e.recv != "" && !strings.Contains(k, "."+e.recv+".") {
				continue
			}
			if e.recv == "" && fn.Signature.Recv() != nil {
				continue
			}
			if _, ok := reach[fn]; !ok {
				reach[fn] = []string{k}
				queue = append(queue, fn)
				nEntries++
			}
		}
	}
	sort.Slice(queue, func(i, j int) bool { return queue[i].String() < queue[j].String() })
	var timeRand []string
	seenTR := map[string]bool{}
	for len(queue) > 0 {
		fn := queue[0]
		queue = queue[1:]
		n := cg.Nodes[fn]
		if n == nil {
			continue
		}
		var outs []*ssa.Function
		for _, e := range n.Out {
			// a call of a function value (`nameOf(i)`): CHA answers with every function of that
			// signature in the program; the VTA graph, which follows the values that flow to the
			// call, is used for those sites. Interface calls and static calls keep the CHA answer.
			if e.Site != nil && !e.Site.Common().IsInvoke() && e.Site.Common().StaticCallee() == nil {
				if !vtaEdge(prog, fn, e.Site, e.Callee.Func) {
					continue
				}
			}
			outs = append(outs, e.Callee.Func)
		}
		sort.Slice(outs, func(i, j int) bool { return outs[i].String() < outs[j].String() })
		for _, c := range outs {
			if c.Pkg != nil {
				p := c.Pkg.Pkg.Path()
				if (p == "time" && c.Name() == "Now") || p == "math/rand" || p == "math/rand/v2" {
					k := core.SSAFuncKey(fn) + " -> " + p + "." + c.Name()
					if !seenTR[k] {
						seenTR[k] = true
						timeRand = append(timeRand, k+" | via "+strings.Join(reach[fn], " > "))
					}
				}
			}
			if !core.InModule(c) {
				continue
			}
			if _, ok := reach[c]; ok {
				continue
			}
			path := append(append([]string{}, reach[fn]...), core.SSAFuncKey(c))
			if len(path) > 6 {
				path = append(path[:2], path[len(path)-3:]...)
			}
			reach[c] = path
			queue = append(queue, c)
		}
	}
	r.Count("artefact_entry_points", nEntries)
	r.Count("reachable_functions", len(reach))
	reachObj := map[types.Object][]string{}
	for fn, p := range reach {
		if o := fn.Object(); o != nil {
			reachObj[o] = p
		}
		// closures: attribute to the parent declaration
		if par := fn.Parent(); par != nil {
			for par.Parent() != nil {
				par = par.Parent()
			}
			if o := par.Object(); o != nil {
				if _, ok := reachObj[o]; !ok {
					reachObj[o] = p
				}
			}
		}
	}

	// ---- T
	sort.Strings(timeRand)
	if len(timeRand) == 0 {
		r.OK("C07/TIMERAND", "C07/TIMERAND:none", "", "neither time.Now nor math/rand is reachable from an artefact entry point")
	}
	for _, t := range timeRand {
		parts := strings.SplitN(t, " | via ", 2)
		inst := "C07/TIMERAND:" + parts[0]
		if why, ok := c07BenignTimeRand[parts[0]]; ok {
			r.Note("C07/TIMERAND", inst, "", "benign exception: "+why)
			continue
		}
		r.Violation("C07/TIMERAND", inst, "", "the clock / process-wide PRNG is reachable from an artefact-producing entry point ("+parts[0]+"): two runs on the same input can differ", parts[1])
	}

	// ---- S: opcode lists are canonicalised (sorted by name) wherever a processor is built. This is what
	// makes the run-dependent order of procbuilder.Allopcodes (dynamic opcodes are appended while
	// ranging over maps) invisible in the artefacts.
	if pb := prog.Pkg("pkg/procbuilder"); pb != nil {
		if tn, ok := pb.Types.Scope().Lookup("Conproc").(*types.TypeName); ok {
			st := tn.Type().Underlying().(*types.Struct)
			for i := 0; i < st.NumFields(); i++ {
				if st.Field(i).Name() == "Op" {
					var fns []*ssa.Function
					for _, sp := range sortedSSAPkgs(prog) {
						for fn := range allFuncsOf(prog, sp) {
							fns = append(fns, fn)
						}
					}
					sort.Slice(fns, func(a, b int) bool { return fns[a].String() < fns[b].String() })
					opListSorted(r, prog, "C07", st.Field(i), fns)
				}
			}
		}
	}

	// ---- M
	nLoops, nIns := 0, 0
	for _, pk := range prog.Pkgs {
		info := pk.TypesInfo
		core.FuncDecls(pk, func(_ *ast.File, fd *ast.FuncDecl) {
			path, ok := reachObj[info.Defs[fd.Name]]
			if !ok {
				return
			}
			if !c07InScope(prog, pk.PkgPath, prog.Pos(fd.Pos())) {
				return
			}
			// diagnostic helpers are not artefact producers
			if fd.Name.Name == "String" || strings.HasPrefix(fd.Name.Name, "Dump") || strings.HasPrefix(fd.Name.Name, "Print") || strings.HasPrefix(fd.Name.Name, "dump") {
				return
			}
			k := 0
			ast.Inspect(fd.Body, func(n ast.Node) bool {
				rs, ok := n.(*ast.RangeStmt)
				if !ok {
					return true
				}
				t := info.TypeOf(rs.X)
				if t == nil {
					return true
				}
				if _, isMap := t.Underlying().(*types.Map); !isMap {
					return true
				}
				k++
				nLoops++
				c := &moCtx{prog: prog, pk: pk, info: info, fd: fd, rs: rs, local: map[types.Object]bool{}}
				if id, ok := rs.Key.(*ast.Ident); ok {
					c.key = info.ObjectOf(id)
				}
				if id, ok := rs.Value.(*ast.Ident); ok {
					c.val = info.ObjectOf(id)
				}
				c.innerLabels = map[string]bool{}
				ast.Inspect(rs.Body, func(m ast.Node) bool {
					if ls, ok := m.(*ast.LabeledStmt); ok {
						c.innerLabels[ls.Label.Name] = true
					}
					return true
				})
				// search idiom: the whole body is `if <range key> == <loop-invariant> { ... }`: keys are
				// unique, so the guarded effects happen at most once whatever the order
				if len(rs.Body.List) == 1 {
					if ifs, ok := rs.Body.List[0].(*ast.IfStmt); ok && ifs.Else == nil && ifs.Init == nil && c.key != nil {
						if be, ok := ast.Unparen(ifs.Cond).(*ast.BinaryExpr); ok && be.Op.String() == "==" {
							isKey := func(e ast.Expr) bool {
								id, ok := ast.Unparen(e).(*ast.Ident)
								return ok && info.ObjectOf(id) == c.key
							}
							inv := func(e ast.Expr) bool { return !mentions(info, e, c.key) && !mentions(info, e, c.val) }
							if (isKey(be.X) && inv(be.Y)) || (isKey(be.Y) && inv(be.X)) {
								nIns++
								r.OK("C07/MAPORDER", moKey(pk, fd, rs, k), prog.Pos(rs.Pos()), "search by key: at most one element matches")
								return true
							}
						}
					}
				}
				// a body that does not look at the element at all performs the same effect n times
				if c.key == nil && c.val == nil {
					nIns++
					r.OK("C07/MAPORDER", moKey(pk, fd, rs, k), prog.Pos(rs.Pos()), "body does not depend on the element")
					return true
				}
				c.stmt(rs.Body)
				inst := moKey(pk, fd, rs, k)
				pos := prog.Pos(rs.Pos())
				if !c.v.sensitive {
					nIns++
					d := "body is commutative"
					if c.sawDiag {
						d += " (diagnostic output in map order)"
					}
					r.OK("C07/MAPORDER", inst, pos, d)
					return true
				}
				if why, ok := c07BenignLoops[strings.TrimPrefix(inst, "C07/MAPORDER:")]; ok {
					r.Note("C07/MAPORDER", inst, pos, "benign exception: "+why)
					return true
				}
				r.Violation("C07/MAPORDER", inst, prog.Pos(c.v.pos), fmt.Sprintf("%s iterates %s (a map) and its body is order sensitive: %s (at %s). The function is reachable from an artefact entry point, so hash-map iteration order can reach the output", core.FuncKey(pk, fd), types.ExprString(rs.X), c.v.reason, r.Rel(prog.Pos(c.v.pos))), path...)
				return true
			})
		})
	}
	r.Count("map_range_loops_in_scope", nLoops)
	r.Count("map_range_loops_commutative", nIns)
	c07Arrival(r, prog)
}

// moKey names a map loop without using local identifiers (a rename must not change the key): the
// ranged expression is written with the TYPE of its root variable, e.g. `(ReqRoot).bmReqMap`,
// `(map[string]string)` for a local map; package-level variables keep their name.
func moKey(pk *packages.Package, fd *ast.FuncDecl, rs *ast.RangeStmt, k int) string {
	key := fmt.Sprintf("C07/MAPORDER:%s:range %s#%d", core.FuncKey(pk, fd), canonRangeExpr(pk.TypesInfo, rs.X), k)
	if f := os.Getenv("BMVERIF_KEYMAP"); f != "" {
		if fh, err := os.OpenFile(f, os.O_APPEND|os.O_CREATE|os.O_WRONLY, 0o644); err == nil {
			fmt.Fprintf(fh, "%s\t%s\n", fmt.Sprintf("C07/MAPORDER:%s:range %s#%d", core.FuncKey(pk, fd), types.ExprString(rs.X), k), key)
			fh.Close()
		}
	}
	return key
}

func canonRangeExpr(info *types.Info, e ast.Expr) string {
	switch x := ast.Unparen(e).(type) {
	case *ast.Ident:
		o := info.ObjectOf(x)
		if v, ok := o.(*types.Var); ok {
			if v.Parent() != nil && v.Pkg() != nil && v.Parent() == v.Pkg().Scope() {
				return x.Name // package-level variable
			}
			return "(" + shortType(v.Type()) + ")"
		}
		return x.Name
	case *ast.SelectorExpr:
		if _, ok := info.Selections[x]; ok {
			return canonRangeExpr(info, x.X) + "." + x.Sel.Name
		}
		return x.Sel.Name // qualified package-level identifier
	case *ast.IndexExpr:
		return canonRangeExpr(info, x.X) + "[]"
	case *ast.StarExpr:
		return canonRangeExpr(info, x.X)
	case *ast.CallExpr:
		if c := core.CalleeOf(info, x); c != nil {
			return c.Name() + "()"
		}
	}
	return types.ExprString(e)
}

func shortType(t types.Type) string {
	if p, ok := t.(*types.Pointer); ok {
		t = p.Elem()
	}
	if n, ok := t.(*types.Named); ok {
		return n.Obj().Name()
	}
	return types.TypeString(t, func(p *types.Package) string { return "" })
}

// c07Arrival (C07/ARRIVAL, rule G): goroutine completion order reaching an artefact. In a function of
// the artefact-producing packages, a local channel on which goroutines launched inside a loop send
// (`for … { go func() { … ch <- x }() }`) delivers in scheduler order; a loop that receives from it
// and appends / concatenates what it receives (without a later sort of that slice) builds its result
// in that order.
func c07Arrival(r *core.Run, prog *core.Program) {
	n := 0
	for _, pk := range prog.Pkgs {
		info := pk.TypesInfo
		core.FuncDecls(pk, func(_ *ast.File, fd *ast.FuncDecl) {
			if !c07InScope(prog, pk.PkgPath, prog.Pos(fd.Pos())) {
				return
			}
			// channels sent on by goroutines launched in a loop
			multi := map[types.Object]token.Pos{}
			var loops []ast.Node
			ast.Inspect(fd.Body, func(m ast.Node) bool {
				switch m.(type) {
				case *ast.ForStmt, *ast.RangeStmt:
					loops = append(loops, m)
				}
				return true
			})
			for _, l := range loops {
				ast.Inspect(l, func(m ast.Node) bool {
					g, ok := m.(*ast.GoStmt)
					if !ok {
						return true
					}
					var body ast.Node
					if fl, ok := g.Call.Fun.(*ast.FuncLit); ok {
						body = fl.Body
					}
					if body == nil {
						// go f(…, ch, …): the channel argument of a launched function that sends on its parameter
						for _, a := range g.Call.Args {
							if id, ok := ast.Unparen(a).(*ast.Ident); ok {
								if _, isChan := info.TypeOf(id).Underlying().(*types.Chan); isChan {
									multi[info.ObjectOf(id)] = g.Pos()
								}
							}
						}
						return true
					}
					ast.Inspect(body, func(k ast.Node) bool {
						if s, ok := k.(*ast.SendStmt); ok {
							if id, ok := ast.Unparen(s.Chan).(*ast.Ident); ok {
								if o := info.ObjectOf(id); o != nil {
									if v, ok := o.(*types.Var); ok && !v.IsField() && v.Parent() != v.Pkg().Scope() {
										multi[o] = g.Pos()
									}
								}
							}
						}
						return true
					})
					return true
				})
			}
			if len(multi) == 0 {
				return
			}
			k := 0
			for _, l := range loops {
				var body *ast.BlockStmt
				switch x := l.(type) {
				case *ast.ForStmt:
					body = x.Body
				case *ast.RangeStmt:
					body = x.Body
				}
				var ch types.Object
				ast.Inspect(body, func(m ast.Node) bool {
					if _, isGo := m.(*ast.GoStmt); isGo {
						return false
					}
					if u, ok := m.(*ast.UnaryExpr); ok && u.Op == token.ARROW {
						if id, ok := ast.Unparen(u.X).(*ast.Ident); ok {
							if _, isMulti := multi[info.ObjectOf(id)]; isMulti && ch == nil {
								ch = info.ObjectOf(id)
							}
						}
					}
					return true
				})
				if ch == nil {
					continue
				}
				k++
				n++
				inst := fmt.Sprintf("C07/ARRIVAL:%s:loop%d", core.FuncKey(pk, fd), k)
				what, wpos := "", token.NoPos
				ast.Inspect(body, func(m ast.Node) bool {
					as, ok := m.(*ast.AssignStmt)
					if !ok || what != "" || len(as.Lhs) != 1 || len(as.Rhs) != 1 {
						return true
					}
					if t := info.TypeOf(as.Lhs[0]); t != nil {
						if b, ok := t.Underlying().(*types.Basic); ok && b.Info()&types.IsString != 0 && as.Tok == token.ADD_ASSIGN {
							what, wpos = "string concatenation into "+types.ExprString(as.Lhs[0]), as.Pos()
						}
					}
					if call, ok := as.Rhs[0].(*ast.CallExpr); ok {
						if id, ok := call.Fun.(*ast.Ident); ok && id.Name == "append" {
							what, wpos = "append to "+types.ExprString(as.Lhs[0]), as.Pos()
						}
					}
					return true
				})
				if what == "" {
					r.OK("C07/ARRIVAL", inst, prog.Pos(l.Pos()), "results of the goroutines are consumed without building an order-sensitive value (e.g. stored at the sender's index)")
				} else {
					r.Violation("C07/ARRIVAL", inst, prog.Pos(wpos), fmt.Sprintf("%s launches one goroutine per element and collects their results from channel %s in completion order (%s): positions in the result — and every artefact numbered by them — depend on goroutine scheduling, so two runs on the same input differ", core.FuncKey(pk, fd), ch.Name(), what))
				}
			}
		})
	}
	r.Count("goroutine_result_collection_loops", n)
}

// benign exceptions, one loop each, with the reason it cannot perturb an artefact.
var c07BenignLoops = map[string]string{
	"pkg/basm.BasmInstance.Assembler2BCOF:range (BasmInstance).BMinfo.CPNames#1":   "search loop: the body is guarded by name == cp.GetValue() and CP names are unique in BMinfo (a second match is an explicit error), so the guarded effects run for one element only",
	"pkg/basm.clusterChecker:range (BasmInstance).clusteredNames#3":                "search loop nested in `for i := 0; i < len(...)`: it looks for the single name whose id equals i (ids are assigned 0..n-1 once per name) and breaks; the append happens once per i, in i order",
	"pkg/basm.dynamicalInstructions:range (BasmInstance).sections#1":               "the only order-dependent effect is the position at which a dynamically created opcode is appended to procbuilder.Allopcodes; every consumer that turns Allopcodes into an artefact sorts by name first — that is exactly rule S (C07/SORTED), which fails if such a sort disappears",
	"pkg/basm.dynamicalInstructions:range (BasmInstance).fragments#2":              "same as the sections loop: Allopcodes order is consumed only through name-sorted copies (rule S)",
	"pkg/bmnumbers.ImportString:range AllMatchers#1":                               "first-match return over the matcher table: the matcher languages are pairwise disjoint (decided exactly by C08), so at most one entry matches and the result does not depend on the order",
	"pkg/bmreqs.ReqRoot.Clone:range (bmReqObj).bmReqMap#1":                         "the assignment `node = node[1:]` only fires while node == \"/\", i.e. at most once with the same result; the remaining effects are OpAdd set insertions",
	"pkg/bondgo.BondgoCheck.Create_Bondmachine:range (BondgoCheck).IOr#2":          "Add_bond stores Links[<the named processor input>]; an input id is listed by one processor, so every iteration writes a different link slot",
	"pkg/bondgo.BondgoCheck.Create_Bondmachine:range (BondgoCheck).IOr#3":          "inner loop of the same pairing: same distinct-slot argument",
	"pkg/bondgo.BondgoCheck.Create_Bondmachine:range (BondgoCheck).IOr#5":          "ext_input[in_id] is written by the single processor that lists in_id among its inputs (the map key is fixed by the enclosing iteration); ext_input_keys is sorted before use",
	"pkg/bondgo.BondgoCheck.Create_Etherbond_Cluster:range (Residual).Map.Assoc#2": "counting loop: `connected`/`multi` end up true iff one / more than one entry matches, whatever the order; break only cuts the count short once multi is known",
	"pkg/bondgo.BondgoCheck.Create_Udpbond_Cluster:range (Residual).Map.Assoc#2":   "same counting loop as the etherbond variant",
	"pkg/bondgo.BondgoCheck.Expr_eval:range (BondgoCheck).Vars#1":                  "REQ_REMOVE requests for the callee's variables: each removes its own cell from the allocator's busy list and no code is emitted; the requests commute",
	"pkg/bondgo.BondgoCheck.Visit:range (BondgoCheck).Clean.Vars#1":                "REQ_REMOVE requests for the variables of a finished scope: each removes its own cell; no code is emitted; the requests commute",
	"pkg/bondmachine.Bondmachine.Write_verilog_board:range (map[string]string)#3":  "the body only tests `iores == \"board\"` and emits text that mentions neither key nor value: every matching element contributes the same text",
	"pkg/basm.callResolver:range (BasmInstance).sections#1":                        "maps.Copy fills `params`, a map made inside the iteration; all other effects go through the section being visited or are keyed by the section name",
}

var c07BenignTimeRand = map[string]string{}

// c07InScope: MAPORDER is decided for the packages/files the property is anchored in (the tool chain
// from source to JSON / assembly / Verilog); experimental back-ends (bondirect, etherbond/udpbond
// extra modules, bmbuilder, graphviz) are out of scope and listed in DESIGN.md.
func c07InScope(prog *core.Program, pkgPath, pos string) bool {
	rel := strings.TrimPrefix(pkgPath, core.ModPath+"/")
	switch rel {
	case "pkg/basm", "pkg/bmreqs", "pkg/bmnumbers", "pkg/bondgo", "pkg/neuralbond", "pkg/bmqsim", "pkg/procbuilder", "pkg/bmline", "pkg/bmmeta", "pkg/bmconfig", "cmd/basm", "cmd/bondgo", "cmd/neuralbond", "cmd/bmqsim":
		return true
	case "pkg/bondmachine", "cmd/bondmachine":
		return strings.Contains(pos, "/verilog") || strings.Contains(pos, "pkg/bondmachine/bondmachine.go") || strings.Contains(pos, "pkg/bondmachine/shr_")
	}
	return false
}

// vtaEdge reports whether the VTA call graph has the edge caller --site--> callee.
func vtaEdge(prog *core.Program, caller *ssa.Function, site ssa.CallInstruction, callee *ssa.Function) bool {
	n := prog.VTA().Nodes[caller]
	if n == nil {
		return true // not analysed by VTA: keep the CHA edge
	}
	for _, e := range n.Out {
		if e.Site == site && e.Callee.Func == callee {
			return true
		}
	}
	return false
}
