package checks

import (
	"fmt"
	"go/ast"
	"go/token"
	"go/types"
	"regexp"
	"sort"
	"strings"

	"bmverif/internal/core"
	"golang.org/x/tools/go/packages"
)

// C18/PORTS: the port lists of a shared object at the three module levels.
//
// A shared-object kind K contributes ports to the processor module and to its architecture wrapper
// through procbuilder.K.GetArchHeader (names in the module header), GetArchParams / GetCPParams
// (their input/output declarations), and to the top level through bondmachine.K_instance
// .GetPerProcPortsHeader + GetCPSharedPortsHeader (the actual wires, connected BY POSITION to the
// architecture instance) and ...Wires (their declarations). The rule extracts from each of these
// methods the list of ports it emits under each condition (the `for … range X.Op { if
// o.Op_get_name() == "r2q" …}` presence tests of the code) and requires, per kind and condition:
//
//	(a) names in the header == names declared by GetArchParams == names declared by GetCPParams
//	(b) #ports(GetArchHeader) == #ports(GetPerProcPortsHeader) + #ports(GetCPSharedPortsHeader)
//	(c) every wire named in a ...PortsHeader is declared by the matching ...PortsWires
//
// (b) is the "same number of ports" clause of C18 for the one place where the two sides are written
// in different packages; (a) and (c) are "every identifier is declared".

type portItems map[string][]string // condition key -> port suffixes in emission order

var (
	soPortDeclRe = regexp.MustCompile(`(?s)\b(?:input|output|inout)\b((?:\s+reg)?(?:\s*\[[^\]]*\])?)\s*([A-Za-z_§][A-Za-z0-9_§]*)\s*;`)
	soWireDeclRe = regexp.MustCompile(`(?s)\b(?:wire|reg)\b((?:\s*\[[^\]]*\])?)\s*([A-Za-z_§][A-Za-z0-9_§]*)\s*;`)
)

func suffixOf(tok string) string {
	if i := strings.LastIndex(tok, hole); i >= 0 {
		return tok[i+len(hole):]
	}
	return tok
}

// portsOf walks a generator method and returns the ports it emits per condition. declForm selects
// declaration parsing (input/output/wire … name;) instead of a comma list.
func portsOf(info *types.Info, fd *ast.FuncDecl, form string, siblings map[string]*ast.FuncDecl) (portItems, string) {
	items := portItems{}
	undecided := ""
	declForm := form != "list"
	re := soPortDeclRe
	if form == "wires" {
		re = soWireDeclRe
	}
	add := func(cond, text string) {
		if declForm {
			for _, m := range re.FindAllStringSubmatch(text, -1) {
				items[cond] = append(items[cond], suffixOf(m[2]))
			}
			return
		}
		for _, tok := range strings.Split(text, ",") {
			tok = strings.TrimSpace(tok)
			if tok == "" {
				continue
			}
			items[cond] = append(items[cond], suffixOf(tok))
		}
	}
	// local string temporaries that are pure (single assignment) are inlined by skeletonWith via temps
	temps := map[types.Object]string{}
	var walk func(list []ast.Stmt, cond string)
	opTest := func(e ast.Expr) (string, bool) {
		// X.HasOp("name")
		if call, ok := ast.Unparen(e).(*ast.CallExpr); ok && len(call.Args) == 1 {
			if c := core.CalleeOf(info, call); c != nil && c.Name() == "HasOp" {
				if s, ok := constStr(info, call.Args[0]); ok {
					return s, true
				}
			}
		}
		be, ok := ast.Unparen(e).(*ast.BinaryExpr)
		if !ok || be.Op != token.EQL {
			return "", false
		}
		for _, pr := range [][2]ast.Expr{{be.X, be.Y}, {be.Y, be.X}} {
			if call, ok := ast.Unparen(pr[0]).(*ast.CallExpr); ok {
				if c := core.CalleeOf(info, call); c != nil && c.Name() == "Op_get_name" {
					if s, ok := constStr(info, pr[1]); ok {
						return s, true
					}
				}
			}
		}
		return "", false
	}
	join := func(cond, k string) string {
		if cond == "" {
			return k
		}
		return cond + "&" + k
	}
	walk = func(list []ast.Stmt, cond string) {
		for _, st := range list {
			switch x := st.(type) {
			case *ast.AssignStmt:
				if len(x.Lhs) != 1 || len(x.Rhs) != 1 {
					continue
				}
				t := info.TypeOf(x.Lhs[0])
				if t == nil {
					continue
				}
				if b, ok := t.Underlying().(*types.Basic); !ok || b.Info()&types.IsString == 0 {
					continue
				}
				id, _ := x.Lhs[0].(*ast.Ident)
				if id != nil && id.Name != "result" && x.Tok == token.DEFINE {
					// a name prefix such as queueName := "q" + strconv.Itoa(seq): a hole
					continue
				}
				if id != nil && id.Name == "result" {
					if call, ok := ast.Unparen(x.Rhs[0]).(*ast.CallExpr); ok {
						if c := core.CalleeOf(info, call); c != nil {
							if sib, ok := siblings[c.Name()]; ok && sib != fd {
								sub, _ := portsOf(info, sib, form, nil)
								for sc, l := range sub {
									items[join(cond, sc)] = append(items[join(cond, sc)], l...)
								}
								continue
							}
						}
					}
					add(cond, skeletonWith(info, x.Rhs[0], temps))
				}
			case *ast.ReturnStmt:
				if len(x.Results) == 1 {
					if rid, ok := x.Results[0].(*ast.Ident); ok && rid.Name == "result" {
						continue
					}
					add(cond, skeletonWith(info, x.Results[0], temps))
				}
			case *ast.IfStmt:
				if x.Init != nil {
					// comma-ok lookups (soName, ok := …; ok) are transparent
					if id, ok := ast.Unparen(x.Cond).(*ast.Ident); ok && id.Name == "ok" {
						walk(x.Body.List, cond)
						continue
					}
				}
				if name, ok := opTest(x.Cond); ok {
					walk(x.Body.List, join(cond, "op:"+name))
				} else {
					walk(x.Body.List, join(cond, "if:"+types.ExprString(x.Cond)))
				}
				switch el := x.Else.(type) {
				case *ast.BlockStmt:
					walk(el.List, join(cond, "else:"+types.ExprString(x.Cond)))
				case *ast.IfStmt:
					walk([]ast.Stmt{el}, join(cond, "else:"+types.ExprString(x.Cond)))
				}
			case *ast.RangeStmt:
				// the opcode presence test: for _, op := range <…>.Op { if op.Op_get_name() == "x" { …; break } }
				if f := core.FieldOf(info, x.X); f != nil && f.Name() == "Op" {
					walk(x.Body.List, cond)
					continue
				}
				// a loop that only counts (no emission) is irrelevant; one that emits is a multiplicity we do not model
				emits := false
				ast.Inspect(x.Body, func(m ast.Node) bool {
					if as, ok := m.(*ast.AssignStmt); ok && len(as.Lhs) == 1 {
						if id, ok := as.Lhs[0].(*ast.Ident); ok && id.Name == "result" {
							emits = true
						}
					}
					return true
				})
				if emits {
					walk(x.Body.List, join(cond, "each:"+types.ExprString(x.X)))
				}
			case *ast.ForStmt:
				emits := false
				ast.Inspect(x.Body, func(m ast.Node) bool {
					if as, ok := m.(*ast.AssignStmt); ok && len(as.Lhs) == 1 {
						if id, ok := as.Lhs[0].(*ast.Ident); ok && id.Name == "result" {
							emits = true
						}
					}
					return true
				})
				if emits {
					c := ""
					if x.Cond != nil {
						c = types.ExprString(x.Cond)
					}
					walk(x.Body.List, join(cond, "for:"+c))
				}
			case *ast.BlockStmt:
				walk(x.List, cond)
			case *ast.SwitchStmt:
				for _, cl := range x.Body.List {
					cc := cl.(*ast.CaseClause)
					var ks []string
					for _, e := range cc.List {
						ks = append(ks, types.ExprString(e))
					}
					tag := ""
					if x.Tag != nil {
						tag = types.ExprString(x.Tag)
					}
					walk(cc.Body, join(cond, "case:"+tag+"="+strings.Join(ks, "|")))
				}
			}
		}
	}
	walk(fd.Body.List, "")
	return items, undecided
}

func c18Ports(r *core.Run, prog *core.Program) {
	pb := prog.Pkg("pkg/procbuilder")
	bm := prog.Pkg("pkg/bondmachine")
	if pb == nil || bm == nil {
		return
	}
	type kindM struct {
		pk *packages.Package
		fd *ast.FuncDecl
	}
	methods := map[string]map[string]kindM{} // type -> method -> decl
	collect := func(pk *packages.Package, names map[string]bool) {
		core.FuncDecls(pk, func(_ *ast.File, fd *ast.FuncDecl) {
			rn := core.RecvTypeName(pk.TypesInfo, fd)
			if rn == "" || !names[fd.Name.Name] {
				return
			}
			if methods[rn] == nil {
				methods[rn] = map[string]kindM{}
			}
			methods[rn][fd.Name.Name] = kindM{pk, fd}
		})
	}
	collect(pb, map[string]bool{"GetArchHeader": true, "GetArchParams": true, "GetCPParams": true})
	collect(bm, map[string]bool{"GetPerProcPortsHeader": true, "GetPerProcPortsWires": true, "GetCPSharedPortsHeader": true, "GetCPSharedPortsWires": true})
	var kinds []string
	for t, ms := range methods {
		if _, ok := ms["GetArchHeader"]; ok {
			kinds = append(kinds, t)
		}
	}
	sort.Strings(kinds)
	setOf := func(l []string) string {
		m := map[string]bool{}
		for _, x := range l {
			m[x] = true
		}
		var o []string
		for x := range m {
			o = append(o, x)
		}
		sort.Strings(o)
		return strings.Join(o, ",")
	}
	conds := func(ps ...portItems) []string {
		m := map[string]bool{}
		for _, p := range ps {
			for c := range p {
				m[c] = true
			}
		}
		var o []string
		for c := range m {
			o = append(o, c)
		}
		sort.Strings(o)
		return o
	}
	cname := func(c string) string {
		if c == "" {
			return "always"
		}
		return c
	}
	n := 0
	for _, k := range kinds {
		ms := methods[k]
		get := func(t, m string, form string) (portItems, bool) {
			km, ok := methods[t][m]
			if !ok {
				return nil, false
			}
			sib := map[string]*ast.FuncDecl{}
			for mn, o := range methods[t] {
				sib[mn] = o.fd
			}
			p, _ := portsOf(km.pk.TypesInfo, km.fd, form, sib)
			return p, true
		}
		hdr, _ := get(k, "GetArchHeader", "list")
		ap, okA := get(k, "GetArchParams", "ports")
		cp, okC := get(k, "GetCPParams", "ports")
		pos := prog.Pos(ms["GetArchHeader"].fd.Pos())
		// (a)
		if okA && okC {
			for _, c := range conds(hdr, ap, cp) {
				n++
				inst := fmt.Sprintf("C18/PORTS:%s:declared[%s]", k, cname(c))
				h, a, p := setOf(hdr[c]), setOf(ap[c]), setOf(cp[c])
				if h == a && h == p {
					r.OK("C18/PORTS", inst, pos, "header names, architecture declarations and processor declarations agree")
				} else {
					r.Violation("C18/PORTS", inst, pos, fmt.Sprintf("shared object %s, condition %s: the module header lists ports {%s}, GetArchParams declares {%s}, GetCPParams declares {%s}: a port in the header without a direction declaration (or a declaration of a name that is not a port) is rejected by a Verilog front end in every machine that attaches this object under that condition", k, cname(c), h, a, p))
				}
			}
		}
		// (b), (c)
		inst := k + "_instance"
		pph, ok1 := get(inst, "GetPerProcPortsHeader", "list")
		csh, ok2 := get(inst, "GetCPSharedPortsHeader", "list")
		ppw, ok3 := get(inst, "GetPerProcPortsWires", "wires")
		csw, ok4 := get(inst, "GetCPSharedPortsWires", "wires")
		if !ok1 || !ok2 {
			n++
			r.Undecided("C18/PORTS", fmt.Sprintf("C18/PORTS:%s:instance", k), pos, "no "+inst+" type with GetPerProcPortsHeader/GetCPSharedPortsHeader in pkg/bondmachine")
			continue
		}
		ipos := prog.Pos(methods[inst]["GetPerProcPortsHeader"].fd.Pos())
		for _, c := range conds(hdr, pph, csh) {
			n++
			in := fmt.Sprintf("C18/PORTS:%s:count[%s]", k, cname(c))
			want, got := len(hdr[c]), len(pph[c])+len(csh[c])
			if want == got {
				r.OK("C18/PORTS", in, ipos, fmt.Sprintf("%d ports on both sides of the positional connection", want))
			} else {
				r.Violation("C18/PORTS", in, ipos, fmt.Sprintf("shared object %s, condition %s: the architecture module takes %d ports for it (GetArchHeader: %s) but the top level connects %d wires by position (GetPerProcPortsHeader: %s; GetCPSharedPortsHeader: %s): the instance has a different number of ports than the module it instantiates, and every later port is shifted", k, cname(c), want, strings.Join(hdr[c], ","), got, strings.Join(pph[c], ","), strings.Join(csh[c], ",")))
			}
		}
		if ok3 {
			for _, c := range conds(pph, ppw) {
				n++
				in := fmt.Sprintf("C18/PORTS:%s:wires-perproc[%s]", k, cname(c))
				if setOf(pph[c]) == setOf(ppw[c]) {
					r.OK("C18/PORTS", in, ipos, "every per-processor wire connected at the top level is declared")
				} else {
					r.Violation("C18/PORTS", in, ipos, fmt.Sprintf("shared object %s, condition %s: the top level connects wires {%s} but declares {%s}", k, cname(c), setOf(pph[c]), setOf(ppw[c])))
				}
			}
		}
		if ok4 {
			for _, c := range conds(csh, csw) {
				n++
				in := fmt.Sprintf("C18/PORTS:%s:wires-shared[%s]", k, cname(c))
				if setOf(csh[c]) == setOf(csw[c]) {
					r.OK("C18/PORTS", in, ipos, "every shared wire connected at the top level is declared")
				} else {
					r.Violation("C18/PORTS", in, ipos, fmt.Sprintf("shared object %s, condition %s: the top level connects shared wires {%s} but declares {%s}", k, cname(c), setOf(csh[c]), setOf(csw[c])))
				}
			}
		}
	}
	r.Count("shared_object_kinds", len(kinds))
	r.Count("port_list_obligations", n)
}
