#!/bin/bash
# selftest.sh: (1) every registered check is silent (exit 0) on /repo as it is; (2) every variant under
# /verif/mutants (own, one seeded construct each) and every confirmed change under /verif/seeded that is
# recorded as detected is still reported by the check named for it. Scratch worktrees live under /tmp and
# are removed. Not part of quick/thorough (it must not touch /repo).
cd /verif
fail=0
for id in $(./bin/bmverif list); do
  (ulimit -v 30000000; ./bin/bmverif check $id >/tmp/selftest.$id.out 2>&1); rc=$?
  if [ $rc -ne 0 ] || grep -q "^VIOLATION" /tmp/selftest.$id.out; then echo "CLEAN-TREE FAIL $id (exit $rc)"; fail=1; else echo "clean  $id  $(grep ^summary /tmp/selftest.$id.out | cut -d' ' -f4-)"; fi
  rm -f /tmp/selftest.$id.out
done
for m in mutants/*.diff; do
  n=$(basename $m .diff); id=${n%%-*}
  if MAXLINES=1 scripts/try_patch.sh $m $id >/tmp/selftest.m.out 2>&1; then echo "caught $n by $id: $(grep -m1 VIOLATED /tmp/selftest.m.out | cut -c1-110)"; else echo "MISSED $n (expected $id)"; fail=1; fi
done
for d in seeded/*/; do
  n=$(basename $d); det=$(python3 -c "import json;print(json.load(open('$d/meta.json')).get('detected_by',''))")
  case "$det" in
    NOT\ DETECTED*|see\ *) echo "seed   $n: recorded as not detected ($(echo $det | cut -c1-70)...)"; continue;;
  esac
  ids=$(echo "$det" | grep -oE '\bC[0-9]{2}\b' | sort -u | tr '\n' ' ')
  ok=1
  for id in $ids; do
    if ! MAXLINES=1 scripts/try_patch.sh $d/patch.diff $id >/tmp/selftest.m.out 2>&1; then ok=0; echo "MISSED seed $n by $id"; fail=1; fi
  done
  [ $ok -eq 1 ] && echo "caught seed $n by $ids"
done
# (3) behaviour-preserving changes (neutral/*.diff: refactors written by independent sub-agents and neutral
# twins of seeded changes) must leave EVERY check silent. Skipped with NEUTRAL=0.
if [ "${NEUTRAL:-1}" = "1" ]; then
  for d in neutral/*.diff; do
    if MAXLINES=2 scripts/try_refactor.sh $d >/tmp/selftest.m.out 2>&1; then echo "silent $(basename $d)"; else echo "FALSE ALARM on $(basename $d)"; grep -E "^(ALARM|VIOLATED|UNDECIDED|FATAL|PATCH)" /tmp/selftest.m.out | cut -c1-200; fail=1; fi
  done
fi
rm -f /tmp/selftest.m.out
[ $fail -eq 0 ] && echo "SELFTEST OK" || echo "SELFTEST FAILED"
exit $fail
