#!/usr/bin/env python3
# gen_known.py <Cnn> [--write]: lists the violations the check reports on the current tree as candidate
# known-finding entries (what_fails = the check's own detail, witness = the concrete valuation it printed).
# A human decides which are genuine before --write merges them into known_findings.json.
import json,subprocess,sys,re
prop=sys.argv[1]
subprocess.run(['/verif/bin/bmverif','check',prop],stdout=subprocess.DEVNULL,stderr=subprocess.DEVNULL)
ev=json.load(open(f'/verif/evidence/{prop}.json'))
out=[]
for o in ev['coverage']['samples']:
    if o['status']!='violated' or o.get('known_finding'): continue
    d=o['detail']
    m=re.search(r'\[mode (\w+); e\.g\. (.*)\]$',d)
    wit=(m.group(2)+' (mode '+m.group(1)+')') if m else 'see what_fails; confirmed by reading '+o.get('pos','')
    what=re.sub(r' \[mode .*\]$','',d)
    out.append({"property":prop,"rule":o['rule'],"instance":o['instance'],"what_fails":what,"witness":wit})
if '--write' in sys.argv:
    k=json.load(open('/verif/known_findings.json'))
    have={(e['property'],e['instance']) for e in k['known']}
    k['known']+=[e for e in out if (e['property'],e['instance']) not in have]
    json.dump(k,open('/verif/known_findings.json','w'),indent=1)
    print('added',len([e for e in out if (e['property'],e['instance']) not in have]))
else:
    for e in out: print(e['instance'],'|',e['witness'][:120])
