package checks

import (
	"fmt"
	"go/ast"
	"go/constant"
	"go/token"
	"go/types"
	"sort"
	"strings"

	"bmverif/internal/core"
	"golang.org/x/tools/go/ssa"
)

func init() {
	register("C05", checkC05)
	describe("C05", Meta{
		Technique: "pass-table extraction from go/constant values (order, exhaustiveness, default mask), effect classification of every pass on go/ssa (which passes shift line indices), and switch-table agreement between each opcode's HLAssemblerMatch patterns and HLAssemblerNormalize",
		Claim:     "Decides structural clauses of C05: (a) the symbol tagger runs after the last pass that can shift instruction indices and before the resolver, the resolver is the last pass, and the default pass mask enables every mandatory pass; (b) every pass constant has an entry in each of the four pass tables (a missing function entry is a nil call); (c) every operation name an opcode advertises in HLAssemblerMatch has a case in its HLAssemblerNormalize that rewrites the operation to the opcode's own name (or is already it), so no pseudo-instruction survives to Arch.Assembler or is assembled by the wrong opcode. (d) FRESHNAME: a pass that files a section/fragment/macro/chunk under a numbered name it builds itself has tested that the name is free in the table it stores to and in the instance table of that kind, so a generated copy cannot replace a section of the program. Necessary conditions for 'every label denotes the instruction that followed it' and 'each pseudo-instruction is replaced'; the values (which index, which opcode among several matches, metadata precedence, literals) are not decided.",
		Note:      "A pass is index-shifting when it, or a module function it reaches, stores to BasmBody.Lines or inserts into the sections or fragments maps (new code that needs tagging); deleting a whole section does not move the labels of the others (decided on SSA with CHA). Optional passes are considered both enabled and disabled.",
		DesignRef: "DESIGN.md §2 C05",
	})
}

func checkC05(r *core.Run) {
	r.Explanation = "Decides structural clauses of C05: ORDER (label re-tagging after every index-shifting pass and before resolution; resolver last; default mask covers mandatory passes), TABLES (pass tables exhaustive and consistent), PSEUDO (pattern names of HLAssemblerMatch are handled and normalised to the opcode's own name). " +
		"Does NOT decide: that a label gets the right index, entry-point arithmetic, macro contents, metadata precedence (e.g. iomode), numeric literals, CP/IO wiring."
	prog := r.Load(core.LoadConfig{SSA: true})
	if prog == nil {
		return
	}
	pk := prog.Pkg("pkg/basm")
	if pk == nil {
		r.Fatal("pkg/basm not loaded")
		return
	}
	info := pk.TypesInfo
	// pass constants
	type pass struct {
		name string
		val  uint64
		obj  *types.Const
	}
	var passes []pass
	var lastPass uint64
	for _, n := range pk.Types.Scope().Names() {
		c, ok := pk.Types.Scope().Lookup(n).(*types.Const)
		if !ok {
			continue
		}
		v, isU := constant.Uint64Val(constant.ToInt(c.Val()))
		if n == "LAST_PASS" && isU {
			lastPass = v
			continue
		}
		if strings.HasPrefix(n, "pass") && isU && v != 0 && v&(v-1) == 0 {
			passes = append(passes, pass{n, v, c})
		}
	}
	sort.Slice(passes, func(i, j int) bool { return passes[i].val < passes[j].val })
	r.Count("pass_constants", len(passes))
	byVal := map[uint64]pass{}
	for _, p := range passes {
		byVal[p.val] = p
	}
	// tables: map literal returned by the four functions
	tables := map[string]map[uint64]ast.Expr{}
	core.FuncDecls(pk, func(_ *ast.File, fd *ast.FuncDecl) {
		switch fd.Name.Name {
		case "getPassFunction", "getPassFunctionName", "IsOptionalPass", "GetPassMnemonic":
		default:
			return
		}
		ast.Inspect(fd.Body, func(n ast.Node) bool {
			cl, ok := n.(*ast.CompositeLit)
			if !ok {
				return true
			}
			if _, isMap := info.TypeOf(cl).Underlying().(*types.Map); !isMap {
				return true
			}
			m := map[uint64]ast.Expr{}
			for _, el := range cl.Elts {
				kv, ok := el.(*ast.KeyValueExpr)
				if !ok {
					continue
				}
				if tv, ok := info.Types[kv.Key]; ok && tv.Value != nil {
					if v, ok := constant.Uint64Val(constant.ToInt(tv.Value)); ok {
						m[v] = kv.Value
					}
				}
			}
			tables[fd.Name.Name] = m
			return false
		})
	})
	// (b) TABLES
	for _, tn := range []string{"getPassFunction", "getPassFunctionName", "IsOptionalPass", "GetPassMnemonic"} {
		t := tables[tn]
		if t == nil {
			r.Undecided("C05/TABLES", "C05/TABLES:"+tn, "", "pass table is no longer a map literal returned by "+tn)
			continue
		}
		for _, p := range passes {
			inst := fmt.Sprintf("C05/TABLES:%s:%s", tn, p.name)
			if _, ok := t[p.val]; ok {
				r.OK("C05/TABLES", inst, prog.Pos(p.obj.Pos()), "entry present")
			} else {
				d := "its " + tn + " entry is missing"
				if tn == "getPassFunction" {
					d = "it has no function in getPassFunction: RunAssembler calls a nil function when the pass is active"
				}
				r.Violation("C05/TABLES", inst, prog.Pos(p.obj.Pos()), fmt.Sprintf("pass %s is declared but %s", p.name, d))
			}
		}
	}
	if len(passes) > 0 {
		r.Check(lastPass == passes[len(passes)-1].val, "C05/TABLES", "C05/TABLES:LAST_PASS", prog.Pos(passes[len(passes)-1].obj.Pos()), "LAST_PASS is the highest pass", fmt.Sprintf("LAST_PASS is not the highest pass constant (%s): RunAssembler stops before the later passes run", passes[len(passes)-1].name))
	}
	// pass -> function object
	funcOf := map[uint64]*types.Func{}
	for v, e := range tables["getPassFunction"] {
		if id, ok := ast.Unparen(e).(*ast.Ident); ok {
			if f, ok := info.Uses[id].(*types.Func); ok {
				funcOf[v] = f
			}
		}
	}
	optional := map[uint64]bool{}
	for v, e := range tables["IsOptionalPass"] {
		if id, ok := ast.Unparen(e).(*ast.Ident); ok && id.Name == "true" {
			optional[v] = true
		}
	}
	// (a) index-shifting classification on SSA
	sp := prog.SSAPkg("pkg/basm")
	shifting := map[*types.Func]string{}
	cg := prog.CHA()
	var classify func(fn *ssa.Function, seen map[*ssa.Function]bool, depth int) string
	classify = func(fn *ssa.Function, seen map[*ssa.Function]bool, depth int) string {
		if fn == nil || seen[fn] || depth > 6 || fn.Blocks == nil || !core.InModule(fn) {
			return ""
		}
		seen[fn] = true
		for _, b := range fn.Blocks {
			for _, ins := range b.Instrs {
				switch x := ins.(type) {
				case *ssa.Store:
					if fa, ok := x.Addr.(*ssa.FieldAddr); ok {
						if f := fieldOfAddr(fa); f != nil && f.Name() == "Lines" && f.Pkg() != nil && strings.HasSuffix(f.Pkg().Path(), "pkg/bmline") {
							return "stores BasmBody.Lines in " + core.SSAFuncKey(fn)
						}
					}
				case *ssa.MapUpdate:
					if u, ok := x.Map.(*ssa.UnOp); ok {
						if fa, ok := u.X.(*ssa.FieldAddr); ok {
							if f := fieldOfAddr(fa); f != nil && (f.Name() == "sections" || f.Name() == "fragments") {
								return "inserts into " + f.Name() + " in " + core.SSAFuncKey(fn)
							}
						}
					}
				}
			}
		}
		if n := cg.Nodes[fn]; n != nil {
			var outs []*ssa.Function
			for _, e := range n.Out {
				outs = append(outs, e.Callee.Func)
			}
			sort.Slice(outs, func(i, j int) bool { return outs[i].String() < outs[j].String() })
			for _, c := range outs {
				// stay inside the assembler and the line model
				if c.Pkg == nil || !(strings.HasSuffix(c.Pkg.Pkg.Path(), "pkg/basm") || strings.HasSuffix(c.Pkg.Pkg.Path(), "pkg/bmline")) {
					continue
				}
				if why := classify(c, seen, depth+1); why != "" {
					return why
				}
			}
		}
		return ""
	}
	var tagger, resolver *types.Func
	for _, p := range passes {
		f := funcOf[p.val]
		if f == nil {
			continue
		}
		if f.Name() == "symbolTagger" {
			tagger = f
		}
		if f.Name() == "symbolResolver" {
			resolver = f
		}
		if _, done := shifting[f]; !done && sp != nil {
			shifting[f] = classify(sp.Func(f.Name()), map[*ssa.Function]bool{}, 0)
		}
	}
	nShift := 0
	for _, why := range shifting {
		if why != "" {
			nShift++
		}
	}
	r.Count("index_shifting_pass_functions", nShift)
	if tagger == nil || resolver == nil {
		r.Undecided("C05/ORDER", "C05/ORDER:tagger-resolver", "", "symbolTagger / symbolResolver are no longer pass functions")
	} else {
		// resolver positions
		var resolverAt, lastTaggerBefore int = -1, -1
		for i, p := range passes {
			if funcOf[p.val] == resolver {
				resolverAt = i
			}
		}
		for i := 0; i < resolverAt; i++ {
			if funcOf[passes[i].val] == tagger {
				lastTaggerBefore = i
			}
		}
		r.Check(resolverAt == len(passes)-1, "C05/ORDER", "C05/ORDER:resolver-last", prog.Pos(resolver.Pos()), "symbolResolver is the last pass", "symbolResolver is not the last pass: a later pass can move instructions after label operands were replaced by indices")
		r.Check(lastTaggerBefore >= 0, "C05/ORDER", "C05/ORDER:tagger-before-resolver", prog.Pos(tagger.Pos()), "a symbolTagger pass precedes the resolver", "no symbolTagger pass precedes symbolResolver: labels are resolved against stale (or no) indices")
		for i, p := range passes {
			f := funcOf[p.val]
			if f == nil || shifting[f] == "" || f == tagger || i >= resolverAt {
				continue
			}
			inst := "C05/ORDER:retag-after:" + p.name
			// a mandatory tagger must follow before the resolver
			ok := false
			for j := i + 1; j < resolverAt; j++ {
				if funcOf[passes[j].val] == tagger && !optional[passes[j].val] {
					ok = true
				}
			}
			if ok {
				r.OK("C05/ORDER", inst, prog.Pos(p.obj.Pos()), "index-shifting pass ("+shifting[f]+") is followed by a mandatory symbolTagger before resolution")
			} else {
				r.Violation("C05/ORDER", inst, prog.Pos(p.obj.Pos()), fmt.Sprintf("pass %s can shift instruction indices (%s) and no mandatory symbolTagger pass runs between it and symbolResolver: every label after the shifted position resolves to the wrong instruction", p.name, shifting[f]))
			}
		}
	}
	// default mask: every mandatory pass that has a function is enabled by BasmInstanceInit
	core.FuncDecls(pk, func(_ *ast.File, fd *ast.FuncDecl) {
		ast.Inspect(fd.Body, func(n ast.Node) bool {
			as, ok := n.(*ast.AssignStmt)
			if !ok || len(as.Lhs) != 1 || len(as.Rhs) != 1 || as.Tok != token.ASSIGN {
				return true
			}
			f := core.FieldOf(info, as.Lhs[0])
			if f == nil || f.Name() != "passes" {
				return true
			}
			tv, ok := info.Types[as.Rhs[0]]
			if !ok || tv.Value == nil {
				return true
			}
			mask, _ := constant.Uint64Val(constant.ToInt(tv.Value))
			r.Count("default_mask_sites", 1)
			for _, p := range passes {
				fn := funcOf[p.val]
				if fn == nil {
					continue
				}
				crit := fn == tagger || fn == resolver || fn.Name() == "entryPoints" || fn.Name() == "matcherResolver"
				if !crit {
					continue
				}
				inst := "C05/ORDER:default-mask:" + p.name
				if mask&p.val != 0 {
					r.OK("C05/ORDER", inst, prog.Pos(as.Pos()), "enabled by default")
				} else {
					r.Violation("C05/ORDER", inst, prog.Pos(as.Pos()), fmt.Sprintf("the default pass mask of BasmInstanceInit does not enable %s: labels / entry point / pseudo-instructions are left unresolved by a default run", p.name))
				}
			}
			return true
		})
	})
	c05Pseudo(r, prog)
	c05FreshNames(r, prog)
}

// (c) pattern names vs normaliser cases
// c05FreshNames (C05/FRESHNAME): a pass that files a section / fragment / macro / chunk under a
// numbered name it builds itself (a key containing strconv.Itoa or fmt.Sprint of an integer) must
// have tested, in the same function, that the name is free — in the table it stores to and in every
// table of the instance holding entries of the same kind. Without the test a generated copy can take
// the name of a section the program defines (or of an earlier copy) and silently replace its code:
// the processor whose romcode names that section then runs other code than its source says.
func c05FreshNames(r *core.Run, prog *core.Program) {
	pk := prog.Pkg("pkg/basm")
	info := pk.TypesInfo
	named := map[string]bool{"BasmSection": true, "BasmFragment": true, "BasmMacro": true, "BasmChunk": true}
	tableKind := func(e ast.Expr) string {
		t := info.TypeOf(e)
		if t == nil {
			return ""
		}
		m, ok := t.Underlying().(*types.Map)
		if !ok {
			return ""
		}
		if b, ok := m.Key().Underlying().(*types.Basic); !ok || b.Kind() != types.String {
			return ""
		}
		el := m.Elem()
		if p, ok := el.(*types.Pointer); ok {
			el = p.Elem()
		}
		if n, ok := el.(*types.Named); ok && named[n.Obj().Name()] && n.Obj().Pkg() == pk.Types {
			return n.Obj().Name()
		}
		return ""
	}
	// a table is named by what it is, not by the identifiers used to reach it: a field of the instance is
	// "(BasmInstance).sections", a local or parameter map is "(scratch BasmSection table)"
	canonTable := func(e ast.Expr) string {
		if f := core.FieldOf(info, e); f != nil {
			return "(BasmInstance)." + f.Name()
		}
		return "(scratch " + tableKind(e) + " table)"
	}
	instTables := map[string][]string{}
	if tn, ok := pk.Types.Scope().Lookup("BasmInstance").(*types.TypeName); ok {
		if st, ok := tn.Type().Underlying().(*types.Struct); ok {
			for i := 0; i < st.NumFields(); i++ {
				if m, ok := st.Field(i).Type().Underlying().(*types.Map); ok {
					el := m.Elem()
					if p, ok := el.(*types.Pointer); ok {
						el = p.Elem()
					}
					if n, ok := el.(*types.Named); ok && named[n.Obj().Name()] {
						instTables[n.Obj().Name()] = append(instTables[n.Obj().Name()], "(BasmInstance)."+st.Field(i).Name())
					}
				}
			}
		}
	}
	decls := map[types.Object]*ast.FuncDecl{}
	core.FuncDecls(pk, func(_ *ast.File, fd *ast.FuncDecl) {
		if o := info.Defs[fd.Name]; o != nil {
			decls[o] = fd
		}
	})
	// per function: single-assignment string locals (for inlining), numbered-name test, absence tests
	type fnFacts struct {
		inline   func(e ast.Expr, d int) string
		numbered func(e ast.Expr, d int) bool
		tests    map[string]bool // "<canonical table>|<key>"
	}
	factsOf := map[*ast.FuncDecl]*fnFacts{}
	var facts func(fd *ast.FuncDecl) *fnFacts
	facts = func(fd *ast.FuncDecl) *fnFacts {
		if f, ok := factsOf[fd]; ok {
			return f
		}
		ff := &fnFacts{tests: map[string]bool{}}
		factsOf[fd] = ff
		defs := map[types.Object]ast.Expr{}
		cnt := map[types.Object]int{}
		ast.Inspect(fd.Body, func(k ast.Node) bool {
			if as, ok := k.(*ast.AssignStmt); ok && len(as.Lhs) == len(as.Rhs) {
				for i, l := range as.Lhs {
					if id, ok := l.(*ast.Ident); ok {
						if o := info.ObjectOf(id); o != nil {
							cnt[o]++
							defs[o] = as.Rhs[i]
						}
					}
				}
			}
			return true
		})
		ff.inline = func(e ast.Expr, d int) string {
			switch x := ast.Unparen(e).(type) {
			case *ast.Ident:
				if o := info.ObjectOf(x); o != nil && cnt[o] == 1 && d < 4 {
					if b, ok := o.Type().Underlying().(*types.Basic); ok && b.Info()&types.IsString != 0 {
						return ff.inline(defs[o], d+1)
					}
				}
				return x.Name
			case *ast.BinaryExpr:
				return ff.inline(x.X, d) + x.Op.String() + ff.inline(x.Y, d)
			}
			return types.ExprString(e)
		}
		ff.numbered = func(e ast.Expr, d int) bool {
			found := false
			var visit func(e ast.Expr, d int)
			visit = func(e ast.Expr, d int) {
				ast.Inspect(e, func(k ast.Node) bool {
					switch x := k.(type) {
					case *ast.CallExpr:
						if c := core.CalleeOf(info, x); c != nil && c.Pkg() != nil {
							if (c.Pkg().Path() == "strconv" && (c.Name() == "Itoa" || c.Name() == "FormatInt")) || (c.Pkg().Path() == "fmt" && strings.HasPrefix(c.Name(), "Sprint")) {
								for _, a := range x.Args {
									if tv, ok := info.Types[a]; ok && tv.Value == nil {
										if b, ok := tv.Type.Underlying().(*types.Basic); ok && b.Info()&types.IsInteger != 0 {
											found = true
										}
									}
								}
							}
						}
					case *ast.Ident:
						if o := info.ObjectOf(x); o != nil && cnt[o] == 1 && d < 4 {
							if b, ok := o.Type().Underlying().(*types.Basic); ok && b.Info()&types.IsString != 0 {
								visit(defs[o], d+1)
							}
						}
					}
					return true
				})
			}
			visit(e, d)
			return found
		}
		ast.Inspect(fd.Body, func(k ast.Node) bool {
			as, ok := k.(*ast.AssignStmt)
			if !ok {
				return true
			}
			if len(as.Lhs) == 2 && len(as.Rhs) == 1 {
				if ie, ok := ast.Unparen(as.Rhs[0]).(*ast.IndexExpr); ok && tableKind(ie.X) != "" {
					ff.tests[canonTable(ie.X)+"|"+ff.inline(ie.Index, 0)] = true
				}
			}
			return true
		})
		return ff
	}
	// freshFrom: the key is the result of a package helper that returns a numbered name it has tested:
	// returns the set of canonical tables the helper tested for every name it can return
	freshFrom := func(e ast.Expr) (map[string]bool, bool) {
		call, ok := ast.Unparen(e).(*ast.CallExpr)
		if !ok {
			return nil, false
		}
		h, ok := decls[core.CalleeOf(info, call)]
		if !ok || h.Type.Results == nil || len(h.Type.Results.List) != 1 {
			return nil, false
		}
		hf := facts(h)
		var tested map[string]bool
		numberedAny := false
		ast.Inspect(h.Body, func(k ast.Node) bool {
			ret, ok := k.(*ast.ReturnStmt)
			if !ok || len(ret.Results) != 1 {
				return true
			}
			if !hf.numbered(ret.Results[0], 0) {
				return true
			}
			numberedAny = true
			key := hf.inline(ret.Results[0], 0)
			cur := map[string]bool{}
			for t := range hf.tests {
				if strings.HasSuffix(t, "|"+key) {
					cur[strings.TrimSuffix(t, "|"+key)] = true
				}
			}
			if tested == nil {
				tested = cur
			} else {
				for t := range tested {
					if !cur[t] {
						delete(tested, t)
					}
				}
			}
			return true
		})
		return tested, numberedAny
	}
	n := 0
	core.FuncDecls(pk, func(_ *ast.File, fd *ast.FuncDecl) {
		ff := facts(fd)
		// the key may be a single-assignment local holding a helper's result
		resolve := func(e ast.Expr) ast.Expr {
			for d := 0; d < 3; d++ {
				id, ok := ast.Unparen(e).(*ast.Ident)
				if !ok {
					return e
				}
				var def ast.Expr
				c := 0
				ast.Inspect(fd.Body, func(k ast.Node) bool {
					if as, ok := k.(*ast.AssignStmt); ok && len(as.Lhs) == len(as.Rhs) {
						for i, l := range as.Lhs {
							if lid, ok := l.(*ast.Ident); ok && info.ObjectOf(lid) == info.ObjectOf(id) {
								c++
								def = as.Rhs[i]
							}
						}
					}
					return true
				})
				if c != 1 {
					return e
				}
				e = def
			}
			return e
		}
		k := 0
		ast.Inspect(fd.Body, func(nd ast.Node) bool {
			as, ok := nd.(*ast.AssignStmt)
			if !ok {
				return true
			}
			for _, l := range as.Lhs {
				ie, ok := ast.Unparen(l).(*ast.IndexExpr)
				if !ok {
					continue
				}
				kind := tableKind(ie.X)
				if kind == "" {
					continue
				}
				helperTested, viaHelper := freshFrom(resolve(ie.Index))
				if !viaHelper && !ff.numbered(ie.Index, 0) {
					continue
				}
				k++
				n++
				need := []string{canonTable(ie.X)}
				for _, t := range instTables[kind] {
					if t != need[0] {
						need = append(need, t)
					}
				}
				key := ff.inline(ie.Index, 0)
				var missing []string
				for _, t := range need {
					if viaHelper {
						if !helperTested[t] {
							missing = append(missing, t)
						}
					} else if !ff.tests[t+"|"+key] {
						missing = append(missing, t)
					}
				}
				inst := fmt.Sprintf("C05/FRESHNAME:%s:store%d:%s", core.FuncKey(pk, fd), k, canonTable(ie.X))
				if len(missing) == 0 {
					r.OK("C05/FRESHNAME", inst, prog.Pos(as.Pos()), "the numbered name is tested to be free in ["+strings.Join(need, ", ")+"] before it is used")
				} else {
					r.Violation("C05/FRESHNAME", inst, prog.Pos(as.Pos()), fmt.Sprintf("%s files a %s under the numbered name %s without having tested that the name is free in [%s]: a generated copy can take the name of a section the program defines itself (e.g. `worker` and `worker_0`) or of an earlier copy and replace its code; the processor whose romcode/ramcode names that section then runs other code than its source says", core.FuncKey(pk, fd), kind, types.ExprString(ie.Index), strings.Join(missing, ", ")))
				}
			}
			return true
		})
	})
	r.Count("numbered_name_stores", n)
}

func c05Pseudo(r *core.Run, prog *core.Program) {
	pk := prog.Pkg("pkg/procbuilder")
	info := pk.TypesInfo
	type opInfo struct {
		name     string
		patterns map[string]token.Pos
		norm     *ast.FuncDecl
	}
	ops := map[string]*opInfo{}
	get := func(t string) *opInfo {
		if ops[t] == nil {
			ops[t] = &opInfo{patterns: map[string]token.Pos{}}
		}
		return ops[t]
	}
	core.FuncDecls(pk, func(_ *ast.File, fd *ast.FuncDecl) {
		rn := core.RecvTypeName(info, fd)
		if rn == "" {
			return
		}
		switch fd.Name.Name {
		case "Op_get_name":
			for _, st := range fd.Body.List {
				if ret, ok := st.(*ast.ReturnStmt); ok && len(ret.Results) == 1 {
					if s, ok := constStr(info, ret.Results[0]); ok {
						get(rn).name = s
					}
				}
			}
		case "HLAssemblerMatch":
			ast.Inspect(fd.Body, func(n ast.Node) bool {
				if bl, ok := n.(*ast.BasicLit); ok && bl.Kind == token.STRING {
					if s, ok := constStr(info, bl); ok && strings.Contains(s, "::") {
						opn := strings.SplitN(s, "::", 2)[0]
						opn = strings.SplitN(opn, "--", 2)[0] // metadata constraints on the operation element
						get(rn).patterns[opn] = bl.Pos()
					}
				}
				return true
			})
		case "HLAssemblerNormalize":
			get(rn).norm = fd
		}
	})
	var tnames []string
	for t := range ops {
		tnames = append(tnames, t)
	}
	sort.Strings(tnames)
	n := 0
	for _, t := range tnames {
		o := ops[t]
		if o.name == "" || len(o.patterns) == 0 {
			continue // dynamic families build their names at run time
		}
		var pn []string
		for p := range o.patterns {
			pn = append(pn, p)
		}
		sort.Strings(pn)
		// cases of the normaliser
		cases := map[string]*ast.CaseClause{}
		if o.norm != nil {
			ast.Inspect(o.norm.Body, func(m ast.Node) bool {
				if cc, ok := m.(*ast.CaseClause); ok {
					for _, e := range cc.List {
						if s, ok := constStr(info, e); ok {
							cases[s] = cc
						}
					}
				}
				return true
			})
		}
		for _, p := range pn {
			n++
			inst := fmt.Sprintf("C05/PSEUDO:pkg/procbuilder.%s:%s", t, p)
			pos := prog.Pos(o.patterns[p])
			cc := cases[p]
			if cc == nil {
				r.Violation("C05/PSEUDO", inst, pos, fmt.Sprintf("%s advertises operation %q in HLAssemblerMatch but its HLAssemblerNormalize has no case for it: a matched line fails to normalise (or falls through) instead of becoming %s", t, p, o.name))
				continue
			}
			if p == o.name {
				r.OK("C05/PSEUDO", inst, pos, "own mnemonic handled")
				continue
			}
			// the case must rewrite the operation to the opcode's own name
			rewrites := false
			for _, st := range cc.Body {
				ast.Inspect(st, func(m ast.Node) bool {
					call, ok := m.(*ast.CallExpr)
					if !ok {
						return true
					}
					if sel, ok := call.Fun.(*ast.SelectorExpr); ok && sel.Sel.Name == "SetValue" && len(call.Args) == 1 {
						if s, ok := constStr(info, call.Args[0]); ok && s == o.name {
							rewrites = true
						}
					}
					return true
				})
			}
			if rewrites {
				r.OK("C05/PSEUDO", inst, pos, "pseudo-instruction rewritten to "+o.name)
			} else {
				r.Violation("C05/PSEUDO", inst, pos, fmt.Sprintf("%s matches the pseudo-instruction %q but the corresponding case of HLAssemblerNormalize never sets the operation to %q: the line reaches Arch.Assembler as %q (unknown opcode, or assembled by another opcode)", t, p, o.name, p))
			}
		}
	}
	r.Count("pattern_operation_names", n)
}
