#!/bin/bash
# selftest_snapshot.sh: runs selftest.sh on a frozen copy of /verif (binary, floors, known findings, scripts,
# mutants, seeds, neutral diffs) under /tmp, so that work can go on in /verif while the long self-test runs.
# The copy is removed at the end. Output: /tmp/selftest-snapshot.log
SNAP=$(mktemp -d /tmp/verif-snap.XXXXXX)
mkdir -p $SNAP/bin $SNAP/evidence
cp /verif/bin/bmverif $SNAP/bin/
cp /verif/floors.json /verif/known_findings.json $SNAP/
cp -r /verif/scripts /verif/mutants /verif/seeded /verif/neutral $SNAP/
sed -i "s#/verif/bin/bmverif#$SNAP/bin/bmverif#g; s#cd /verif#cd $SNAP#g" $SNAP/scripts/*.sh
export BMVERIF_DIR=$SNAP
(cd $SNAP && bash scripts/selftest.sh) > /tmp/selftest-snapshot.log 2>&1
rc=$?
rm -rf $SNAP
exit $rc
