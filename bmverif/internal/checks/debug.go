package checks

import (
	"fmt"
	"strings"

	"bmverif/internal/core"
)

// DebugEffects prints the CONFINE summary of the functions whose key contains substr.
func DebugEffects(substr string) {
	r := core.NewRun("DEBUG", "quick")
	prog := r.Load(core.LoadConfig{SSA: true})
	c := newConfiner(prog)
	for _, sp := range sortedSSAPkgs(prog) {
		for fn := range allFuncsOf(prog, sp) {
			if !strings.Contains(core.SSAFuncKey(fn), substr) {
				continue
			}
			fmt.Println("==", core.SSAFuncKey(fn))
			for _, e := range c.summary(fn, 0) {
				fmt.Printf("   %s  %s  at %s via %v\n", e.r, e.what, prog.Pos(e.pos), e.via)
			}
		}
	}
}
