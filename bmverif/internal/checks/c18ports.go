package checks

import (
	"fmt"
	"go/ast"
	"go/token"
	"go/types"
	"regexp"
	"sort"
	"strings"

	"bmverif/internal/core"
	"golang.org/x/tools/go/packages"
)

// C18/PORTS: the port lists of a shared object at the three module levels.
//
// A shared-object kind K contributes ports to the processor module and to its architecture wrapper
// through procbuilder.K.GetArchHeader (names in the module header), GetArchParams / GetCPParams
// (their input/output declarations), and to the top level through bondmachine.K_instance
// .GetPerProcPortsHeader + GetCPSharedPortsHeader (the actual wires, connected BY POSITION to the
// architecture instance) and ...Wires (their declarations). The rule extracts from each of these
// methods the list of ports it emits under each condition (the `for … range X.Op { if
// o.Op_get_name() == "r2q" …}` presence tests of the code) and requires, per kind and condition:
//
//	(a) names in the header == names declared by GetArchParams == names declared by GetCPParams
//	(b) #ports(GetArchHeader) == #ports(GetPerProcPortsHeader) + #ports(GetCPSharedPortsHeader)
//	(c) every wire named in a ...PortsHeader is declared by the matching ...PortsWires
//
// (b) is the "same number of ports" clause of C18 for the one place where the two sides are written
// in different packages; (a) and (c) are "every identifier is declared".

type portItems map[string][]string // condition key -> port suffixes in emission order

var (
	soPortDeclRe = regexp.MustCompile(`(?s)\b(?:input|output|inout)\b((?:\s+reg)?(?:\s*\[[^\]]*\])?)\s*([A-Za-z_§][A-Za-z0-9_§]*)\s*;`)
	soWireDeclRe = regexp.MustCompile(`(?s)\b(?:wire|reg)\b((?:\s*\[[^\]]*\])?)\s*([A-Za-z_§][A-Za-z0-9_§]*)\s*;`)
)

func suffixOf(tok string) string {
	if i := strings.LastIndex(tok, hole); i >= 0 {
		return tok[i+len(hole):]
	}
	return tok
}

// portsOf walks a generator method and returns the ports it emits per condition. declForm selects
// declaration parsing (input/output/wire … name;) instead of a comma list.
func portsOf(info *types.Info, fd *ast.FuncDecl, form string, siblings map[string]*ast.FuncDecl) (portItems, string) {
	items := portItems{}
	undecided := ""
	declForm := form != "list"
	re := soPortDeclRe
	if form == "wires" {
		re = soWireDeclRe
	}
	add := func(cond, text string) {
		if declForm {
			for _, m := range re.FindAllStringSubmatch(text, -1) {
				items[cond] = append(items[cond], suffixOf(m[2]))
			}
			return
		}
		for _, tok := range strings.Split(text, ",") {
			tok = strings.TrimSpace(tok)
			if tok == "" {
				continue
			}
			items[cond] = append(items[cond], suffixOf(tok))
		}
	}
	// local string temporaries assigned once (portPrefix := ", p" + … ) are inlined into the text that
	// uses them, so that a separator kept in the prefix still separates the ports
	temps := map[types.Object]string{}
	{
		cnt := map[types.Object]int{}
		def := map[types.Object]ast.Expr{}
		ast.Inspect(fd.Body, func(m ast.Node) bool {
			if as, ok := m.(*ast.AssignStmt); ok && len(as.Lhs) == len(as.Rhs) {
				for i, l := range as.Lhs {
					if id, ok := l.(*ast.Ident); ok && id.Name != "result" {
						if o := info.ObjectOf(id); o != nil {
							cnt[o]++
							def[o] = as.Rhs[i]
						}
					}
				}
			}
			return true
		})
		for round := 0; round < 3; round++ {
			for o, n := range cnt {
				if n != 1 {
					continue
				}
				if b, ok := o.Type().Underlying().(*types.Basic); !ok || b.Info()&types.IsString == 0 {
					continue
				}
				temps[o] = skeletonWith(info, def[o], temps)
			}
		}
	}
	var walk func(list []ast.Stmt, cond string)
	opTest := func(e ast.Expr) (string, bool) {
		// X.HasOp("name")
		if call, ok := ast.Unparen(e).(*ast.CallExpr); ok && len(call.Args) == 1 {
			if c := core.CalleeOf(info, call); c != nil && c.Name() == "HasOp" {
				if s, ok := constStr(info, call.Args[0]); ok {
					return s, true
				}
			}
		}
		be, ok := ast.Unparen(e).(*ast.BinaryExpr)
		if !ok || be.Op != token.EQL {
			return "", false
		}
		for _, pr := range [][2]ast.Expr{{be.X, be.Y}, {be.Y, be.X}} {
			if call, ok := ast.Unparen(pr[0]).(*ast.CallExpr); ok {
				if c := core.CalleeOf(info, call); c != nil && c.Name() == "Op_get_name" {
					if s, ok := constStr(info, pr[1]); ok {
						return s, true
					}
				}
			}
		}
		return "", false
	}
	join := func(cond, k string) string {
		if cond == "" {
			return k
		}
		return cond + "&" + k
	}
	walk = func(list []ast.Stmt, cond string) {
		for _, st := range list {
			// guard clauses: `if !X.HasOp("k2r") { return "" }` puts the rest of the list under op:k2r;
			// `if !ok { return "" }` (a failed lookup) is transparent
			if ifs, ok := st.(*ast.IfStmt); ok && ifs.Else == nil && len(ifs.Body.List) == 1 {
				if ret, ok := ifs.Body.List[0].(*ast.ReturnStmt); ok && len(ret.Results) == 1 {
					if sv, ok := constStr(info, ret.Results[0]); ok && sv == "" {
						if ue, ok := ast.Unparen(ifs.Cond).(*ast.UnaryExpr); ok && ue.Op == token.NOT {
							if name, ok := opTest(ue.X); ok {
								cond = join(cond, "op:"+name)
								continue
							}
							if id, ok := ast.Unparen(ue.X).(*ast.Ident); ok && id.Name == "ok" {
								continue
							}
						}
					}
				}
			}
			switch x := st.(type) {
			case *ast.AssignStmt:
				if len(x.Lhs) != 1 || len(x.Rhs) != 1 {
					continue
				}
				t := info.TypeOf(x.Lhs[0])
				if t == nil {
					continue
				}
				if b, ok := t.Underlying().(*types.Basic); !ok || b.Info()&types.IsString == 0 {
					continue
				}
				id, _ := x.Lhs[0].(*ast.Ident)
				if id != nil && id.Name != "result" && x.Tok == token.DEFINE {
					// a name prefix such as queueName := "q" + strconv.Itoa(seq): a hole
					continue
				}
				if id != nil && id.Name == "result" {
					if call, ok := ast.Unparen(x.Rhs[0]).(*ast.CallExpr); ok {
						if c := core.CalleeOf(info, call); c != nil {
							// a port-list helper: stackHeaderPorts(prefix, "senderData", "senderWrite", …)
							if fn, ok := c.(*types.Func); ok && fn.Pkg() != nil && fn.Pkg().Path() == info.ObjectOf(fd.Name).Pkg().Path() && !declForm {
								var names []string
								allConst := len(call.Args) >= 2
								for _, a := range call.Args[1:] {
									if sname, ok := constStr(info, a); ok {
										names = append(names, sname)
									} else {
										allConst = false
									}
								}
								if sig, ok := fn.Type().(*types.Signature); ok && allConst && sig.Variadic() {
									items[cond] = append(items[cond], names...)
									continue
								}
							}
							if sib, ok := siblings[c.Name()]; ok && sib != fd {
								sub, _ := portsOf(info, sib, form, nil)
								for sc, l := range sub {
									items[join(cond, sc)] = append(items[join(cond, sc)], l...)
								}
								continue
							}
						}
					}
					add(cond, skeletonWith(info, x.Rhs[0], temps))
				}
			case *ast.ReturnStmt:
				if len(x.Results) == 1 {
					if rid, ok := x.Results[0].(*ast.Ident); ok && rid.Name == "result" {
						continue
					}
					add(cond, skeletonWith(info, x.Results[0], temps))
				}
			case *ast.IfStmt:
				if x.Init != nil {
					// comma-ok lookups (soName, ok := …; ok) are transparent
					if id, ok := ast.Unparen(x.Cond).(*ast.Ident); ok && id.Name == "ok" {
						walk(x.Body.List, cond)
						continue
					}
				}
				if name, ok := opTest(x.Cond); ok {
					walk(x.Body.List, join(cond, "op:"+name))
				} else {
					walk(x.Body.List, join(cond, "if:"+types.ExprString(x.Cond)))
				}
				switch el := x.Else.(type) {
				case *ast.BlockStmt:
					walk(el.List, join(cond, "else:"+types.ExprString(x.Cond)))
				case *ast.IfStmt:
					walk([]ast.Stmt{el}, join(cond, "else:"+types.ExprString(x.Cond)))
				}
			case *ast.RangeStmt:
				// the opcode presence test: for _, op := range <…>.Op { if op.Op_get_name() == "x" { …; break } }
				if f := core.FieldOf(info, x.X); f != nil && f.Name() == "Op" {
					walk(x.Body.List, cond)
					continue
				}
				// a loop over a package-level table of records with constant string fields is unrolled
				if tid, ok := ast.Unparen(x.X).(*ast.Ident); ok {
					if lit, ok := c18Tables[info.ObjectOf(tid)]; ok {
						if vid, ok := x.Value.(*ast.Ident); ok && vid.Name != "_" {
							done := true
							var substs []map[string]string
							for _, el := range lit.Elts {
								cl, ok := el.(*ast.CompositeLit)
								if !ok {
									done = false
									break
								}
								st, ok := info.TypeOf(cl).Underlying().(*types.Struct)
								if !ok {
									done = false
									break
								}
								m := map[string]string{}
								for fi, fe := range cl.Elts {
									name := ""
									val := fe
									if kv, ok := fe.(*ast.KeyValueExpr); ok {
										if kid, ok := kv.Key.(*ast.Ident); ok {
											name = kid.Name
										}
										val = kv.Value
									} else if fi < st.NumFields() {
										name = st.Field(fi).Name()
									}
									if sv, ok := constStr(info, val); ok && name != "" {
										m[vid.Name+"."+name] = sv
									}
								}
								substs = append(substs, m)
							}
							if done && len(substs) > 0 {
								saved := selSubst
								for _, m := range substs {
									selSubst = m
									walk(x.Body.List, cond)
								}
								selSubst = saved
								continue
							}
						}
					}
				}
				// a loop that only counts (no emission) is irrelevant; one that emits is a multiplicity we do not model
				emits := false
				ast.Inspect(x.Body, func(m ast.Node) bool {
					if as, ok := m.(*ast.AssignStmt); ok && len(as.Lhs) == 1 {
						if id, ok := as.Lhs[0].(*ast.Ident); ok && id.Name == "result" {
							emits = true
						}
					}
					return true
				})
				if emits {
					walk(x.Body.List, join(cond, "each:"+types.ExprString(x.X)))
				}
			case *ast.ForStmt:
				emits := false
				ast.Inspect(x.Body, func(m ast.Node) bool {
					if as, ok := m.(*ast.AssignStmt); ok && len(as.Lhs) == 1 {
						if id, ok := as.Lhs[0].(*ast.Ident); ok && id.Name == "result" {
							emits = true
						}
					}
					return true
				})
				if emits {
					c := ""
					if x.Cond != nil {
						c = types.ExprString(x.Cond)
					}
					walk(x.Body.List, join(cond, "for:"+c))
				}
			case *ast.BlockStmt:
				walk(x.List, cond)
			case *ast.SwitchStmt:
				for _, cl := range x.Body.List {
					cc := cl.(*ast.CaseClause)
					var ks []string
					for _, e := range cc.List {
						ks = append(ks, types.ExprString(e))
					}
					tag := ""
					if x.Tag != nil {
						tag = types.ExprString(x.Tag)
					}
					walk(cc.Body, join(cond, "case:"+tag+"="+strings.Join(ks, "|")))
				}
			}
		}
	}
	walk(fd.Body.List, "")
	return items, undecided
}

func c18Ports(r *core.Run, prog *core.Program) {
	for _, rel := range []string{"pkg/bondmachine", "pkg/procbuilder"} {
		if pk := prog.Pkg(rel); pk != nil {
			for _, f := range pk.Syntax {
				for _, d := range f.Decls {
					gd, ok := d.(*ast.GenDecl)
					if !ok || gd.Tok != token.VAR {
						continue
					}
					for _, sp := range gd.Specs {
						vs, ok := sp.(*ast.ValueSpec)
						if !ok || len(vs.Names) != len(vs.Values) {
							continue
						}
						for k, n := range vs.Names {
							if cl, ok := vs.Values[k].(*ast.CompositeLit); ok {
								c18Tables[pk.TypesInfo.ObjectOf(n)] = cl
							}
						}
					}
				}
			}
		}
	}
	pb := prog.Pkg("pkg/procbuilder")
	bm := prog.Pkg("pkg/bondmachine")
	if pb == nil || bm == nil {
		return
	}
	type kindM struct {
		pk *packages.Package
		fd *ast.FuncDecl
	}
	methods := map[string]map[string]kindM{} // type -> method -> decl
	collect := func(pk *packages.Package, names map[string]bool) {
		core.FuncDecls(pk, func(_ *ast.File, fd *ast.FuncDecl) {
			rn := core.RecvTypeName(pk.TypesInfo, fd)
			if rn == "" || !names[fd.Name.Name] {
				return
			}
			if methods[rn] == nil {
				methods[rn] = map[string]kindM{}
			}
			methods[rn][fd.Name.Name] = kindM{pk, fd}
		})
	}
	collect(pb, map[string]bool{"GetArchHeader": true, "GetArchParams": true, "GetCPParams": true})
	collect(bm, map[string]bool{"GetPerProcPortsHeader": true, "GetPerProcPortsWires": true, "GetCPSharedPortsHeader": true, "GetCPSharedPortsWires": true})
	var kinds []string
	for t, ms := range methods {
		if _, ok := ms["GetArchHeader"]; ok {
			kinds = append(kinds, t)
		}
	}
	sort.Strings(kinds)
	setOf := func(l []string) string {
		m := map[string]bool{}
		for _, x := range l {
			m[x] = true
		}
		var o []string
		for x := range m {
			o = append(o, x)
		}
		sort.Strings(o)
		return strings.Join(o, ",")
	}
	conds := func(ps ...portItems) []string {
		m := map[string]bool{}
		for _, p := range ps {
			for c := range p {
				m[c] = true
			}
		}
		var o []string
		for c := range m {
			o = append(o, c)
		}
		sort.Strings(o)
		return o
	}
	cname := func(c string) string {
		if c == "" {
			return "always"
		}
		return c
	}
	n := 0
	for _, k := range kinds {
		ms := methods[k]
		get := func(t, m string, form string) (portItems, bool) {
			km, ok := methods[t][m]
			if !ok {
				return nil, false
			}
			sib := map[string]*ast.FuncDecl{}
			for mn, o := range methods[t] {
				sib[mn] = o.fd
			}
			p, _ := portsOf(km.pk.TypesInfo, km.fd, form, sib)
			return p, true
		}
		hdr, _ := get(k, "GetArchHeader", "list")
		ap, okA := get(k, "GetArchParams", "ports")
		cp, okC := get(k, "GetCPParams", "ports")
		pos := prog.Pos(ms["GetArchHeader"].fd.Pos())
		// (a)
		if okA && okC {
			for _, c := range conds(hdr, ap, cp) {
				n++
				inst := fmt.Sprintf("C18/PORTS:%s:declared[%s]", k, cname(c))
				h, a, p := setOf(hdr[c]), setOf(ap[c]), setOf(cp[c])
				if h == a && h == p {
					r.OK("C18/PORTS", inst, pos, "header names, architecture declarations and processor declarations agree")
				} else {
					r.Violation("C18/PORTS", inst, pos, fmt.Sprintf("shared object %s, condition %s: the module header lists ports {%s}, GetArchParams declares {%s}, GetCPParams declares {%s}: a port in the header without a direction declaration (or a declaration of a name that is not a port) is rejected by a Verilog front end in every machine that attaches this object under that condition", k, cname(c), h, a, p))
				}
			}
		}
		// (b), (c)
		inst := k + "_instance"
		pph, ok1 := get(inst, "GetPerProcPortsHeader", "list")
		csh, ok2 := get(inst, "GetCPSharedPortsHeader", "list")
		ppw, ok3 := get(inst, "GetPerProcPortsWires", "wires")
		csw, ok4 := get(inst, "GetCPSharedPortsWires", "wires")
		if !ok1 || !ok2 {
			n++
			r.Undecided("C18/PORTS", fmt.Sprintf("C18/PORTS:%s:instance", k), pos, "no "+inst+" type with GetPerProcPortsHeader/GetCPSharedPortsHeader in pkg/bondmachine")
			continue
		}
		ipos := prog.Pos(methods[inst]["GetPerProcPortsHeader"].fd.Pos())
		for _, c := range conds(hdr, pph, csh) {
			n++
			in := fmt.Sprintf("C18/PORTS:%s:count[%s]", k, cname(c))
			want, got := len(hdr[c]), len(pph[c])+len(csh[c])
			if want == got {
				r.OK("C18/PORTS", in, ipos, fmt.Sprintf("%d ports on both sides of the positional connection", want))
			} else {
				r.Violation("C18/PORTS", in, ipos, fmt.Sprintf("shared object %s, condition %s: the architecture module takes %d ports for it (GetArchHeader: %s) but the top level connects %d wires by position (GetPerProcPortsHeader: %s; GetCPSharedPortsHeader: %s): the instance has a different number of ports than the module it instantiates, and every later port is shifted", k, cname(c), want, strings.Join(hdr[c], ","), got, strings.Join(pph[c], ","), strings.Join(csh[c], ",")))
			}
		}
		if ok3 {
			for _, c := range conds(pph, ppw) {
				n++
				in := fmt.Sprintf("C18/PORTS:%s:wires-perproc[%s]", k, cname(c))
				if setOf(pph[c]) == setOf(ppw[c]) {
					r.OK("C18/PORTS", in, ipos, "every per-processor wire connected at the top level is declared")
				} else {
					r.Violation("C18/PORTS", in, ipos, fmt.Sprintf("shared object %s, condition %s: the top level connects wires {%s} but declares {%s}", k, cname(c), setOf(pph[c]), setOf(ppw[c])))
				}
			}
		}
		if ok4 {
			for _, c := range conds(csh, csw) {
				n++
				in := fmt.Sprintf("C18/PORTS:%s:wires-shared[%s]", k, cname(c))
				if setOf(csh[c]) == setOf(csw[c]) {
					r.OK("C18/PORTS", in, ipos, "every shared wire connected at the top level is declared")
				} else {
					r.Violation("C18/PORTS", in, ipos, fmt.Sprintf("shared object %s, condition %s: the top level connects shared wires {%s} but declares {%s}", k, cname(c), setOf(csh[c]), setOf(csw[c])))
				}
			}
		}
	}
	r.Count("shared_object_kinds", len(kinds))
	r.Count("port_list_obligations", n)
}

// ---- ROLES: the shared object's own module versus its instantiation -----------------------------
//
// For the FIFO-like shared objects (queue, stack, uart, kbd) the module written by
// K_instance.Write_verilog gets one group of ports per entry of the Senders / Receivers lists it
// computes from the opcodes of each attached processor, while the top level connects, for the same
// processor, one group of wires per opcode-presence test of GetPerProcPortsHeader. The rule executes
// the list-building code of Write_verilog concretely, for ONE attached processor, under every subset A
// of the opcode names the header tests (a finite domain: at most 2^3 assumptions), counting the entries
// appended, and requires that count to equal |A| — the number of groups the header emits under A.

type rval struct {
	known bool
	str   string
	isStr bool
	num   string // constant value as text (for comparisons between named constants)
	op    bool   // an opcode of the assumed set; str is its name
}

type rolesInterp struct {
	info    *types.Info
	decls   map[types.Object]*ast.FuncDecl
	ops     []string // assumed opcode names, sorted
	count   int
	steps   int
	failed  string
	lastRet []rval // all values of the last return executed
}

func zeroOf(t types.Type) rval {
	if b, ok := t.Underlying().(*types.Basic); ok {
		switch {
		case b.Info()&types.IsBoolean != 0:
			return rval{known: true, num: "false"}
		case b.Info()&types.IsString != 0:
			return rval{known: true, isStr: true}
		case b.Info()&types.IsNumeric != 0:
			return rval{known: true, num: "0"}
		}
	}
	return rval{}
}

// callAll runs a helper of the package and returns all its results.
func (ri *rolesInterp) callAll(x *ast.CallExpr, env map[types.Object]rval) ([]rval, bool) {
	c := core.CalleeOf(ri.info, x)
	fd, ok := ri.decls[c]
	if !ok || ri.steps > 2000 {
		return nil, false
	}
	cenv := map[types.Object]rval{}
	idx := 0
	for _, f := range fd.Type.Params.List {
		for _, n := range f.Names {
			if idx < len(x.Args) {
				cenv[ri.info.ObjectOf(n)] = ri.eval(x.Args[idx], env)
			}
			idx++
		}
	}
	var named []types.Object
	if fd.Type.Results != nil {
		for _, f := range fd.Type.Results.List {
			for _, n := range f.Names {
				o := ri.info.ObjectOf(n)
				named = append(named, o)
				cenv[o] = zeroOf(o.Type())
			}
		}
	}
	ri.lastRet = nil
	sig, _ := ri.exec(fd.Body.List, cenv) // entries a helper appends (endpoints(…) returning the lists) count as well
	if sig != rReturn {
		return nil, false
	}
	if len(ri.lastRet) == 0 && len(named) > 0 { // bare return with named results
		var out []rval
		for _, o := range named {
			out = append(out, cenv[o])
		}
		return out, true
	}
	return ri.lastRet, true
}

type rsig int

const (
	rNormal rsig = iota
	rContinue
	rBreak
	rReturn
)

func (ri *rolesInterp) eval(e ast.Expr, env map[types.Object]rval) rval {
	if tv, ok := ri.info.Types[e]; ok && tv.Value != nil {
		if s, ok := constStr(ri.info, e); ok {
			return rval{known: true, isStr: true, str: s}
		}
		return rval{known: true, num: tv.Value.ExactString()}
	}
	switch x := ast.Unparen(e).(type) {
	case *ast.Ident:
		if v, ok := env[ri.info.ObjectOf(x)]; ok {
			return v
		}
	case *ast.CallExpr:
		c := core.CalleeOf(ri.info, x)
		if c == nil {
			return rval{}
		}
		if c.Name() == "Op_get_name" {
			if sel, ok := ast.Unparen(x.Fun).(*ast.SelectorExpr); ok {
				if v := ri.eval(sel.X, env); v.known && v.op {
					return rval{known: true, isStr: true, str: v.str}
				}
			}
			return rval{}
		}
		if c.Name() == "HasOp" && len(x.Args) == 1 {
			if a := ri.eval(x.Args[0], env); a.known && a.isStr {
				for _, o := range ri.ops {
					if o == a.str {
						return rval{known: true, num: "true"}
					}
				}
				return rval{known: true, num: "false"}
			}
		}
		if _, ok := ri.decls[c]; ok {
			if vals, ok := ri.callAll(x, env); ok && len(vals) >= 1 {
				return vals[0]
			}
		}
	case *ast.UnaryExpr:
		if x.Op == token.NOT {
			v := ri.eval(x.X, env)
			if v.known && v.num == "true" {
				return rval{known: true, num: "false"}
			}
			if v.known && v.num == "false" {
				return rval{known: true, num: "true"}
			}
		}
	case *ast.BinaryExpr:
		a, b := ri.eval(x.X, env), ri.eval(x.Y, env)
		switch x.Op {
		case token.EQL, token.NEQ:
			if a.known && b.known && a.isStr == b.isStr {
				eq := (a.isStr && a.str == b.str) || (!a.isStr && a.num == b.num && a.num != "")
				if x.Op == token.NEQ {
					eq = !eq
				}
				if eq {
					return rval{known: true, num: "true"}
				}
				return rval{known: true, num: "false"}
			}
			// an equality the assumptions say nothing about (soId == soIndex, procId == …): the
			// interpretation follows the one attached processor / the object being rendered, so
			// identities between unknowns hold and inequalities do not
			if x.Op == token.EQL {
				return rval{known: true, num: "true"}
			}
			return rval{known: true, num: "false"}
		case token.LAND:
			if (a.known && a.num == "false") || (b.known && b.num == "false") {
				return rval{known: true, num: "false"}
			}
			if a.known && b.known {
				return rval{known: true, num: "true"}
			}
			// unknown && known-true: depends on the unknown part — treated as true (one attached processor)
			return rval{known: true, num: "true"}
		case token.LOR:
			if (a.known && a.num == "true") || (b.known && b.num == "true") {
				return rval{known: true, num: "true"}
			}
			if a.known && b.known {
				return rval{known: true, num: "false"}
			}
		}
	}
	return rval{}
}

func (ri *rolesInterp) exec(list []ast.Stmt, env map[types.Object]rval) (rsig, rval) {
	for _, st := range list {
		ri.steps++
		if ri.steps > 5000 {
			ri.failed = "step budget"
			return rReturn, rval{}
		}
		switch x := st.(type) {
		case *ast.BlockStmt:
			if s, v := ri.exec(x.List, env); s != rNormal {
				return s, v
			}
		case *ast.LabeledStmt:
			if s, v := ri.exec([]ast.Stmt{x.Stmt}, env); s != rNormal {
				return s, v
			}
		case *ast.ReturnStmt:
			ri.lastRet = nil
			for _, e := range x.Results {
				ri.lastRet = append(ri.lastRet, ri.eval(e, env))
			}
			if len(ri.lastRet) >= 1 {
				return rReturn, ri.lastRet[0]
			}
			return rReturn, rval{}
		case *ast.DeclStmt:
			if gd, ok := x.Decl.(*ast.GenDecl); ok {
				for _, sp := range gd.Specs {
					if vs, ok := sp.(*ast.ValueSpec); ok {
						for i, n := range vs.Names {
							o := ri.info.ObjectOf(n)
							if o == nil {
								continue
							}
							if i < len(vs.Values) {
								env[o] = ri.eval(vs.Values[i], env)
							} else {
								env[o] = zeroOf(o.Type())
							}
						}
					}
				}
			}
		case *ast.BranchStmt:
			switch x.Tok {
			case token.CONTINUE:
				return rContinue, rval{}
			case token.BREAK:
				return rBreak, rval{}
			}
		case *ast.AssignStmt:
			if len(x.Lhs) > 1 && len(x.Rhs) == 1 {
				if call, ok := ast.Unparen(x.Rhs[0]).(*ast.CallExpr); ok {
					if vals, ok := ri.callAll(call, env); ok && len(vals) == len(x.Lhs) {
						for i, l := range x.Lhs {
							if id, ok := l.(*ast.Ident); ok && id.Name != "_" {
								env[ri.info.ObjectOf(id)] = vals[i]
							}
						}
						continue
					}
				}
				for _, l := range x.Lhs {
					if id, ok := l.(*ast.Ident); ok && id.Name != "_" {
						env[ri.info.ObjectOf(id)] = rval{}
					}
				}
				continue
			}
			for i, l := range x.Lhs {
				if i >= len(x.Rhs) {
					break
				}
				if call, ok := ast.Unparen(x.Rhs[i]).(*ast.CallExpr); ok {
					if id, ok := call.Fun.(*ast.Ident); ok && id.Name == "append" {
						if sl, ok := ri.info.TypeOf(l).Underlying().(*types.Slice); ok {
							if b, ok := sl.Elem().Underlying().(*types.Basic); ok && b.Info()&types.IsString != 0 {
								ri.count += len(call.Args) - 1
							}
						}
						continue
					}
				}
				if id, ok := l.(*ast.Ident); ok {
					env[ri.info.ObjectOf(id)] = ri.eval(x.Rhs[i], env)
				}
			}
		case *ast.IfStmt:
			if x.Init != nil {
				ri.exec([]ast.Stmt{x.Init}, env)
			}
			c := ri.eval(x.Cond, env)
			switch {
			case c.known && c.num == "false":
				if x.Else != nil {
					if s, v := ri.exec([]ast.Stmt{x.Else}, env); s != rNormal {
						return s, v
					}
				}
			default: // true, or unknown (the attached processor / the object being rendered)
				if s, v := ri.exec(x.Body.List, env); s != rNormal {
					return s, v
				}
			}
		case *ast.SwitchStmt:
			if x.Init != nil {
				ri.exec([]ast.Stmt{x.Init}, env)
			}
			var tag rval
			if x.Tag != nil {
				tag = ri.eval(x.Tag, env)
				if !tag.known {
					continue // a switch on something unknown builds no list here
				}
			}
			var def *ast.CaseClause
			done := false
			for _, cl := range x.Body.List {
				cc := cl.(*ast.CaseClause)
				if len(cc.List) == 0 {
					def = cc
					continue
				}
				hit := false
				for _, ce := range cc.List {
					v := ri.eval(ce, env)
					if x.Tag == nil {
						if v.known && v.num == "true" {
							hit = true
						}
					} else if v.known && v.isStr == tag.isStr && ((v.isStr && v.str == tag.str) || (!v.isStr && v.num == tag.num)) {
						hit = true
					}
				}
				if hit {
					done = true
					s, v := ri.exec(cc.Body, env)
					if s == rBreak {
						s = rNormal
					}
					if s != rNormal {
						return s, v
					}
					break
				}
			}
			if !done && def != nil {
				s, v := ri.exec(def.Body, env)
				if s == rBreak {
					s = rNormal
				}
				if s != rNormal {
					return s, v
				}
			}
		case *ast.RangeStmt:
			if f := core.FieldOf(ri.info, x.X); f != nil && f.Name() == "Op" {
				var vobj types.Object
				if id, ok := x.Value.(*ast.Ident); ok {
					vobj = ri.info.ObjectOf(id)
				}
				for _, name := range ri.ops {
					if vobj != nil {
						env[vobj] = rval{known: true, op: true, str: name}
					}
					s, v := ri.exec(x.Body.List, env)
					if s == rBreak {
						break
					}
					if s == rReturn {
						return s, v
					}
				}
				continue
			}
			// any other collection: one element (the attached processor, the link to this object)
			s, v := ri.exec(x.Body.List, env)
			if s == rReturn {
				return s, v
			}
		case *ast.ForStmt:
			s, v := ri.exec(x.Body.List, env)
			if s == rReturn {
				return s, v
			}
		}
	}
	return rNormal, rval{}
}

func c18Roles(r *core.Run, prog *core.Program) {
	bm := prog.Pkg("pkg/bondmachine")
	if bm == nil {
		return
	}
	info := bm.TypesInfo
	decls := map[types.Object]*ast.FuncDecl{}
	core.FuncDecls(bm, func(_ *ast.File, fd *ast.FuncDecl) {
		if o := info.Defs[fd.Name]; o != nil {
			decls[o] = fd
		}
	})
	n := 0
	core.FuncDecls(bm, func(_ *ast.File, fd *ast.FuncDecl) {
		rn := core.RecvTypeName(info, fd)
		if fd.Name.Name != "Write_verilog" || !strings.HasSuffix(rn, "_instance") {
			return
		}
		// only objects that hand Senders/Receivers lists to a FIFO template
		uses := false
		ast.Inspect(fd.Body, func(m ast.Node) bool {
			if as, ok := m.(*ast.AssignStmt); ok {
				for _, l := range as.Lhs {
					if sel, ok := l.(*ast.SelectorExpr); ok && (sel.Sel.Name == "Senders" || sel.Sel.Name == "Receivers") {
						uses = true
					}
				}
			}
			return true
		})
		if !uses {
			return
		}
		// the opcode names the header tests
		var hdr *ast.FuncDecl
		core.FuncDecls(bm, func(_ *ast.File, f2 *ast.FuncDecl) {
			if f2.Name.Name == "GetPerProcPortsHeader" && core.RecvTypeName(info, f2) == rn {
				hdr = f2
			}
		})
		if hdr == nil {
			return
		}
		items, _ := portsOf(info, hdr, "list", nil)
		var tested []string
		for c := range items {
			for _, part := range strings.Split(c, "&") {
				if strings.HasPrefix(part, "op:") {
					tested = append(tested, strings.TrimPrefix(part, "op:"))
				}
			}
		}
		sort.Strings(tested)
		if len(tested) == 0 || len(tested) > 3 {
			return
		}
		for mask := 0; mask < 1<<len(tested); mask++ {
			var ops []string
			for i, t := range tested {
				if mask&(1<<i) != 0 {
					ops = append(ops, t)
				}
			}
			ri := &rolesInterp{info: info, decls: decls, ops: ops}
			ri.exec(fd.Body.List, map[types.Object]rval{})
			n++
			inst := fmt.Sprintf("C18/ROLES:%s:{%s}", rn, strings.Join(ops, ","))
			pos := prog.Pos(fd.Pos())
			switch {
			case ri.failed != "":
				r.Undecided("C18/ROLES", inst, pos, "list-building code not interpretable: "+ri.failed)
			case ri.count == len(ops):
				r.OK("C18/ROLES", inst, pos, fmt.Sprintf("%d port group(s) in the module and in the instantiation for a processor with these opcodes", len(ops)))
			default:
				r.Violation("C18/ROLES", inst, pos, fmt.Sprintf("for an attached processor whose opcode set contains {%s}, %s.Write_verilog gives the shared object's module %d sender/receiver port group(s), while GetPerProcPortsHeader makes the top level connect %d group(s) of wires to it (one per opcode present): the instance has a different number of ports than the module it instantiates", strings.Join(ops, ","), rn, ri.count, len(ops)))
			}
		}
	})
	r.Count("role_assumptions", n)
}
