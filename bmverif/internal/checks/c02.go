package checks

import (
	"fmt"
	"go/ast"
	"go/token"
	"go/types"

	"bmverif/internal/core"
	"golang.org/x/tools/go/packages"
)

func init() {
	register("C02", checkC02)
	describe("C02", Meta{
		Technique: "index-space (units-of-measure) inference over the type-checked AST: every int used to index the bond tables, stored into Links or compared is given the index space of its definition (range key/value, len, lookup, Map_to-guarded Res_id/Ext_id) and must agree with the space the container is declared to use",
		Claim:     "Decides one structural clause of C02: both back-ends (VM.Step and the Verilog top-level generator) and every helper that walks Links / Internal_inputs / Internal_outputs use internal-input indices, internal-output indices, external-port indices and processor indices only in the tables of the matching space, and a Map_to case names an endpoint kind that can occur in the list being walked. A swapped Links index or a transfer guarded by the wrong endpoint kind is reported. LINKWALK: for every per-endpoint table the VM fills while ranging over Links, at least one walk moves every link (conditions on the link only), as the generated top level does with one assign per bond. Stream equality HDL vs. simulator, timing and the AND of received lines are not decided.",
		Note:      "Index spaces are declared per struct field in the checker (read off the data model's own comments); locals with two different definitions are ignored (no obligation). Flow-insensitive per function.",
		DesignRef: "DESIGN.md §2 C02",
	})
}

// the packages C02 is anchored in (both back-ends and the data model they walk)
var ikScope = []string{"pkg/bondmachine", "cmd/bondmachine"}

func checkC02(r *core.Run) {
	r.Explanation = "Decides the index-space clause of C02: in every function of the bond-graph packages, each index expression into Links / Internal_inputs(_regs, Valid, Recv) / Internal_outputs(...) / Inputs_regs / Outputs_regs / Processors and the per-processor port arrays, each value stored into Links and each comparison between two indices is checked to stay within one index space (II, IO, XIN, XOUT, PROC, PIN, POUT), with Bond.Res_id / Ext_id refined by the enclosing Map_to guard; a Map_to case must name an endpoint kind present in the list ranged over. " +
		"Does NOT decide: that HDL and simulator deliver the same streams, timing, the conjunction of received lines, positional port order of generated instances."
	prog := r.Load(core.LoadConfig{})
	if prog == nil {
		return
	}
	e := newIKEngine(r, prog, "C02")
	// simbox tables (C15) and topology editors (C10) are decided under their own property
	e.run(ikScope, func(pk *packages.Package, fd *ast.FuncDecl) bool {
		return !e.mentionsFieldOf(pk, fd, "pkg/bondmachine.SimDrive.", "pkg/bondmachine.SimReport.") && !e.storesTopology(pk, fd)
	})
	c02LinkWalk(r, prog)
}

// c02LinkWalk (C02/LINKWALK): the simulator moves data, valid and received along EVERY bond. In each
// `for i, j := range Links` of the VM's step functions, a statement that stores into a per-endpoint
// table may only be conditioned on the link itself (the loop variables, locals derived from them,
// constants): a condition that reads the machine's content (a struct field such as Map_to) makes the
// walk skip a class of bonds, which the generated top level — one assign per link — does not.
// Decided per (function, table): at least one walk must move every link into the table; a violation
// is reported only when every walk storing into the table is content-conditioned.
func c02LinkWalk(r *core.Run, prog *core.Program) {
	pk := prog.Pkg("pkg/bondmachine")
	if pk == nil {
		return
	}
	info := pk.TypesInfo
	nWalks, nStores := 0, 0
	seenT := map[string]bool{}
	var order []string
	full := map[string]string{}        // table -> position of a walk that moves every link
	filtered := map[string][2]string{} // table -> (content condition, position) of a filtered walk
	core.FuncDecls(pk, func(_ *ast.File, fd *ast.FuncDecl) {
		if core.RecvTypeName(info, fd) != "VM" {
			return
		}
		ast.Inspect(fd.Body, func(n ast.Node) bool {
			rs, ok := n.(*ast.RangeStmt)
			if !ok {
				return true
			}
			f := core.FieldOf(info, rs.X)
			if f == nil || f.Name() != "Links" || !core.IsField(f, "pkg/bondmachine", "Links") {
				return true
			}
			nWalks++
			// content-dependent condition?
			contentCond := func(e ast.Expr) string {
				bad := ""
				ast.Inspect(e, func(k ast.Node) bool {
					switch x := k.(type) {
					case *ast.SelectorExpr:
						if fv := core.FieldOf(info, x); fv != nil && bad == "" {
							bad = types.ExprString(x)
						}
					case *ast.CallExpr:
						if tv, ok := info.Types[x.Fun]; ok && tv.IsType() {
							return true
						}
						if id, ok := x.Fun.(*ast.Ident); ok && (id.Name == "len" || id.Name == "int") {
							return true
						}
						if bad == "" {
							bad = types.ExprString(x)
						}
					}
					return true
				})
				return bad
			}
			// walk the loop body keeping the stack of governing conditions
			type gov struct {
				cond ast.Expr
				pos  token.Pos
			}
			k := 0
			var walk func(list []ast.Stmt, govs []gov)
			endsInJump := func(b *ast.BlockStmt) bool {
				if len(b.List) == 0 {
					return false
				}
				switch x := b.List[len(b.List)-1].(type) {
				case *ast.BranchStmt:
					return x.Tok == token.CONTINUE || x.Tok == token.BREAK
				case *ast.ReturnStmt:
					return true
				}
				return false
			}
			walk = func(list []ast.Stmt, govs []gov) {
				for _, st := range list {
					switch x := st.(type) {
					case *ast.IfStmt:
						g2 := append(append([]gov{}, govs...), gov{x.Cond, x.Pos()})
						walk(x.Body.List, g2)
						switch el := x.Else.(type) {
						case *ast.BlockStmt:
							walk(el.List, g2)
						case *ast.IfStmt:
							walk([]ast.Stmt{el}, g2)
						}
						if endsInJump(x.Body) {
							govs = g2 // the rest of the block runs only when the condition is false
						}
					case *ast.BlockStmt:
						walk(x.List, govs)
					case *ast.SwitchStmt:
						g2 := govs
						if x.Tag != nil {
							g2 = append(append([]gov{}, govs...), gov{x.Tag, x.Pos()})
						}
						for _, c := range x.Body.List {
							cc := c.(*ast.CaseClause)
							g3 := g2
							if x.Tag == nil {
								for _, e := range cc.List {
									g3 = append(append([]gov{}, g3...), gov{e, cc.Pos()})
								}
							}
							walk(cc.Body, g3)
						}
					case *ast.ForStmt:
						walk(x.Body.List, govs)
					case *ast.RangeStmt:
						walk(x.Body.List, govs)
					case *ast.AssignStmt:
						for _, l := range x.Lhs {
							ie, ok := ast.Unparen(l).(*ast.IndexExpr)
							if !ok {
								continue
							}
							// per-endpoint table: a field of the VM, or a local map keyed by an endpoint index
							isTable := core.FieldOf(info, ie.X) != nil
							if id, ok := ast.Unparen(ie.X).(*ast.Ident); ok {
								if _, isMap := info.TypeOf(id).Underlying().(*types.Map); isMap {
									if b, ok := info.TypeOf(l).Underlying().(*types.Basic); !ok || b.Info()&types.IsString == 0 {
										isTable = true
									}
								}
							}
							if !isTable {
								continue
							}
							k++
							nStores++
							bad, badPos := "", token.NoPos
							for _, g := range govs {
								if b := contentCond(g.cond); b != "" && bad == "" {
									bad, badPos = b, g.pos
								}
							}
							tk := core.FuncKey(pk, fd) + ":" + types.ExprString(ie.X)
							if !seenT[tk] {
								seenT[tk] = true
								order = append(order, tk)
							}
							if bad == "" {
								full[tk] = prog.Pos(x.Pos())
							} else if _, dup := filtered[tk]; !dup {
								filtered[tk] = [2]string{bad, prog.Pos(badPos)}
							}
						}
					}
				}
			}
			walk(rs.Body.List, nil)
			return true
		})
	})
	for _, tk := range order {
		inst := "C02/LINKWALK:" + tk
		if pos, ok := full[tk]; ok {
			r.OK("C02/LINKWALK", inst, pos, "a walk over Links moves every bond into this table (conditioned on the link only)")
			continue
		}
		f := filtered[tk]
		r.Violation("C02/LINKWALK", inst, f[1], fmt.Sprintf("every walk over Links that transfers into %s does so only when a condition on the machine's content holds (%s): bonds of the excluded kind are never moved by the simulator, while the generated top level wires every link unconditionally (one assign per bond) — the two back-ends disagree on those bonds", tk, f[0]))
	}
	r.Count("vm_link_walks", nWalks)
	r.Count("vm_link_walk_transfers", nStores)
}
