#!/opt/veriftools/pyvenv/bin/python
# validates MANIFEST.json and every evidence file against the harness schemas
import json,sys,glob,jsonschema
ok=True
def v(path,schema):
    global ok
    try:
        jsonschema.validate(json.load(open(path)), json.load(open(schema)))
        print('valid  ',path)
    except Exception as e:
        ok=False
        print('INVALID',path,str(e)[:300])
v('/verif/MANIFEST.json','/root/.vp/MANIFEST.schema.json')
for f in sorted(glob.glob('/verif/evidence/C*.json')):
    v(f,'/root/.vp/EVIDENCE.schema.json')
sys.exit(0 if ok else 1)
