#!/bin/bash
# mkmutant.sh <name> <file> <sed-expr> : creates /verif/mutants/<name>.diff by applying a sed edit to one file in a scratch worktree
NAME=$1; FILE=$2; EXPR=$3
WT=$(mktemp -d /tmp/bmverif-mk.XXXXXX)
git -C /repo worktree add --detach "$WT" HEAD >/dev/null 2>&1
sed -i -E "$EXPR" "$WT/$FILE"
if git -C "$WT" diff --quiet; then echo "NO CHANGE for $NAME"; else git -C "$WT" diff > /verif/mutants/$NAME.diff; (cd "$WT" && GOFLAGS=-mod=mod GOPROXY=off GOSUMDB=off GOTOOLCHAIN=local go build ./$(dirname $FILE) >/dev/null 2>&1 && echo "built $NAME" || echo "DOES NOT BUILD $NAME"); fi
git -C /repo worktree remove --force "$WT"
