package checks

import (
	"fmt"
	"go/ast"
	"go/constant"
	"go/token"
	"go/types"
	"math"
	"sort"
	"strings"

	"bmverif/internal/core"
	"golang.org/x/tools/go/packages"
)

func init() {
	register("C14", checkC14)
	describe("C14", Meta{
		Technique: "exact evaluation of the constant gate tables from the type-checked source (go/constant values, straight-line m.Data[i][j] = Complex32{re, im} stores) and symbolic expansion of U·U† for the parametric gates in the polynomial ring of cos/sin with the identity c²+s²=1",
		Claim:     "Decides one clause of C14: every base gate that MatrixFromOp can dispatch to is unitary — exactly for the constant tables (|U·U†−I|∞ ≤ 1e-6, the float32 tolerance of the property) and identically in the angle for the parametric ones. Since the emitted matrices are tensor products, permutations and products of base gates, each emitted matrix being unitary requires every base gate to be. The qubit-reordering logic, tensor order, matrix splitting and agreement with the reference unitary are NOT decided: a wrong-but-unitary gate passes.",
		Note:      "Only straight-line constructors are interpreted; any other shape makes the gate undecided (a failure).",
		DesignRef: "DESIGN.md §2 C14",
	})
}

// polynomial in c=cos(x), s=sin(x) for one angle x, complex coefficients
type mono struct{ ci, si int }
type cpoly map[mono]complex128

func (p cpoly) add(q cpoly, k complex128) cpoly {
	r := cpoly{}
	for m, v := range p {
		r[m] += v
	}
	for m, v := range q {
		r[m] += k * v
	}
	return r
}
func (p cpoly) mul(q cpoly) cpoly {
	r := cpoly{}
	for m1, v1 := range p {
		for m2, v2 := range q {
			r[mono{m1.ci + m2.ci, m1.si + m2.si}] += v1 * v2
		}
	}
	return r
}
func (p cpoly) conj() cpoly {
	r := cpoly{}
	for m, v := range p {
		r[m] = complex(real(v), -imag(v))
	}
	return r
}

// reduce with s^2 = 1 - c^2
func (p cpoly) reduce() cpoly {
	for {
		changed := false
		r := cpoly{}
		for m, v := range p {
			if m.si >= 2 {
				r[mono{m.ci, m.si - 2}] += v
				r[mono{m.ci + 2, m.si - 2}] -= v
				changed = true
			} else {
				r[m] += v
			}
		}
		p = r
		if !changed {
			return p
		}
	}
}

type gateEntry struct {
	re, im cpoly
}

type gateMatrix struct {
	n     int
	data  map[[2]int]gateEntry
	angle string // normalised angle family ("" = constant gate)
	pos   token.Pos
}

type c14Interp struct {
	prog     *core.Program
	pk       *packages.Package
	funcs    map[string]*ast.FuncDecl
	locals   map[types.Object]cpoly
	localsC  map[types.Object]gateEntry // local complex values: zero := Complex32{0, 0}
	alias    map[types.Object]string    // helper parameter -> the caller's angle name
	angles   map[types.Object]angleLocal // float locals holding an angle (half := float64(phase / 2))
	loopBind map[ast.Stmt]map[types.Object]*float64
}

type angleLocal struct {
	a    angleArg
	sign int
}

// evalTuple evaluates a call that yields several reals: math.Sincos, or a straight-line helper of
// the same package (`func halfAngle(phase float32) (float32, float32)`), interpreted with its
// parameters bound to the caller's arguments.
func (ci *c14Interp) evalTuple(call *ast.CallExpr, info *types.Info, params map[types.Object]*float64, angle *string, depth int) ([]cpoly, string) {
	c := core.CalleeOf(info, call)
	if c == nil || c.Pkg() == nil {
		return nil, "call outside the interpreted fragment: " + types.ExprString(call)
	}
	if c.Pkg().Path() == "math" && c.Name() == "Sincos" && len(call.Args) == 1 {
		var out []cpoly
		for _, fn := range []string{"Sin", "Cos"} {
			p, why := ci.trig(fn, call.Args[0], info, params, angle)
			if why != "" {
				return nil, why
			}
			out = append(out, p)
		}
		return out, ""
	}
	fd := ci.funcs[c.Name()]
	if c.Pkg() != ci.pk.Types || fd == nil || fd.Recv != nil || depth > 3 {
		return nil, "call outside the interpreted fragment: " + types.ExprString(call)
	}
	hp := map[types.Object]*float64{}
	idx := 0
	for _, f := range fd.Type.Params.List {
		for _, n := range f.Names {
			if idx >= len(call.Args) {
				return nil, "variadic helper"
			}
			a := ast.Unparen(call.Args[idx])
			idx++
			o := info.ObjectOf(n)
			if tv, ok := info.Types[a]; ok && tv.Value != nil {
				v, _ := constant.Float64Val(constant.ToFloat(tv.Value))
				hp[o] = &v
				continue
			}
			arg, sign, why := ci.evalAngle(a, info, params)
			if why != "" || sign != 1 {
				return nil, "helper argument outside the interpreted fragment: " + types.ExprString(a)
			}
			if arg.isConst {
				v := arg.val
				hp[o] = &v
				continue
			}
			hp[o] = nil
			ci.alias[o] = arg.key
		}
	}
	for _, st := range fd.Body.List {
		switch x := st.(type) {
		case *ast.AssignStmt:
			if why := ci.assignReals(x, info, hp, angle, depth); why != "" {
				return nil, why
			}
		case *ast.ReturnStmt:
			var out []cpoly
			for _, e := range x.Results {
				p, why := ci.evalReal(e, info, hp, angle)
				if why != "" {
					return nil, why
				}
				out = append(out, p)
			}
			return out, ""
		default:
			return nil, fmt.Sprintf("helper %s: statement %T outside the interpreted fragment", c.Name(), st)
		}
	}
	return nil, "helper does not return"
}

// assignReals handles `x := <real>` and `a, b := <tuple call>` for float locals; "" on success,
// "-" when the statement is not of that form.
func (ci *c14Interp) assignReals(x *ast.AssignStmt, info *types.Info, params map[types.Object]*float64, angle *string, depth int) string {
	isFloat := func(e ast.Expr) types.Object {
		id, ok := e.(*ast.Ident)
		if !ok {
			return nil
		}
		o := info.ObjectOf(id)
		if o == nil {
			return nil
		}
		if b, ok := o.Type().Underlying().(*types.Basic); ok && b.Info()&types.IsFloat != 0 {
			return o
		}
		return nil
	}
	if len(x.Rhs) == 1 && len(x.Lhs) > 1 {
		call, ok := x.Rhs[0].(*ast.CallExpr)
		if !ok {
			return "-"
		}
		var objs []types.Object
		for _, l := range x.Lhs {
			o := isFloat(l)
			if o == nil {
				if id, ok := l.(*ast.Ident); ok && id.Name == "_" {
					objs = append(objs, nil)
					continue
				}
				return "-"
			}
			objs = append(objs, o)
		}
		ps, why := ci.evalTuple(call, info, params, angle, depth+1)
		if why != "" {
			return why
		}
		if len(ps) != len(objs) {
			return "tuple arity mismatch"
		}
		for i, o := range objs {
			if o != nil {
				ci.locals[o] = ps[i]
			}
		}
		return ""
	}
	if len(x.Lhs) == len(x.Rhs) {
		all := true
		for _, l := range x.Lhs {
			if isFloat(l) == nil {
				all = false
			}
		}
		if !all {
			return "-"
		}
		var ps []cpoly
		for i, e := range x.Rhs {
			p, why := ci.evalReal(e, info, params, angle)
			if why != "" {
				// not a value but an angle kept for later (half := float64(phase / 2))
				if a, sg, w2 := ci.evalAngle(e, info, params); w2 == "" && len(x.Rhs) == 1 {
					if ci.angles == nil {
						ci.angles = map[types.Object]angleLocal{}
					}
					ci.angles[isFloat(x.Lhs[i])] = angleLocal{a, sg}
					return ""
				}
				return why
			}
			ps = append(ps, p)
		}
		for i, l := range x.Lhs {
			ci.locals[isFloat(l)] = ps[i]
		}
		return ""
	}
	return "-"
}

// trig evaluates math.Cos/math.Sin of an angle expression.
func (ci *c14Interp) trig(fn string, argE ast.Expr, info *types.Info, params map[types.Object]*float64, angle *string) (cpoly, string) {
	arg, sign, why := ci.evalAngle(argE, info, params)
	if why != "" {
		return nil, why
	}
	if arg.isConst {
		if fn == "Cos" {
			return constPoly(math.Cos(arg.val)), ""
		}
		return constPoly(math.Sin(arg.val)), ""
	}
	if *angle != "" && *angle != arg.key {
		return nil, "two different angle arguments in one gate (" + *angle + ", " + arg.key + ")"
	}
	*angle = arg.key
	if fn == "Cos" {
		return cpoly{mono{1, 0}: 1}, "" // cos is even
	}
	return cpoly{mono{0, 1}: complex(float64(sign), 0)}, ""
}

func constPoly(v float64) cpoly { return cpoly{mono{0, 0}: complex(v, 0)} }

// evalReal evaluates a real-valued entry expression. params maps parameter objects to a constant
// value (when the gate is called with a constant) or marks them symbolic (nil).
func (ci *c14Interp) evalReal(e ast.Expr, info *types.Info, params map[types.Object]*float64, angle *string) (cpoly, string) {
	if tv, ok := info.Types[e]; ok && tv.Value != nil {
		if f, ok := constant.Float64Val(constant.ToFloat(tv.Value)); ok || tv.Value.Kind() != constant.Unknown {
			return constPoly(f), ""
		}
	}
	switch x := ast.Unparen(e).(type) {
	case *ast.UnaryExpr:
		if x.Op == token.SUB {
			p, why := ci.evalReal(x.X, info, params, angle)
			return cpoly{}.add(p, -1), why
		}
	case *ast.BinaryExpr:
		a, w1 := ci.evalReal(x.X, info, params, angle)
		b, w2 := ci.evalReal(x.Y, info, params, angle)
		if w1 != "" {
			return nil, w1
		}
		if w2 != "" {
			return nil, w2
		}
		switch x.Op {
		case token.ADD:
			return a.add(b, 1), ""
		case token.SUB:
			return a.add(b, -1), ""
		case token.MUL:
			return a.mul(b), ""
		case token.QUO:
			if len(b) == 1 {
				if v, ok := b[mono{0, 0}]; ok && v != 0 {
					return cpoly{}.add(a, 1/v), ""
				}
			}
		}
	case *ast.Ident:
		if o := info.ObjectOf(x); o != nil {
			if pv, ok := params[o]; ok && pv != nil {
				return constPoly(*pv), ""
			}
			if lp, ok := ci.locals[o]; ok {
				return lp, ""
			}
		}
	case *ast.CallExpr:
		if tv, ok := info.Types[x.Fun]; ok && tv.IsType() && len(x.Args) == 1 {
			return ci.evalReal(x.Args[0], info, params, angle)
		}
		if c := core.CalleeOf(info, x); c != nil && c.Pkg() != nil && c.Pkg().Path() == "math" && (c.Name() == "Cos" || c.Name() == "Sin") && len(x.Args) == 1 {
			return ci.trig(c.Name(), x.Args[0], info, params, angle)
		}
	}
	return nil, "entry expression outside the interpreted fragment: " + types.ExprString(e)
}

type angleArg struct {
	isConst bool
	val     float64
	key     string
}

func (ci *c14Interp) evalAngle(e ast.Expr, info *types.Info, params map[types.Object]*float64) (angleArg, int, string) {
	if tv, ok := info.Types[e]; ok && tv.Value != nil {
		f, _ := constant.Float64Val(constant.ToFloat(tv.Value))
		return angleArg{isConst: true, val: f}, 1, ""
	}
	switch x := ast.Unparen(e).(type) {
	case *ast.UnaryExpr:
		if x.Op == token.SUB {
			a, s, why := ci.evalAngle(x.X, info, params)
			if a.isConst {
				a.val = -a.val
			}
			return a, -s, why
		}
	case *ast.CallExpr:
		if tv, ok := info.Types[x.Fun]; ok && tv.IsType() && len(x.Args) == 1 {
			return ci.evalAngle(x.Args[0], info, params)
		}
	case *ast.Ident:
		if o := info.ObjectOf(x); o != nil {
			if al, ok := ci.angles[o]; ok {
				return al.a, al.sign, ""
			}
			if pv, ok := params[o]; ok {
				if pv != nil {
					return angleArg{isConst: true, val: *pv}, 1, ""
				}
				if a, ok := ci.alias[o]; ok {
					return angleArg{key: a}, 1, ""
				}
				return angleArg{key: x.Name}, 1, ""
			}
		}
	case *ast.BinaryExpr:
		if x.Op == token.QUO || x.Op == token.MUL {
			a, s, why := ci.evalAngle(x.X, info, params)
			if why != "" {
				return a, s, why
			}
			if tv, ok := info.Types[x.Y]; ok && tv.Value != nil {
				k, _ := constant.Float64Val(constant.ToFloat(tv.Value))
				if a.isConst {
					if x.Op == token.QUO {
						a.val /= k
					} else {
						a.val *= k
					}
					return a, s, ""
				}
				a.key = fmt.Sprintf("%s%s%g", a.key, x.Op, k)
				return a, s, ""
			}
		}
	}
	return angleArg{}, 1, "angle argument outside the interpreted fragment: " + types.ExprString(e)
}

// build interprets a constructor `func F(params) *BmMatrixSquareComplex`.
func (ci *c14Interp) build(name string, args []*float64, depth int) (*gateMatrix, string) {
	fd := ci.funcs[name]
	if fd == nil {
		return nil, "constructor " + name + " not found in pkg/bmmatrix"
	}
	if depth > 4 {
		return nil, "alias chain too deep"
	}
	info := ci.pk.TypesInfo
	params := map[types.Object]*float64{}
	idx := 0
	for _, p := range fd.Type.Params.List {
		for _, n := range p.Names {
			var v *float64
			if idx < len(args) {
				v = args[idx]
			}
			params[info.ObjectOf(n)] = v
			idx++
		}
	}
	g := &gateMatrix{data: map[[2]int]gateEntry{}, pos: fd.Pos()}
	var mObj types.Object
	locals := map[types.Object]cpoly{}
	ci.locals = locals
	localsC := map[types.Object]gateEntry{}
	if ci.alias == nil {
		ci.alias = map[types.Object]string{}
	}
	// unroll constant-bound loops into a flat statement list
	var flat []ast.Stmt
	var flatten func(list []ast.Stmt, bind map[types.Object]*float64) string
	ci.loopBind = map[ast.Stmt]map[types.Object]*float64{}
	flatten = func(list []ast.Stmt, bind map[types.Object]*float64) string {
		for _, st := range list {
			fs, ok := st.(*ast.ForStmt)
			if !ok {
				flat = append(flat, st)
				if bind != nil {
					ci.loopBind[st] = bind
				}
				continue
			}
			as, ok1 := fs.Init.(*ast.AssignStmt)
			be, ok2 := fs.Cond.(*ast.BinaryExpr)
			if !ok1 || !ok2 || len(as.Lhs) != 1 || be.Op != token.LSS {
				return "loop outside the interpreted fragment"
			}
			id, _ := as.Lhs[0].(*ast.Ident)
			lo, w1 := ci.evalReal(as.Rhs[0], info, params, &g.angle)
			hi, w2 := ci.evalReal(be.Y, info, params, &g.angle)
			if id == nil || w1 != "" || w2 != "" || len(lo) > 1 || len(hi) > 1 {
				return "loop bounds are not constants"
			}
			l, h := int(real(lo[mono{0, 0}])), int(real(hi[mono{0, 0}]))
			if h-l > 64 {
				return "loop too long to unroll"
			}
			for i := l; i < h; i++ {
				v := float64(i)
				nb := map[types.Object]*float64{}
				for k, vv := range bind {
					nb[k] = vv
				}
				nb[info.ObjectOf(id)] = &v
				// each iteration gets fresh statement copies by reference + binding keyed per (stmt, i)
				for _, inner := range fs.Body.List {
					flat = append(flat, &ast.LabeledStmt{Label: ast.NewIdent(fmt.Sprintf("it%d", i)), Stmt: inner})
					ci.loopBind[flat[len(flat)-1]] = nb
				}
			}
		}
		return ""
	}
	if why := flatten(fd.Body.List, nil); why != "" {
		return nil, why
	}
	var pendingRestore func()
	for _, st0 := range flat {
		if pendingRestore != nil {
			pendingRestore()
			pendingRestore = nil
		}
		st := st0
		saved := map[types.Object]*float64{}
		if b, ok := ci.loopBind[st0]; ok {
			for k, v := range b {
				saved[k] = params[k]
				params[k] = v
			}
		}
		if ls, ok := st.(*ast.LabeledStmt); ok {
			st = ls.Stmt
		}
		restore := func() {
			for k, v := range saved {
				if v == nil {
					delete(params, k)
				} else {
					params[k] = v
				}
			}
		}
		pendingRestore = restore
		switch x := st.(type) {
		case *ast.AssignStmt:
			if why := ci.assignReals(x, info, params, &g.angle, depth); why == "" {
				continue
			} else if why != "-" {
				return nil, why
			}
			complexLit := func(e ast.Expr) (gateEntry, string, bool) {
				if id, ok := ast.Unparen(e).(*ast.Ident); ok {
					if ge, ok := localsC[info.ObjectOf(id)]; ok {
						return ge, "", true
					}
					return gateEntry{}, "", false
				}
				cl, ok := ast.Unparen(e).(*ast.CompositeLit)
				if !ok || len(cl.Elts) != 2 {
					return gateEntry{}, "", false
				}
				if nm, ok := info.TypeOf(cl).(*types.Named); !ok || nm.Obj().Name() != "Complex32" {
					return gateEntry{}, "", false
				}
				e0, e1 := cl.Elts[0], cl.Elts[1]
				if kv, ok := e0.(*ast.KeyValueExpr); ok {
					kv1, ok1 := e1.(*ast.KeyValueExpr)
					if !ok1 {
						return gateEntry{}, "", false
					}
					k0, _ := kv.Key.(*ast.Ident)
					k1, _ := kv1.Key.(*ast.Ident)
					if k0 == nil || k1 == nil {
						return gateEntry{}, "", false
					}
					e0, e1 = kv.Value, kv1.Value
					if k0.Name == "Imag" && k1.Name == "Real" {
						e0, e1 = e1, e0
					} else if !(k0.Name == "Real" && k1.Name == "Imag") {
						return gateEntry{}, "", false
					}
				}
				re, w1 := ci.evalReal(e0, info, params, &g.angle)
				if w1 != "" {
					return gateEntry{}, w1, true
				}
				im, w2 := ci.evalReal(e1, info, params, &g.angle)
				if w2 != "" {
					return gateEntry{}, w2, true
				}
				return gateEntry{re, im}, "", true
			}
			if len(x.Lhs) == 1 && len(x.Rhs) == 1 {
				// local complex value: zero := Complex32{0.0, 0.0}
				if id, ok := x.Lhs[0].(*ast.Ident); ok {
					if o := info.ObjectOf(id); o != nil {
						if nm, ok := o.Type().(*types.Named); ok && nm.Obj().Name() == "Complex32" {
							ge, why, ok := complexLit(x.Rhs[0])
							if why != "" {
								return nil, why
							}
							if ok {
								localsC[o] = ge
								continue
							}
						}
					}
				}
				// m := NewBmMatrixSquareComplex(n)
				if call, ok := x.Rhs[0].(*ast.CallExpr); ok {
					if c := core.CalleeOf(info, call); c != nil && c.Name() == "NewBmMatrixSquareComplex" && len(call.Args) == 1 {
						if np, w := ci.evalReal(call.Args[0], info, params, &g.angle); w == "" && len(np) == 1 {
							g.n = int(real(np[mono{0, 0}]))
							if id, ok := x.Lhs[0].(*ast.Ident); ok {
								mObj = info.ObjectOf(id)
							}
							continue
						}
						return nil, "matrix size is not a constant"
					}
				}
				// m.Data[i][j] = Complex32{re, im}
				if ie, ok := x.Lhs[0].(*ast.IndexExpr); ok {
					if ie2, ok := ie.X.(*ast.IndexExpr); ok {
						sel, ok := ie2.X.(*ast.SelectorExpr)
						if ok && sel.Sel.Name == "Data" {
							if id, ok := sel.X.(*ast.Ident); ok && info.ObjectOf(id) == mObj {
								ip, w1i := ci.evalReal(ie2.Index, info, params, &g.angle)
								jp, w2j := ci.evalReal(ie.Index, info, params, &g.angle)
								if w1i != "" || w2j != "" || len(ip) != 1 || len(jp) != 1 {
									return nil, "non-constant matrix index"
								}
								i, j := int64(real(ip[mono{0, 0}])), int64(real(jp[mono{0, 0}]))
								ge, why, ok := complexLit(x.Rhs[0])
								if why != "" {
									return nil, why
								}
								if !ok {
									return nil, "entry is not a Complex32{re, im} literal or a local holding one"
								}
								re, im := ge.re, ge.im
								g.data[[2]int{int(i), int(j)}] = gateEntry{re, im}
								continue
							}
						}
					}
				}
			}
			return nil, "statement outside the interpreted fragment: " + types.ExprString(x.Lhs[0])
		case *ast.ReturnStmt:
			if len(x.Results) == 1 {
				if id, ok := x.Results[0].(*ast.Ident); ok && info.ObjectOf(id) == mObj && mObj != nil {
					return g, ""
				}
				if call, ok := x.Results[0].(*ast.CallExpr); ok {
					// alias / instantiation with constants
					if c := core.CalleeOf(info, call); c != nil && c.Pkg() == ci.pk.Types {
						var cargs []*float64
						for _, a := range call.Args {
							if tv, ok := info.Types[a]; ok && tv.Value != nil {
								f, _ := constant.Float64Val(constant.ToFloat(tv.Value))
								cargs = append(cargs, &f)
							} else {
								cargs = append(cargs, nil)
							}
						}
						return ci.build(c.Name(), cargs, depth+1)
					}
				}
			}
			return nil, "return outside the interpreted fragment"
		default:
			return nil, fmt.Sprintf("statement %T outside the interpreted fragment (only straight-line constructors are interpreted)", st)
		}
	}
	return nil, "constructor does not return its matrix"
}

// unitaryDefect returns max |(U·U†−I)_ij| coefficient after reduction.
func unitaryDefect(g *gateMatrix) float64 {
	entry := func(i, j int) cpoly {
		e, ok := g.data[[2]int{i, j}]
		if !ok {
			return cpoly{}
		}
		// re + i*im
		return cpoly{}.add(e.re, 1).add(e.im, complex(0, 1))
	}
	conjEntry := func(i, j int) cpoly {
		e, ok := g.data[[2]int{i, j}]
		if !ok {
			return cpoly{}
		}
		// conj(re + i im) with real polynomials re, im = re - i im
		return cpoly{}.add(e.re, 1).add(e.im, complex(0, -1))
	}
	worst := 0.0
	for i := 0; i < g.n; i++ {
		for j := 0; j < g.n; j++ {
			sum := cpoly{}
			for k := 0; k < g.n; k++ {
				sum = sum.add(entry(i, k).mul(conjEntry(j, k)), 1)
			}
			if i == j {
				sum = sum.add(constPoly(1), -1)
			}
			for _, v := range sum.reduce() {
				if a := math.Hypot(real(v), imag(v)); a > worst {
					worst = a
				}
			}
		}
	}
	return worst
}

func checkC14(r *core.Run) {
	r.Explanation = "Decides the base-gate clause of C14: every constructor MatrixFromOp dispatches to (directly, or through the sim.Phase/P/RX/RY/RZ wrappers) is interpreted from its source and U·U† is expanded exactly; constant gates must satisfy |U·U†−I|∞ ≤ 1e-6, parametric gates must reduce to the identity for every angle (polynomial identity in cos/sin with c²+s²=1). Every case of the dispatch switch must return a constructor or be the documented ignore (zero, input). " +
		"Does NOT decide: qubit reordering (swap lists), tensor order, matrix splitting on qubit reuse, the software simulation, agreement with the reference unitary of the circuit."
	prog := r.Load(core.LoadConfig{})
	if prog == nil {
		return
	}
	mm := prog.Pkg("pkg/bmmatrix")
	qs := prog.Pkg("pkg/bmqsim")
	if mm == nil || qs == nil {
		r.Fatal("pkg/bmmatrix or pkg/bmqsim not loaded")
		return
	}
	ci := &c14Interp{prog: prog, pk: mm, funcs: map[string]*ast.FuncDecl{}}
	core.FuncDecls(mm, func(_ *ast.File, fd *ast.FuncDecl) {
		if fd.Recv == nil {
			ci.funcs[fd.Name.Name] = fd
		}
	})
	// wrappers in bmqsim: method name -> bmmatrix constructor it returns
	wrappers := map[string]string{}
	wrapperArgs := map[string][]*float64{}
	core.FuncDecls(qs, func(_ *ast.File, fd *ast.FuncDecl) {
		if fd.Recv == nil {
			return
		}
		ast.Inspect(fd.Body, func(n ast.Node) bool {
			ret, ok := n.(*ast.ReturnStmt)
			if !ok || len(ret.Results) == 0 {
				return true
			}
			if call, ok := ret.Results[0].(*ast.CallExpr); ok {
				if c := core.CalleeOf(qs.TypesInfo, call); c != nil && c.Pkg() == mm.Types {
					wrappers[fd.Name.Name] = c.Name()
					var as []*float64
					for _, a := range call.Args {
						if tv, ok := qs.TypesInfo.Types[a]; ok && tv.Value != nil {
							f, _ := constant.Float64Val(constant.ToFloat(tv.Value))
							as = append(as, &f)
						} else {
							as = append(as, nil)
						}
					}
					wrapperArgs[fd.Name.Name] = as
				}
			}
			return true
		})
	})
	// the dispatch switch
	type disp struct {
		names []string
		ctor  string
		args  []*float64
		sym   bool
		pos   token.Pos
		none  bool
	}
	var table []disp
	core.FuncDecls(qs, func(_ *ast.File, fd *ast.FuncDecl) {
		if fd.Name.Name != "MatrixFromOp" {
			return
		}
		ast.Inspect(fd.Body, func(n ast.Node) bool {
			sw, ok := n.(*ast.SwitchStmt)
			if !ok {
				return true
			}
			for _, c := range sw.Body.List {
				cc := c.(*ast.CaseClause)
				if len(cc.List) == 0 {
					continue
				}
				d := disp{pos: cc.Pos()}
				for _, e := range cc.List {
					if s, ok := constStr(qs.TypesInfo, e); ok {
						d.names = append(d.names, s)
					}
				}
				d.none = true
				for _, st := range cc.Body {
					if ret, ok := st.(*ast.ReturnStmt); ok && len(ret.Results) > 0 {
						if call, ok := ret.Results[0].(*ast.CallExpr); ok {
							if c := core.CalleeOf(qs.TypesInfo, call); c != nil {
								d.none = false
								if c.Pkg() == mm.Types {
									d.ctor = c.Name()
								} else if w, ok := wrappers[c.Name()]; ok {
									d.ctor, d.sym = w, true
									d.args = wrapperArgs[c.Name()]
								} else {
									d.ctor = "?" + c.Name()
								}
							}
						}
					}
				}
				table = append(table, d)
			}
			return false
		})
	})
	r.Count("dispatch_cases", len(table))
	nGates := 0
	done := map[string]bool{}
	for _, d := range table {
		names := strings.Join(d.names, ",")
		inst := "C14/UNITARY:" + names
		pos := prog.Pos(d.pos)
		if d.none {
			ok := true
			for _, n := range d.names {
				if n != "zero" && n != "input" {
					ok = false
				}
			}
			if ok {
				r.OK("C14/DISPATCH", "C14/DISPATCH:"+names, pos, "documented non-gate operations are ignored")
			} else {
				r.Violation("C14/DISPATCH", "C14/DISPATCH:"+names, pos, fmt.Sprintf("operation(s) %s are accepted by MatrixFromOp but produce no matrix: the gate is silently dropped from the circuit", names))
			}
			continue
		}
		if strings.HasPrefix(d.ctor, "?") {
			r.Undecided("C14/UNITARY", inst, pos, "dispatch target "+d.ctor[1:]+" is not a bmmatrix constructor or a known wrapper")
			continue
		}
		g, why := ci.build(d.ctor, d.args, 0) // nil args are symbolic (the parsed angle)
		nGates++
		if why != "" {
			r.Undecided("C14/UNITARY", inst, pos, d.ctor+": "+why)
			continue
		}
		if g.n != 2 && g.n != 4 {
			r.Violation("C14/UNITARY", inst, prog.Pos(g.pos), fmt.Sprintf("gate %s is %dx%d; only 1- and 2-qubit base gates are composed by BmMatrixFromOperation", d.ctor, g.n, g.n))
			continue
		}
		defect := unitaryDefect(g)
		kind := "constant"
		if g.angle != "" {
			kind = "parametric in " + g.angle
		}
		if defect <= 1e-6 {
			r.OK("C14/UNITARY", inst, prog.Pos(g.pos), fmt.Sprintf("%s (%dx%d, %s): U·U† = I (max residual coefficient %.2g)", d.ctor, g.n, g.n, kind, defect))
		} else {
			r.Violation("C14/UNITARY", inst, prog.Pos(g.pos), fmt.Sprintf("base gate %s (%dx%d, %s) used for %s is not unitary: U·U† differs from I by %.4g (after reduction with cos²+sin²=1); every circuit containing it yields a non-unitary matrix", d.ctor, g.n, g.n, kind, names, defect))
		}
		done[d.ctor] = true
	}
	r.Count("gates_evaluated", nGates)
	var _ = sort.Strings
}
