package checks

import (
	"fmt"
	"go/ast"
	"go/token"
	"go/types"
	"sort"
	"strings"
)

// protoInterp is a small abstract interpreter over the AST of structured Go code
// that counts protocol events (sends / receives on designated channels) along
// every path. It is path-sensitive in boolean locals that are only ever assigned
// constants (`created`, `present`, `consistent` ...), which is what the repo's
// server loops use to pair a reply with a `panic` on the no-reply path.
//
// State = (counter, valuation of bool flags, trail). The trail lists the switch
// cases taken (and markers for fall-through shapes) and is part of the state's
// identity, so that two different no-reply paths are reported separately.

type pstate struct {
	n     int // counter, saturating at maxN
	flags map[types.Object]bool
	trail []string
}

const pMaxN = 3

func (s pstate) key() string {
	var fs []string
	for o, v := range s.flags {
		fs = append(fs, fmt.Sprintf("%s@%d=%v", o.Name(), o.Pos(), v))
	}
	sort.Strings(fs)
	return fmt.Sprintf("%d|%s|%s", s.n, strings.Join(fs, ","), strings.Join(s.trail, "/"))
}

func (s pstate) clone() pstate {
	n := pstate{n: s.n, flags: map[types.Object]bool{}, trail: append([]string{}, s.trail...)}
	for k, v := range s.flags {
		n.flags[k] = v
	}
	return n
}

// mark appends a trail element unless it is already there (trails stay finite around loops).
func (s *pstate) mark(m string) {
	for _, t := range s.trail {
		if t == m {
			return
		}
	}
	s.trail = append(s.trail, m)
}

type pset map[string]pstate

func (a pset) add(s pstate) bool {
	k := s.key()
	if _, ok := a[k]; ok {
		return false
	}
	a[k] = s
	return true
}
func (a pset) addAll(b pset) bool {
	ch := false
	for _, s := range b {
		if a.add(s) {
			ch = true
		}
	}
	return ch
}
func (a pset) sorted() []pstate {
	var ks []string
	for k := range a {
		ks = append(ks, k)
	}
	sort.Strings(ks)
	out := make([]pstate, 0, len(ks))
	for _, k := range ks {
		out = append(out, a[k])
	}
	return out
}

// pout is the outcome of executing statements.
type pout struct {
	normal pset
	brk    map[string]pset // label ("" = innermost)
	cont   map[string]pset
	ret    pset
}

func newPout() *pout {
	return &pout{normal: pset{}, brk: map[string]pset{}, cont: map[string]pset{}, ret: pset{}}
}
func addTo(m map[string]pset, label string, s pstate) {
	if m[label] == nil {
		m[label] = pset{}
	}
	m[label].add(s)
}
func (o *pout) merge(b *pout, includeNormal bool) {
	if includeNormal {
		o.normal.addAll(b.normal)
	}
	for l, ss := range b.brk {
		for _, s := range ss {
			addTo(o.brk, l, s)
		}
	}
	for l, ss := range b.cont {
		for _, s := range ss {
			addTo(o.cont, l, s)
		}
	}
	o.ret.addAll(b.ret)
}

// pevent is one protocol event met while evaluating a node.
type pevent struct {
	d        int       // +1 / -1 on the counter
	limit    int       // for d>0: error if the counter is already >= limit (0 = no limit)
	needZero bool      // no counter change; error unless the counter is 0 (e.g. a call that re-enters the protocol)
	pos      token.Pos
	what     string    // error text for limit / needZero
}

// pevent: +1 / -1 on the counter. A negative event on a zero counter and a
// positive event on a counter that is already at `limit` are protocol errors
// recorded by the client through onError.
type pinterp struct {
	info *types.Info
	// events returns the counter deltas caused by evaluating node n (a simple
	// statement or an expression), in evaluation order. Nested function literals
	// are not entered.
	events func(n ast.Node) []pevent
	// containsEvent reports whether the subtree can produce an event (used for trail markers).
	containsEvent func(n ast.Node) bool
	onError       func(pos token.Pos, s pstate, what string)
	undecided     func(pos token.Pos, what string)
	noReturn      func(call *ast.CallExpr) bool
	noFlags       bool // do not track boolean locals (path-insensitive)
	// dropReturn: returns that end the path without being an outcome of interest (e.g. error returns)
	dropReturn func(ret *ast.ReturnStmt) bool
	// exhaustive reports that a switch without default covers every value its tag can take.
	exhaustive func(sw *ast.SwitchStmt) bool
	steps         int
	loopDepth     int
}

const pMaxSteps = 400000

func (p *pinterp) apply(s pstate, n ast.Node) (pstate, bool) {
	if n == nil {
		return s, true
	}
	for _, ev := range p.events(n) {
		d := ev.d
		if ev.needZero {
			if s.n != 0 {
				p.onError(ev.pos, s, ev.what)
				return s, false
			}
			continue
		}
		if d > 0 {
			if ev.limit > 0 && s.n >= ev.limit {
				p.onError(ev.pos, s, ev.what)
				return s, false
			}
			if s.n < pMaxN {
				s.n++
			}
		} else {
			if s.n == 0 {
				p.onError(n.Pos(), s, "receive of an answer with no request outstanding")
				return s, false
			}
			s.n--
		}
	}
	return s, true
}

// evalCond evaluates a condition to true/false/unknown under the flags.
func (p *pinterp) evalCond(e ast.Expr, s pstate) (val bool, known bool) {
	switch x := ast.Unparen(e).(type) {
	case *ast.Ident:
		if x.Name == "true" || x.Name == "false" {
			if _, ok := p.info.Uses[x].(*types.Const); ok {
				return x.Name == "true", true
			}
		}
		if o := p.info.ObjectOf(x); o != nil {
			v, ok := s.flags[o]
			return v, ok
		}
	case *ast.UnaryExpr:
		if x.Op == token.NOT {
			v, k := p.evalCond(x.X, s)
			return !v, k
		}
	case *ast.BinaryExpr:
		switch x.Op {
		case token.LAND:
			a, ka := p.evalCond(x.X, s)
			b, kb := p.evalCond(x.Y, s)
			if (ka && !a) || (kb && !b) {
				return false, true
			}
			if ka && kb {
				return true, true
			}
		case token.LOR:
			a, ka := p.evalCond(x.X, s)
			b, kb := p.evalCond(x.Y, s)
			if (ka && a) || (kb && b) {
				return true, true
			}
			if ka && kb {
				return false, true
			}
		case token.EQL, token.NEQ:
			a, ka := p.evalCond(x.X, s)
			b, kb := p.evalCond(x.Y, s)
			if ka && kb {
				return (a == b) == (x.Op == token.EQL), true
			}
		}
	}
	return false, false
}

func (p *pinterp) assignFlags(s pstate, lhs []ast.Expr, rhs []ast.Expr) pstate {
	if p.noFlags {
		return s
	}
	for i, l := range lhs {
		id, ok := l.(*ast.Ident)
		if !ok || id.Name == "_" {
			continue
		}
		o := p.info.ObjectOf(id)
		if o == nil {
			continue
		}
		if b, ok := o.Type().Underlying().(*types.Basic); !ok || b.Kind() != types.Bool {
			continue
		}
		if len(lhs) == len(rhs) {
			if v, k := p.evalCond(rhs[i], s); k {
				s.flags[o] = v
				continue
			}
		}
		delete(s.flags, o)
	}
	return s
}

func (p *pinterp) block(stmts []ast.Stmt, in pset) *pout {
	out := newPout()
	cur := pset{}
	cur.addAll(in)
	for _, st := range stmts {
		if len(cur) == 0 {
			break
		}
		o := p.stmt(st, cur, "")
		out.merge(o, false)
		cur = o.normal
	}
	out.normal = cur
	return out
}

func (p *pinterp) stmt(st ast.Stmt, in pset, label string) *pout {
	out := newPout()
	p.steps += len(in)
	if p.steps > pMaxSteps {
		if p.steps < pMaxSteps+1000000000 {
			p.undecided(st.Pos(), "abstract interpretation exceeded its step budget")
			p.steps = pMaxSteps + 1000000000
		}
		return out
	}
	switch x := st.(type) {
	case nil:
		out.normal.addAll(in)
	case *ast.BlockStmt:
		return p.block(x.List, in)
	case *ast.LabeledStmt:
		return p.stmt(x.Stmt, in, x.Label.Name)
	case *ast.ExprStmt:
		if call, ok := x.X.(*ast.CallExpr); ok && p.noReturn(call) {
			// evaluate args for events, then the path ends
			return out
		}
		for _, s := range in {
			if ns, ok := p.apply(s.clone(), x); ok {
				out.normal.add(ns)
			}
		}
	case *ast.SendStmt, *ast.IncDecStmt, *ast.DeclStmt, *ast.GoStmt, *ast.DeferStmt, *ast.EmptyStmt:
		for _, s := range in {
			ns, ok := p.apply(s.clone(), x)
			if !ok {
				continue
			}
			if ds, isDecl := x.(*ast.DeclStmt); isDecl {
				if gd, ok := ds.Decl.(*ast.GenDecl); ok {
					for _, sp := range gd.Specs {
						if vs, ok := sp.(*ast.ValueSpec); ok {
							for i, nm := range vs.Names {
								o := p.info.ObjectOf(nm)
								if o == nil {
									continue
								}
								if b, ok := o.Type().Underlying().(*types.Basic); ok && b.Kind() == types.Bool && !p.noFlags {
									if i < len(vs.Values) {
										if v, k := p.evalCond(vs.Values[i], ns); k {
											ns.flags[o] = v
										}
									} else {
										ns.flags[o] = false
									}
								}
							}
						}
					}
				}
			}
			out.normal.add(ns)
		}
	case *ast.AssignStmt:
		for _, s := range in {
			ns, ok := p.apply(s.clone(), x)
			if !ok {
				continue
			}
			if x.Tok == token.ASSIGN || x.Tok == token.DEFINE {
				ns = p.assignFlags(ns, x.Lhs, x.Rhs)
			}
			out.normal.add(ns)
		}
	case *ast.ReturnStmt:
		if p.dropReturn != nil && p.dropReturn(x) {
			return out
		}
		for _, s := range in {
			if ns, ok := p.apply(s.clone(), x); ok {
				out.ret.add(ns)
			}
		}
	case *ast.BranchStmt:
		l := ""
		if x.Label != nil {
			l = x.Label.Name
		}
		for _, s := range in {
			switch x.Tok {
			case token.BREAK:
				addTo(out.brk, l, s)
			case token.CONTINUE:
				addTo(out.cont, l, s)
			default:
				p.undecided(x.Pos(), "goto/fallthrough is outside the interpreted fragment")
			}
		}
	case *ast.IfStmt:
		pre := pset{}
		if x.Init != nil {
			o := p.stmt(x.Init, in, "")
			out.merge(o, false)
			pre = o.normal
		} else {
			pre.addAll(in)
		}
		thenIn, elseIn := pset{}, pset{}
		for _, s := range pre {
			ns, ok := p.apply(s.clone(), x.Cond)
			if !ok {
				continue
			}
			v, k := p.evalCond(x.Cond, ns)
			if !k || v {
				thenIn.add(ns.clone())
			}
			if !k || !v {
				elseIn.add(ns.clone())
			}
		}
		to := p.block(x.Body.List, thenIn)
		out.merge(to, true)
		if x.Else != nil {
			eo := p.stmt(x.Else, elseIn, "")
			out.merge(eo, true)
		} else {
			marker := p.loopDepth == 0 && p.containsEvent(x)
			for _, s := range elseIn {
				if marker {
					s = s.clone()
					s.mark("noelse")
				}
				out.normal.add(s)
			}
		}
	case *ast.SwitchStmt, *ast.TypeSwitchStmt:
		var init ast.Stmt
		var tag ast.Node
		var body *ast.BlockStmt
		if sw, ok := x.(*ast.SwitchStmt); ok {
			init, body = sw.Init, sw.Body
			if sw.Tag != nil {
				tag = sw.Tag
			}
		} else {
			ts := x.(*ast.TypeSwitchStmt)
			init, body = ts.Init, ts.Body
			tag = ts.Assign
		}
		pre := pset{}
		if init != nil {
			o := p.stmt(init, in, "")
			out.merge(o, false)
			pre = o.normal
		} else {
			pre.addAll(in)
		}
		pre2 := pset{}
		for _, s := range pre {
			if ns, ok := p.apply(s.clone(), tag); ok {
				pre2.add(ns)
			}
		}
		hasDefault := false
		marker := p.containsEvent(body)
		inner := newPout()
		for _, c := range body.List {
			cc := c.(*ast.CaseClause)
			name := "default"
			if len(cc.List) == 0 {
				hasDefault = true
			} else {
				var parts []string
				for _, e := range cc.List {
					parts = append(parts, types.ExprString(e))
				}
				name = strings.Join(parts, ",")
			}
			cin := pset{}
			for _, s := range pre2 {
				ns := s.clone()
				if marker {
					ns.mark(name)
				}
				cin.add(ns)
			}
			co := p.block(cc.Body, cin)
			inner.merge(co, true)
		}
		if sw, ok := x.(*ast.SwitchStmt); ok && !hasDefault && p.exhaustive != nil && p.exhaustive(sw) {
			hasDefault = true
		}
		if !hasDefault {
			for _, s := range pre2 {
				ns := s.clone()
				if marker {
					ns.mark("nocase")
				}
				inner.normal.add(ns)
			}
		}
		// an unlabeled break (or one naming this statement's label) leaves the switch
		out.normal.addAll(inner.normal)
		for l, ss := range inner.brk {
			if l == "" || (label != "" && l == label) {
				out.normal.addAll(ss)
			} else {
				for _, s := range ss {
					addTo(out.brk, l, s)
				}
			}
		}
		for l, ss := range inner.cont {
			for _, s := range ss {
				addTo(out.cont, l, s)
			}
		}
		out.ret.addAll(inner.ret)
	case *ast.SelectStmt:
		inner := newPout()
		for _, c := range x.Body.List {
			cc := c.(*ast.CommClause)
			cin := pset{}
			for _, s := range in {
				ns := s.clone()
				ok := true
				if cc.Comm != nil {
					ns, ok = p.apply(ns, cc.Comm)
				}
				if ok {
					cin.add(ns)
				}
			}
			co := p.block(cc.Body, cin)
			inner.merge(co, true)
		}
		out.normal.addAll(inner.normal)
		for l, ss := range inner.brk {
			if l == "" || (label != "" && l == label) {
				out.normal.addAll(ss)
			} else {
				for _, s := range ss {
					addTo(out.brk, l, s)
				}
			}
		}
		for l, ss := range inner.cont {
			for _, s := range ss {
				addTo(out.cont, l, s)
			}
		}
		out.ret.addAll(inner.ret)
	case *ast.ForStmt, *ast.RangeStmt:
		var init, post ast.Stmt
		var cond ast.Expr
		var body *ast.BlockStmt
		var hdr ast.Node
		if f, ok := x.(*ast.ForStmt); ok {
			init, post, cond, body = f.Init, f.Post, f.Cond, f.Body
		} else {
			rs := x.(*ast.RangeStmt)
			body = rs.Body
			hdr = rs.X
		}
		pre := pset{}
		if init != nil {
			o := p.stmt(init, in, "")
			out.merge(o, false)
			pre = o.normal
		} else {
			pre.addAll(in)
		}
		if hdr != nil {
			pre2 := pset{}
			for _, s := range pre {
				if ns, ok := p.apply(s.clone(), hdr); ok {
					pre2.add(ns)
				}
			}
			pre = pre2
		}
		marker := p.loopDepth == 0 && p.containsEvent(body)
		p.loopDepth++
		defer func() { p.loopDepth-- }()
		head := pset{}
		head.addAll(pre)
		work := pset{}
		work.addAll(pre)
		for len(work) > 0 {
			// evaluate the loop condition on the new head states
			enter := pset{}
			for _, s := range work {
				ns := s.clone()
				ok := true
				if cond != nil {
					ns, ok = p.apply(ns, cond)
				}
				if !ok {
					continue
				}
				isRange := hdr != nil
				v, k := false, false
				if cond != nil {
					v, k = p.evalCond(cond, ns)
				}
				infinite := cond == nil && !isRange
				if infinite || !k || v {
					enter.add(ns.clone())
				}
				if !infinite && (!k || !v) {
					ex := ns.clone()
					if marker {
						ex.mark("exhausted")
					}
					out.normal.add(ex)
				}
			}
			bo := p.block(body.List, enter)
			out.ret.addAll(bo.ret)
			next := pset{}
			next.addAll(bo.normal)
			for l, ss := range bo.cont {
				if l == "" || (label != "" && l == label) {
					next.addAll(ss)
				} else {
					for _, s := range ss {
						addTo(out.cont, l, s)
					}
				}
			}
			for l, ss := range bo.brk {
				if l == "" || (label != "" && l == label) {
					out.normal.addAll(ss)
				} else {
					for _, s := range ss {
						addTo(out.brk, l, s)
					}
				}
			}
			if post != nil {
				po := p.stmt(post, next, "")
				next = po.normal
			}
			work = pset{}
			for _, s := range next {
				// "exhausted" markers must not accumulate around the back edge
				if head.add(s) {
					work.add(s)
				}
			}
		}
	default:
		p.undecided(st.Pos(), fmt.Sprintf("statement %T is outside the interpreted fragment", st))
		out.normal.addAll(in)
	}
	return out
}
