#!/bin/bash
# Runs the repository's pinned test suite (guard OFF: no build tag) and checks that every
# test listed as stable_pass in /root/.vp/BASELINE.json passes. Usage: baseline.sh [repo-dir]
REPO=${1:-/repo}
export GOFLAGS=-mod=mod GOPROXY=off GOSUMDB=off GOTOOLCHAIN=local
unset GOWORK
OUT=$(mktemp)
(cd "$REPO" && go test -mod=mod -json -vet=off -count=1 -timeout 25m ./... 2>/dev/null) > "$OUT"
python3 - "$OUT" <<'PY'
import json,sys
base=json.load(open('/root/.vp/BASELINE.json'))
want=set(base['stable_pass'])
res={}
for l in open(sys.argv[1]):
    try: e=json.loads(l)
    except Exception: continue
    if e.get('Test') and e.get('Action') in ('pass','fail','skip'):
        res[e['Package']+'::'+e['Test']]=e['Action']
missing=[t for t in sorted(want) if res.get(t)!='pass']
print(f"baseline: {len(want)-len(missing)}/{len(want)} stable tests pass")
for t in missing: print("NOT PASSING:",t,res.get(t))
sys.exit(1 if missing else 0)
PY
rc=$?
rm -f "$OUT"
exit $rc
