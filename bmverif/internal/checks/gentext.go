package checks

// GENTEXT (E2 of DESIGN.md, the part with structure): a fragment tree of what a string-building HDL
// generator appends to its accumulator, with the Go control structure kept — Alt for if/switch with the
// branch condition, Loop for counted loops (start, bound, first/last-iteration tests recognised), Range
// for every other loop, Call for calls of sibling generators. Conditions are boolean formulas over
// (i) the execution mode (`X.Modes[0] == "ha"`), (ii) integer locals that are only ever assigned
// constants (their value is resolved from the assignments' own path conditions), (iii) first/last tests
// on the counter of an enclosing counted loop, (iv) opaque atoms keyed by the expression with fields
// named by their declaration (so `proc.Threaded > 0` and `arch.Threaded > 0` are one atom).
// Clients: C18/DECLCOND and C18/LISTCLOSE (c18decl.go).

import (
	"fmt"
	"go/ast"
	"go/constant"
	"go/token"
	"go/types"
	"sort"
	"strings"
)

type gtNode interface{}
type gtLit struct {
	text string
	pos  token.Pos
}
type gtSeq struct{ items []gtNode }
type gtAlt struct {
	c         gtCond
	then, els gtNode
	pos       token.Pos
}
type gtLoop struct {
	iv      types.Object
	start   string // normalised start expression
	bound   string // normalised bound expression (i < bound)
	tripMin int    // proven lower bound of the trip count (0 if unknown)
	body    gtNode
	pos     token.Pos
}
type gtRange struct {
	body gtNode
	pos  token.Pos
}
type gtCall struct {
	fn  *types.Func
	pos token.Pos
}

type gtCond interface{}
type gcTrue struct{}
type gcAtom struct{ key string }
type gcNot struct{ c gtCond }
type gcAnd struct{ a, b gtCond }
type gcOr struct{ a, b gtCond }
type gcMode struct{ val string }
type gcLocal struct {
	obj types.Object
	op  token.Token
	k   int64
}
type gcIter struct {
	iv   types.Object
	last bool // false: first-iteration test, true: last-iteration test
}

// gcTrip: a test on the trip count of an enclosing loop that starts at 0 (`len(xs) == 1` inside `for i := range xs`)
type gcTrip struct {
	iv types.Object
	op token.Token
	k  int64
}

type gtAssign struct {
	val  int64
	cond gtCond
	pos  token.Pos
}

type gtFunc struct {
	info    *types.Info
	fd      *ast.FuncDecl
	acc     types.Object
	tree    gtNode
	consts  map[types.Object]bool       // integer locals assigned constants only
	assigns map[types.Object][]gtAssign // in source order
	temps   map[types.Object]string
	callTmp map[types.Object]*types.Func // locals holding the text returned by a sibling generator
	loops   []*gtLoop                    // enclosing counted loops while building
}

func gtAnd(a, b gtCond) gtCond {
	if _, ok := a.(gcTrue); ok {
		return b
	}
	if _, ok := b.(gcTrue); ok {
		return a
	}
	return gcAnd{a, b}
}

// gtAccumulator: the string variable with the most `+=` in the body (as c18Modules does).
func gtAccumulator(info *types.Info, body *ast.BlockStmt) types.Object {
	counts := map[types.Object]int{}
	ast.Inspect(body, func(m ast.Node) bool {
		if as, ok := m.(*ast.AssignStmt); ok && len(as.Lhs) == 1 && as.Tok == token.ADD_ASSIGN {
			if id, ok := as.Lhs[0].(*ast.Ident); ok {
				if o := info.ObjectOf(id); o != nil {
					if b, ok := o.Type().Underlying().(*types.Basic); ok && b.Info()&types.IsString != 0 {
						counts[o]++
					}
				}
			}
		}
		return true
	})
	var acc types.Object
	for o, n := range counts {
		if acc == nil || n > counts[acc] || (n == counts[acc] && o.Pos() < acc.Pos()) {
			acc = o
		}
	}
	return acc
}

func gtBuild(info *types.Info, fd *ast.FuncDecl) *gtFunc {
	if fd.Body == nil {
		return nil
	}
	f := &gtFunc{info: info, fd: fd, consts: map[types.Object]bool{}, assigns: map[types.Object][]gtAssign{}}
	f.acc = gtAccumulator(info, fd.Body)
	f.temps = localTemporaries(info, fd.Body, f.acc)
	// a temporary that is (also) assigned under a condition or in a loop would be inlined without that
	// condition: it stays a hole
	top := map[ast.Stmt]bool{}
	for _, s := range fd.Body.List {
		top[s] = true
	}
	ast.Inspect(fd.Body, func(m ast.Node) bool {
		if as, ok := m.(*ast.AssignStmt); ok && !top[as] {
			for _, l := range as.Lhs {
				if id, ok := l.(*ast.Ident); ok {
					delete(f.temps, info.ObjectOf(id))
				}
			}
		}
		return true
	})
	// integer locals assigned constants only
	nonConst := map[types.Object]bool{}
	seen := map[types.Object]bool{}
	ast.Inspect(fd.Body, func(m ast.Node) bool {
		switch s := m.(type) {
		case *ast.AssignStmt:
			for i, l := range s.Lhs {
				id, ok := l.(*ast.Ident)
				if !ok {
					continue
				}
				o := info.ObjectOf(id)
				if o == nil || !isIntObj(o) {
					continue
				}
				seen[o] = true
				if len(s.Lhs) != len(s.Rhs) || (s.Tok != token.ASSIGN && s.Tok != token.DEFINE) {
					nonConst[o] = true
					continue
				}
				if _, ok := gtConstInt(info, s.Rhs[i]); !ok {
					nonConst[o] = true
				}
			}
		case *ast.IncDecStmt:
			if id, ok := s.X.(*ast.Ident); ok {
				if o := info.ObjectOf(id); o != nil {
					nonConst[o] = true
				}
			}
		case *ast.RangeStmt:
			for _, e := range []ast.Expr{s.Key, s.Value} {
				if id, ok := e.(*ast.Ident); ok {
					if o := info.ObjectOf(id); o != nil {
						nonConst[o] = true
					}
				}
			}
		case *ast.UnaryExpr:
			if s.Op == token.AND {
				if id, ok := s.X.(*ast.Ident); ok {
					if o := info.ObjectOf(id); o != nil {
						nonConst[o] = true
					}
				}
			}
		}
		return true
	})
	for o := range seen {
		if !nonConst[o] {
			f.consts[o] = true
		}
	}
	// locals assigned once from a sibling generator: text, name, n := proc.threadDeclarations(…)
	f.callTmp = map[types.Object]*types.Func{}
	ast.Inspect(fd.Body, func(m ast.Node) bool {
		as, ok := m.(*ast.AssignStmt)
		if !ok || len(as.Rhs) != 1 || len(as.Lhs) == 0 {
			return true
		}
		call, ok := ast.Unparen(as.Rhs[0]).(*ast.CallExpr)
		if !ok {
			return true
		}
		fn, ok := core_CalleeFunc(info, call)
		if !ok || fn.Pkg() == nil || fn.Pkg() != info.ObjectOf(fd.Name).Pkg() || gtNameFunc(fn) {
			return true
		}
		sig, ok := fn.Type().(*types.Signature)
		if !ok || sig.Results().Len() == 0 {
			return true
		}
		if b, ok := sig.Results().At(0).Type().Underlying().(*types.Basic); !ok || b.Info()&types.IsString == 0 {
			return true
		}
		if id, ok := as.Lhs[0].(*ast.Ident); ok {
			if o := info.ObjectOf(id); o != nil && o != f.acc && f.singleDef(o) != nil || (o != nil && o != f.acc && len(as.Lhs) > 1 && as.Tok == token.DEFINE) {
				f.callTmp[o] = fn
				delete(f.temps, o)
			}
		}
		return true
	})
	f.tree = f.block(fd.Body.List, gcTrue{})
	return f
}

func isIntObj(o types.Object) bool {
	b, ok := o.Type().Underlying().(*types.Basic)
	return ok && (b.Info()&types.IsInteger != 0 || b.Info()&types.IsBoolean != 0)
}

func isBoolObj(o types.Object) bool {
	b, ok := o.Type().Underlying().(*types.Basic)
	return ok && b.Info()&types.IsBoolean != 0
}

func gtConstInt(info *types.Info, e ast.Expr) (int64, bool) {
	tv, ok := info.Types[e]
	if !ok || tv.Value == nil {
		return 0, false
	}
	if tv.Value.Kind() == constant.Bool {
		if constant.BoolVal(tv.Value) {
			return 1, true
		}
		return 0, true
	}
	v := constant.ToInt(tv.Value)
	if v.Kind() != constant.Int {
		return 0, false
	}
	n, ok := constant.Int64Val(v)
	return n, ok
}

func endsInReturn(stmts []ast.Stmt) bool {
	if len(stmts) == 0 {
		return false
	}
	switch s := stmts[len(stmts)-1].(type) {
	case *ast.ReturnStmt:
		return true
	case *ast.BlockStmt:
		return endsInReturn(s.List)
	}
	return false
}

// block renders a statement list executed under path condition pc.
func (f *gtFunc) block(stmts []ast.Stmt, pc gtCond) gtNode {
	seq := &gtSeq{}
	for idx, s := range stmts {
		switch s := s.(type) {
		case *ast.AssignStmt:
			f.assign(s, pc, seq)
		case *ast.DeclStmt:
			// var x int = 3 / var x string
			if gd, ok := s.Decl.(*ast.GenDecl); ok {
				for _, sp := range gd.Specs {
					if vs, ok := sp.(*ast.ValueSpec); ok {
						for i, n := range vs.Names {
							o := f.info.ObjectOf(n)
							if o != nil && f.consts[o] && i < len(vs.Values) {
								if v, ok := gtConstInt(f.info, vs.Values[i]); ok {
									f.assigns[o] = append(f.assigns[o], gtAssign{v, pc, n.Pos()})
								}
							} else if o != nil && isIntObj(o) && len(vs.Values) == 0 {
								f.assigns[o] = append(f.assigns[o], gtAssign{0, pc, n.Pos()})
							}
						}
					}
				}
			}
		case *ast.BlockStmt:
			seq.items = append(seq.items, f.block(s.List, pc))
		case *ast.IfStmt:
			if s.Init != nil {
				if as, ok := s.Init.(*ast.AssignStmt); ok {
					f.assign(as, pc, seq)
				}
			}
			c := f.cond(s.Cond)
			thenN := f.block(s.Body.List, gtAnd(pc, c))
			var elsStmts []ast.Stmt
			switch e := s.Else.(type) {
			case *ast.BlockStmt:
				elsStmts = e.List
			case *ast.IfStmt:
				elsStmts = []ast.Stmt{e}
			}
			thenRet, elsRet := endsInReturn(s.Body.List), s.Else != nil && endsInReturn(elsStmts)
			if thenRet && !elsRet {
				// guard clause: the rest of the block is emitted under !c
				rest := append(append([]ast.Stmt{}, elsStmts...), stmts[idx+1:]...)
				seq.items = append(seq.items, &gtAlt{c: c, then: thenN, els: f.block(rest, gtAnd(pc, gcNot{c})), pos: s.Pos()})
				return seq
			}
			if elsRet && !thenRet {
				rest := append(append([]ast.Stmt{}, s.Body.List...), stmts[idx+1:]...)
				seq.items = append(seq.items, &gtAlt{c: c, then: f.block(rest, gtAnd(pc, c)), els: f.block(elsStmts, gtAnd(pc, gcNot{c})), pos: s.Pos()})
				return seq
			}
			elsN := f.block(elsStmts, gtAnd(pc, gcNot{c}))
			seq.items = append(seq.items, &gtAlt{c: c, then: thenN, els: elsN, pos: s.Pos()})
			if thenRet && elsRet {
				return seq
			}
		case *ast.SwitchStmt:
			if s.Init != nil {
				if as, ok := s.Init.(*ast.AssignStmt); ok {
					f.assign(as, pc, seq)
				}
			}
			var prior gtCond = gcTrue{} // conjunction of the negations of the earlier clauses
			var def *ast.CaseClause
			var chain []*gtAlt
			for _, cl := range s.Body.List {
				cc := cl.(*ast.CaseClause)
				if cc.List == nil {
					def = cc
					continue
				}
				var c gtCond
				for _, v := range cc.List {
					var one gtCond
					if s.Tag != nil {
						one = f.cond(&ast.BinaryExpr{X: s.Tag, Op: token.EQL, Y: v})
					} else {
						one = f.cond(v)
					}
					if c == nil {
						c = one
					} else {
						c = gcOr{c, one}
					}
				}
				eff := gtAnd(prior, c)
				chain = append(chain, &gtAlt{c: eff, then: f.block(cc.Body, gtAnd(pc, eff)), els: &gtSeq{}, pos: cc.Pos()})
				prior = gtAnd(prior, gcNot{c})
			}
			if def != nil {
				chain = append(chain, &gtAlt{c: prior, then: f.block(def.Body, gtAnd(pc, prior)), els: &gtSeq{}, pos: def.Pos()})
			}
			for _, a := range chain {
				seq.items = append(seq.items, a)
			}
		case *ast.ForStmt:
			seq.items = append(seq.items, f.forLoop(s, pc))
		case *ast.RangeStmt:
			// for i := range n (integer): a counted loop from 0
			if t := f.info.TypeOf(s.X); t != nil && s.Key != nil && s.Value == nil {
				if b, ok := t.Underlying().(*types.Basic); ok && b.Info()&types.IsInteger != 0 {
					if id, ok := s.Key.(*ast.Ident); ok {
						lp := &gtLoop{iv: f.info.ObjectOf(id), start: "0", bound: f.norm(s.X), pos: s.Pos()}
						f.loops = append(f.loops, lp)
						lp.body = f.block(s.Body.List, pc)
						f.loops = f.loops[:len(f.loops)-1]
						seq.items = append(seq.items, lp)
						continue
					}
				}
			}
			// for i, x := range xs: counted from 0 to len(xs)
			if id, ok := s.Key.(*ast.Ident); ok && id.Name != "_" {
				if t := f.info.TypeOf(s.X); t != nil {
					if _, isSlice := t.Underlying().(*types.Slice); isSlice {
						lp := &gtLoop{iv: f.info.ObjectOf(id), start: "0", bound: "len(" + f.norm(s.X) + ")", pos: s.Pos()}
						f.loops = append(f.loops, lp)
						lp.body = f.block(s.Body.List, pc)
						f.loops = f.loops[:len(f.loops)-1]
						seq.items = append(seq.items, lp)
						continue
					}
				}
			}
			seq.items = append(seq.items, &gtRange{body: f.block(s.Body.List, pc), pos: s.Pos()})
		case *ast.ReturnStmt:
			for _, res := range s.Results {
				if id, ok := ast.Unparen(res).(*ast.Ident); ok && f.info.ObjectOf(id) == f.acc {
					continue
				}
				if t := f.info.TypeOf(res); t != nil {
					if b, ok := t.Underlying().(*types.Basic); ok && b.Info()&types.IsString != 0 {
						f.pieces(res, seq, s.Pos(), true)
					}
				}
			}
			return seq
		case *ast.LabeledStmt:
			seq.items = append(seq.items, f.block([]ast.Stmt{s.Stmt}, pc))
		}
	}
	return seq
}

func (f *gtFunc) forLoop(s *ast.ForStmt, pc gtCond) gtNode {
	// for i := a; i < B; i++
	if as, ok := s.Init.(*ast.AssignStmt); ok && len(as.Lhs) == 1 && len(as.Rhs) == 1 && as.Tok == token.DEFINE {
		if id, ok := as.Lhs[0].(*ast.Ident); ok {
			if be, ok := s.Cond.(*ast.BinaryExpr); ok && be.Op == token.LSS {
				if cid, ok := ast.Unparen(be.X).(*ast.Ident); ok && cid.Name == id.Name {
					if inc, ok := s.Post.(*ast.IncDecStmt); ok && inc.Tok == token.INC {
						lp := &gtLoop{iv: f.info.ObjectOf(id), start: f.norm(as.Rhs[0]), bound: f.norm(be.Y), pos: s.Pos()}
						lp.tripMin = f.tripMin(as.Rhs[0], be.Y)
						f.loops = append(f.loops, lp)
						lp.body = f.block(s.Body.List, pc)
						f.loops = f.loops[:len(f.loops)-1]
						return lp
					}
				}
			}
		}
	}
	return &gtRange{body: f.block(s.Body.List, pc), pos: s.Pos()}
}

// tripMin: a proven lower bound of (bound - start): `1 << x` (directly or through a local assigned
// exactly once with it) is at least 1.
func (f *gtFunc) tripMin(start, bound ast.Expr) int {
	st, ok := gtConstInt(f.info, start)
	if !ok {
		return 0
	}
	if bv, ok := gtConstInt(f.info, bound); ok {
		if bv-st > 0 {
			return int(bv - st)
		}
		return 0
	}
	atLeast := int64(0)
	e := ast.Unparen(bound)
	if id, ok := e.(*ast.Ident); ok {
		if def := f.singleDef(f.info.ObjectOf(id)); def != nil {
			e = ast.Unparen(def)
		}
	}
	if be, ok := e.(*ast.BinaryExpr); ok && be.Op == token.SHL {
		if v, ok := gtConstInt(f.info, be.X); ok && v >= 1 {
			atLeast = v
		}
	}
	if atLeast-st > 0 {
		return int(atLeast - st)
	}
	return 0
}

// singleDef: the defining expression of a local that is assigned exactly once in the function.
func (f *gtFunc) singleDef(o types.Object) ast.Expr {
	if o == nil {
		return nil
	}
	var def ast.Expr
	n := 0
	ast.Inspect(f.fd.Body, func(m ast.Node) bool {
		switch s := m.(type) {
		case *ast.AssignStmt:
			for i, l := range s.Lhs {
				if id, ok := l.(*ast.Ident); ok && f.info.ObjectOf(id) == o {
					n++
					if len(s.Lhs) == len(s.Rhs) {
						def = s.Rhs[i]
					} else {
						n++
					}
				}
			}
		case *ast.IncDecStmt:
			if id, ok := s.X.(*ast.Ident); ok && f.info.ObjectOf(id) == o {
				n += 2
			}
		}
		return true
	})
	if n == 1 {
		return def
	}
	return nil
}

func (f *gtFunc) assign(s *ast.AssignStmt, pc gtCond, seq *gtSeq) {
	// constant integer locals
	if len(s.Lhs) == len(s.Rhs) {
		for i, l := range s.Lhs {
			if id, ok := l.(*ast.Ident); ok {
				if o := f.info.ObjectOf(id); o != nil && f.consts[o] {
					if v, ok := gtConstInt(f.info, s.Rhs[i]); ok {
						f.assigns[o] = append(f.assigns[o], gtAssign{v, pc, s.Pos()})
					}
				}
			}
		}
	}
	if len(s.Lhs) != 1 || len(s.Rhs) != 1 || f.acc == nil {
		return
	}
	id, ok := s.Lhs[0].(*ast.Ident)
	if !ok || f.info.ObjectOf(id) != f.acc {
		return
	}
	switch s.Tok {
	case token.ADD_ASSIGN:
		f.pieces(s.Rhs[0], seq, s.Pos(), false)
	case token.ASSIGN, token.DEFINE:
		f.pieces(s.Rhs[0], seq, s.Pos(), true)
	}
}

// pieces appends the rendering of a concatenation: literal text (holes for what is not literal, local
// string temporaries inlined) and Call nodes for sibling generators.
func (f *gtFunc) pieces(e ast.Expr, seq *gtSeq, pos token.Pos, skipAcc bool) {
	var leaves []ast.Expr
	flattenAdd(e, &leaves)
	var sb strings.Builder
	flush := func() {
		if sb.Len() > 0 {
			seq.items = append(seq.items, &gtLit{text: sb.String(), pos: pos})
			sb.Reset()
		}
	}
	for _, l := range leaves {
		if id, ok := ast.Unparen(l).(*ast.Ident); ok && f.info.ObjectOf(id) == f.acc {
			continue
		}
		if s, ok := constStr(f.info, l); ok {
			sb.WriteString(s)
			continue
		}
		if id, ok := ast.Unparen(l).(*ast.Ident); ok {
			if fn, ok := f.callTmp[f.info.ObjectOf(id)]; ok {
				flush()
				seq.items = append(seq.items, &gtCall{fn: fn, pos: id.Pos()})
				continue
			}
			if t, ok := f.temps[f.info.ObjectOf(id)]; ok {
				sb.WriteString(t)
				continue
			}
		}
		if call, ok := ast.Unparen(l).(*ast.CallExpr); ok {
			if fn, ok := core_CalleeFunc(f.info, call); ok && fn.Pkg() != nil && fn.Pkg() == f.info.ObjectOf(f.fd.Name).Pkg() {
				if sig, ok := fn.Type().(*types.Signature); ok && sig.Results().Len() == 1 {
					if b, ok := sig.Results().At(0).Type().Underlying().(*types.Basic); ok && b.Info()&types.IsString != 0 && !gtNameFunc(fn) {
						flush()
						seq.items = append(seq.items, &gtCall{fn: fn, pos: call.Pos()})
						continue
					}
				}
			}
		}
		sb.WriteString(hole)
	}
	flush()
}

// gtNameFunc: small helpers that spell a name or a number (part of an identifier), not a generator.
func gtNameFunc(fn *types.Func) bool {
	switch fn.Name() {
	case "Get_register_name", "Get_input_name", "Get_output_name", "zeros_prefix", "zeros_suffix", "get_binary", "Op_get_name", "Op_get_desc", "Shr_get_name", "Shortname":
		return true
	}
	return false
}

func core_CalleeFunc(info *types.Info, call *ast.CallExpr) (*types.Func, bool) {
	var id *ast.Ident
	switch fun := ast.Unparen(call.Fun).(type) {
	case *ast.Ident:
		id = fun
	case *ast.SelectorExpr:
		id = fun.Sel
	}
	if id == nil {
		return nil, false
	}
	fn, ok := info.ObjectOf(id).(*types.Func)
	return fn, ok
}

// norm prints an expression with fields named by their declaration and conversions dropped.
func (f *gtFunc) norm(e ast.Expr) string {
	switch x := ast.Unparen(e).(type) {
	case *ast.BasicLit:
		return x.Value
	case *ast.Ident:
		o := f.info.ObjectOf(x)
		if o == nil {
			return x.Name
		}
		if _, ok := o.(*types.Const); ok {
			if tv, ok := f.info.Types[x]; ok && tv.Value != nil {
				return tv.Value.ExactString()
			}
		}
		if v, ok := o.(*types.Var); ok && !v.IsField() && o.Parent() != nil && o.Parent() != o.Pkg().Scope() {
			return x.Name + "@" + f.fd.Name.Name
		}
		return x.Name
	case *ast.SelectorExpr:
		if sel, ok := f.info.Selections[x]; ok && sel.Kind() == types.FieldVal {
			v := sel.Obj().(*types.Var)
			return "field:" + v.Name() + "#" + fmt.Sprint(int(v.Pos()))
		}
		return f.norm(x.X) + "." + x.Sel.Name
	case *ast.CallExpr:
		if tv, ok := f.info.Types[x.Fun]; ok && tv.IsType() && len(x.Args) == 1 {
			return f.norm(x.Args[0]) // conversion
		}
		var args []string
		for _, a := range x.Args {
			args = append(args, f.norm(a))
		}
		return f.norm(x.Fun) + "(" + strings.Join(args, ",") + ")"
	case *ast.BinaryExpr:
		return "(" + f.norm(x.X) + x.Op.String() + f.norm(x.Y) + ")"
	case *ast.UnaryExpr:
		return x.Op.String() + f.norm(x.X)
	case *ast.IndexExpr:
		return f.norm(x.X) + "[" + f.norm(x.Index) + "]"
	case *ast.StarExpr:
		return f.norm(x.X)
	}
	return types.ExprString(e)
}

func (f *gtFunc) isModeExpr(e ast.Expr) bool {
	if id, ok := ast.Unparen(e).(*ast.Ident); ok {
		// mode := arch.Modes[0]
		if def := f.singleDef(f.info.ObjectOf(id)); def != nil {
			if _, again := ast.Unparen(def).(*ast.Ident); !again {
				return f.isModeExpr(def)
			}
		}
		return false
	}
	ix, ok := ast.Unparen(e).(*ast.IndexExpr)
	if !ok {
		return false
	}
	if v, ok := gtConstInt(f.info, ix.Index); !ok || v != 0 {
		return false
	}
	fld := core_FieldOf(f.info, ix.X)
	return fld != nil && fld.Name() == "Modes"
}

func core_FieldOf(info *types.Info, e ast.Expr) *types.Var {
	if se, ok := ast.Unparen(e).(*ast.SelectorExpr); ok {
		if sel, ok := info.Selections[se]; ok && sel.Kind() == types.FieldVal {
			return sel.Obj().(*types.Var)
		}
	}
	return nil
}

func (f *gtFunc) cond(e ast.Expr) gtCond {
	if id, ok := ast.Unparen(e).(*ast.Ident); ok {
		if o := f.info.ObjectOf(id); o != nil && f.consts[o] && isBoolObj(o) {
			return gcLocal{o, token.NEQ, 0}
		}
	}
	switch x := ast.Unparen(e).(type) {
	case *ast.UnaryExpr:
		if x.Op == token.NOT {
			return gcNot{f.cond(x.X)}
		}
	case *ast.BinaryExpr:
		switch x.Op {
		case token.LAND:
			return gcAnd{f.cond(x.X), f.cond(x.Y)}
		case token.LOR:
			return gcOr{f.cond(x.X), f.cond(x.Y)}
		case token.EQL, token.NEQ, token.LSS, token.GTR, token.LEQ, token.GEQ:
			l, r, op := x.X, x.Y, x.Op
			// mode tests
			if op == token.EQL || op == token.NEQ {
				for k := 0; k < 2; k++ {
					if f.isModeExpr(l) {
						if sv, ok := constStr(f.info, r); ok {
							if op == token.EQL {
								return gcMode{sv}
							}
							return gcNot{gcMode{sv}}
						}
					}
					l, r = r, l
				}
			}
			// constant-assigned integer local against a constant; first/last tests on a loop counter;
			// tests on the trip count of an enclosing loop
			for k := 0; k < 2; k++ {
				if id, ok := ast.Unparen(l).(*ast.Ident); ok {
					o := f.info.ObjectOf(id)
					if kv, ok := gtConstInt(f.info, r); ok && o != nil && f.consts[o] {
						return gcLocal{o, op, kv}
					}
					if o != nil {
						for i := len(f.loops) - 1; i >= 0; i-- {
							lp := f.loops[i]
							if lp.iv != o {
								continue
							}
							rn := f.norm(r)
							if rn == lp.start {
								switch op {
								case token.EQL, token.LEQ:
									return gcIter{o, false}
								case token.NEQ, token.GTR:
									return gcNot{gcIter{o, false}}
								}
							}
							if rn == "("+lp.bound+"-1)" {
								switch op {
								case token.EQL, token.GEQ:
									return gcIter{o, true}
								case token.NEQ, token.LSS:
									return gcNot{gcIter{o, true}}
								}
							}
						}
					}
				}
				if kv, ok := gtConstInt(f.info, r); ok {
					ln := f.norm(l)
					for i := len(f.loops) - 1; i >= 0; i-- {
						lp := f.loops[i]
						if lp.start == "0" && lp.bound == ln {
							return gcTrip{lp.iv, op, kv}
						}
					}
				}
				l, r = r, l
				op = flipCmp(op)
			}
		}
	}
	return gcAtom{f.norm(e)}
}

func flipCmp(op token.Token) token.Token {
	switch op {
	case token.LSS:
		return token.GTR
	case token.GTR:
		return token.LSS
	case token.LEQ:
		return token.GEQ
	case token.GEQ:
		return token.LEQ
	}
	return op
}

// ---- evaluation ---------------------------------------------------------------------------------

type gtIterState struct{ first, last bool }

type gtEnv struct {
	mode  string
	atoms map[string]bool
	iter  map[types.Object]gtIterState
	funcs map[types.Object]*gtFunc // owner of each constant local
	depth int
}

func (env *gtEnv) eval(c gtCond) bool {
	switch x := c.(type) {
	case gcTrue:
		return true
	case gcAtom:
		return env.atoms[x.key]
	case gcNot:
		return !env.eval(x.c)
	case gcAnd:
		return env.eval(x.a) && env.eval(x.b)
	case gcOr:
		return env.eval(x.a) || env.eval(x.b)
	case gcMode:
		return env.mode == x.val
	case gcIter:
		st, ok := env.iter[x.iv]
		if !ok {
			return env.atoms[gtIterKey(x)]
		}
		if x.last {
			return st.last
		}
		return st.first
	case gcTrip:
		return env.atoms[gtTripKey(x)]
	case gcLocal:
		v := env.localValue(x.obj)
		switch x.op {
		case token.EQL:
			return v == x.k
		case token.NEQ:
			return v != x.k
		case token.LSS:
			return v < x.k
		case token.GTR:
			return v > x.k
		case token.LEQ:
			return v <= x.k
		case token.GEQ:
			return v >= x.k
		}
	}
	return false
}

func gtTripKey(x gcTrip) string {
	return fmt.Sprintf("trip:%s#%d%s%d", x.iv.Name(), int(x.iv.Pos()), x.op, x.k)
}

func gtIterKey(x gcIter) string {
	return fmt.Sprintf("iter:%s#%d:last=%v", x.iv.Name(), int(x.iv.Pos()), x.last)
}

// localValue: the value of a constant-assigned local = the last assignment (source order) whose own
// path condition holds.
func (env *gtEnv) localValue(o types.Object) int64 {
	f := env.funcs[o]
	if f == nil || env.depth > 8 {
		return 0
	}
	env.depth++
	defer func() { env.depth-- }()
	var v int64
	for _, a := range f.assigns[o] {
		if env.eval(a.cond) {
			v = a.val
		}
	}
	return v
}

// gtAtoms collects the free boolean atoms (and the constant locals) a condition depends on.
func gtAtoms(c gtCond, funcs map[types.Object]*gtFunc, atoms map[string]bool, modes map[string]bool, seen map[types.Object]bool) {
	switch x := c.(type) {
	case gcAtom:
		atoms[x.key] = true
	case gcNot:
		gtAtoms(x.c, funcs, atoms, modes, seen)
	case gcAnd:
		gtAtoms(x.a, funcs, atoms, modes, seen)
		gtAtoms(x.b, funcs, atoms, modes, seen)
	case gcOr:
		gtAtoms(x.a, funcs, atoms, modes, seen)
		gtAtoms(x.b, funcs, atoms, modes, seen)
	case gcMode:
		modes[x.val] = true
	case gcIter:
		atoms[gtIterKey(x)] = true
	case gcTrip:
		atoms[gtTripKey(x)] = true
	case gcLocal:
		if seen[x.obj] {
			return
		}
		seen[x.obj] = true
		if f := funcs[x.obj]; f != nil {
			for _, a := range f.assigns[x.obj] {
				gtAtoms(a.cond, funcs, atoms, modes, seen)
			}
		}
	}
}

// gtImplies decides U => D over every execution mode in `modes` and every valuation of the atoms;
// returns a counterexample description when it does not hold. ok=false when there are too many atoms.
func gtImplies(u, d gtCond, funcs map[types.Object]*gtFunc, modes []string) (holds bool, witness string, ok bool) {
	atoms := map[string]bool{}
	ms := map[string]bool{}
	gtAtoms(u, funcs, atoms, ms, map[types.Object]bool{})
	gtAtoms(d, funcs, atoms, ms, map[types.Object]bool{})
	var keys []string
	for k := range atoms {
		keys = append(keys, k)
	}
	sort.Strings(keys)
	if len(keys) > 14 {
		return false, "", false
	}
	for _, m := range modes {
		for bits := 0; bits < 1<<len(keys); bits++ {
			env := &gtEnv{mode: m, atoms: map[string]bool{}, funcs: funcs}
			for i, k := range keys {
				env.atoms[k] = bits&(1<<i) != 0
			}
			if env.eval(u) && !env.eval(d) {
				var parts []string
				for _, k := range keys {
					parts = append(parts, fmt.Sprintf("%s=%v", gtPretty(k), env.atoms[k]))
				}
				return false, fmt.Sprintf("mode %s; %s", m, strings.Join(parts, ", ")), true
			}
		}
	}
	return true, "", true
}

// gtPretty drops the declaration positions from an atom key for messages.
func gtPretty(k string) string {
	var sb strings.Builder
	for i := 0; i < len(k); i++ {
		if k[i] == '#' {
			j := i + 1
			for j < len(k) && k[j] >= '0' && k[j] <= '9' {
				j++
			}
			i = j - 1
			continue
		}
		sb.WriteByte(k[i])
	}
	return strings.ReplaceAll(sb.String(), "field:", "")
}

func gtCondString(c gtCond) string {
	switch x := c.(type) {
	case gcTrue:
		return "true"
	case gcAtom:
		return gtPretty(x.key)
	case gcNot:
		return "!(" + gtCondString(x.c) + ")"
	case gcAnd:
		return gtCondString(x.a) + " && " + gtCondString(x.b)
	case gcOr:
		return "(" + gtCondString(x.a) + " || " + gtCondString(x.b) + ")"
	case gcMode:
		return "mode==" + x.val
	case gcIter:
		if x.last {
			return x.iv.Name() + "==last"
		}
		return x.iv.Name() + "==first"
	case gcLocal:
		return fmt.Sprintf("%s%s%d", x.obj.Name(), x.op, x.k)
	case gcTrip:
		return fmt.Sprintf("trips(%s)%s%d", x.iv.Name(), x.op, x.k)
	}
	return "?"
}
