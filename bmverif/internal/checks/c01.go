package checks

import (
	"fmt"
	"go/ast"
	"go/token"
	"go/types"
	"sort"
	"strings"

	"bmverif/internal/core"
)

func init() {
	register("C01", checkC01)
	describe("C01", Meta{
		Technique: "symbolic instruction-field algebra (LAYOUT) comparing, per opcode, the bit slices of current_instruction in the Verilog templates and the instr[a:b] slices of Simulate with the fields the Assembler writes; index-source rule for opcode numbering; must-pass-through (path counting) of requirement bookkeeping behind every hardware-optimisation query",
		Claim:     "Decides structural decode-agreement clauses of C01 for every opcode type: (a) each slice of current_instruction in the opcode's Verilog templates is the opcode field or exactly one field its Assembler writes (all four mode cases, symbolic in all widths), and each instr[a:b] the simulator's Simulate reads is such a field (Harvard mode); (b) the opcode number emitted by the encoder and by the localparam table is the index in the same Op list, with the opcode-bits width; (c) an opcode whose state machine prunes case arms by querying a requirement set (destregs, sourceregs …) records that set on every path of its HLAssemblerNormalize that accepts a line. A wrong bit-slice index, a swapped field or an incomplete register bookkeeping in any of the ~100 templates is reported. (OPKIND) a field decoded in Simulate indexes the VM array of the operand kind the Assembler put there (register / input / output), and a Verilog template that selects on a field with `NAME : begin` labels uses the name function of that kind; (LITWIDTH) a sized literal W'b… of the label tables declares the width its digits are padded to. The semantics of each opcode (ALU, flags, timing), ROM/RAM models and threading are not decided. (MEMO) no method of the machine-description records keeps a computed width in a receiver field that nothing else stores (a memo that is never invalidated while front-ends assign the parameters directly).",
		Note:      "Simulate is compared under mode 'ha' only (VM.Step fetches from Program.Slocs: the simulator is Harvard by construction). Single-bit slices [A] are accepted at the offset of a field whose width can be 1.",
		DesignRef: "DESIGN.md §1.5, §2 C01",
	})
}

func checkC01(r *core.Run) {
	r.Explanation = "Decides decode-agreement clauses of C01 with the LAYOUT engine: L5 every current_instruction[...] slice in an opcode's Verilog templates equals the opcode field or one assembled field (modes ha, vn, hy/O>L, hy/O<=L); L4 every instr[a:b] slice in Simulate equals one assembled field (mode ha); OPNUM the opcode number written by the encoder and by Write_opcodes_verilog is the range index over Conproc.Op at width Opcodes_bits(); HWOPT every requirement set an opcode's state machine queries with OpCheck is recorded (OpAdd) on every accepting path of its HLAssemblerNormalize. " +
		"Does NOT decide: what each opcode computes, multi-cycle timing, ROM/RAM models, threading, von-Neumann fetch."
	prog := r.Load(core.LoadConfig{})
	if prog == nil {
		return
	}
	seen := map[string]bool{}
	nHdl, nSim, nOps, nKind := 0, 0, 0, 0
	for _, mode := range layoutModes {
		views, names := collectViews(prog, mode)
		for _, n := range names {
			v := views[n]
			if !v.hasAsm {
				continue
			}
			allZero := len(v.lens) > 0
			for _, l := range v.lens {
				if l.String() != "0" {
					allZero = false
				}
			}
			if allZero {
				continue
			}
			if mode == "ha" {
				nOps++
			}
			key := "pkg/procbuilder." + n
			opcodeField := lfield{off: lsym("opbits").scale(-1), w: lsym("opbits")}
			match := func(f lfield) bool {
				if matchField(f, v.asm) {
					return true
				}
				if f.off.eq(opcodeField.off) && (f.w.eq(opcodeField.w) || f.single) {
					return true
				}
				if f.single {
					for _, e := range v.asm {
						if e.off.eq(f.off) && (len(e.w.t) == 1 && e.w.c == 0 || e.w.eq(lconst(1))) {
							return true
						}
					}
				}
				return false
			}
			hasTilde := func(l lform) bool {
				for k := range l.t {
					if strings.Contains(k, "~") {
						return true
					}
				}
				return false
			}
			asmTilde := false
			for _, a := range v.asm {
				if hasTilde(a.off) || hasTilde(a.w) {
					asmTilde = true
				}
			}
			emit := func(rule, what string, f lfield, ok bool, bad string) {
				inst := fmt.Sprintf("C01/%s:%s:%s", rule, key, what)
				if !ok && asmTilde && (hasTilde(f.off) || hasTilde(f.w)) {
					if !seen[inst+"#note"] {
						seen[inst+"#note"] = true
						r.Note("C01/"+rule, inst, prog.Pos(f.pos), "not decided: both the template and the assembler size this field with a value assigned under a data-dependent condition (different locals); equality cannot be established symbolically")
					}
					return
				}
				und := f.off.unknown() || f.w.unknown()
				k := inst + fmt.Sprint(ok, und)
				if seen[k] {
					return
				}
				seen[k] = true
				switch {
				case ok:
					if !seen[inst+"#ok"] {
						seen[inst+"#ok"] = true
						r.OK("C01/"+rule, inst, prog.Pos(f.pos), "slice is a field the assembler writes (mode "+mode+")")
					}
				case und:
					r.Undecided("C01/"+rule, inst+"@"+mode, prog.Pos(f.pos), "slice bounds outside the recognised forms: "+f.String())
				default:
					r.Violation("C01/"+rule, inst, prog.Pos(f.pos), bad+" [mode "+mode+"; e.g. "+witnessValuation(f, v.asm)+"]")
				}
			}
			for _, u := range v.unknowns {
				inst := fmt.Sprintf("C01/L5:%s:uninterpreted", key)
				if !seen[inst+u] {
					seen[inst+u] = true
					r.Undecided("C01/L5", inst, u, "construct outside the recognised forms")
				}
			}
			// an assembler that writes no operand field at all while the declared length has room for
			// operands is a stub: one finding instead of one per decoded slice
			decodesOperands := len(v.sim) > 0
			for _, f := range v.hdl {
				if !(f.off.eq(opcodeField.off)) {
					decodesOperands = true
				}
			}
			if len(v.asm) == 0 && decodesOperands {
				inst := fmt.Sprintf("C01/L5:%s:assembler-stub", key)
				if !seen[inst] {
					seen[inst] = true
					r.Violation("C01/L5", inst, prog.Pos(v.asmPos), fmt.Sprintf("%s: the Verilog templates and/or Simulate decode operand bits, but the Assembler writes no operand field at all: one side is a stub (either the operands the source names are never encoded, or the decoder reads operands of a zero-operand instruction)", n))
				}
				continue
			}
			// hdl slices: key by (method, ordinal within method)
			ord := map[string]int{}
			for _, f := range v.hdl {
				ord[f.src]++
				if mode == "ha" {
					nHdl++
				}
				what := fmt.Sprintf("hdl:%s#%d", f.src, ord[f.src])
				emit("L5", what, f, match(f), fmt.Sprintf("%s: the Verilog template %s slices current_instruction at %s, which is neither the opcode field nor a field the assembler writes %s: the hardware decodes other bits than the ones the program encodes (and than the simulator reads)", n, f.src, f, fieldsString(v.asm)))
			}
			if mode == "ha" {
				// OPKIND (HDL side): a template that selects on a slice with labels NAME : begin built by a
				// name function takes the slice for that kind of operand
				for i, f := range v.hdl {
					for _, u := range f.uses {
						for k := range v.asm {
							a := v.asm[k]
							if !a.off.eq(f.off) || a.kind == "" || a.kind == "shared" || a.kind == "number" {
								continue
							}
							inst := fmt.Sprintf("C01/OPKIND:%s:hdl%d:%s->%s", key, i, f.src, u)
							if seen[inst] {
								continue
							}
							seen[inst] = true
							nKind++
							if u == a.kind {
								r.OK("C01/OPKIND", inst, prog.Pos(f.pos), "the template's case labels are "+u+" names, as the assembler's field")
							} else {
								r.Violation("C01/OPKIND", inst, prog.Pos(f.pos), fmt.Sprintf("%s.%s selects on the field %s with %s names as case labels, but the assembler fills that field with a %s operand: the hardware interprets the operand as another kind than the assembler and the simulator (the label constants of different kinds have different encodings and widths)", n, f.src, f, u, a.kind))
							}
						}
					}
				}
				for i, f := range v.sim {
					// OPKIND: a decoded field indexes the VM array of its own operand kind
					for k := range v.asm {
						a := v.asm[k]
						if !(a.off.eq(f.off) && a.w.eq(f.w)) || a.kind == "" || a.kind == "shared" || a.kind == "number" {
							continue
						}
						for _, u := range f.uses {
							if u == "number" {
								continue // a label built with strconv.Itoa, not an index
							}
							inst := fmt.Sprintf("C01/OPKIND:%s:sim%d:%s->%s", key, i, f.src, u)
							if seen[inst] {
								continue
							}
							seen[inst] = true
							nKind++
							if u == a.kind {
								r.OK("C01/OPKIND", inst, prog.Pos(f.pos), "decoded "+a.kind+" field indexes the "+u+" array")
							} else {
								r.Violation("C01/OPKIND", inst, prog.Pos(f.pos), fmt.Sprintf("%s.Simulate uses the field %s, which the assembler fills with a %s operand, to index the VM's %s array: the simulator executes the instruction on another operand than the hardware template, which selects %s by that field", n, f, a.kind, u, a.kind))
							}
						}
					}
					nSim++
					emit("L4", fmt.Sprintf("sim%d:%s", i, f.src), f, matchField(f, v.asm), fmt.Sprintf("%s.Simulate reads %s = %s, which is not a field the assembler writes %s: the simulator executes other operands than the hardware", n, f.src, f, fieldsString(v.asm)))
				}
			}
		}
	}
	r.Count("opcode_types", nOps)
	r.Count("hdl_instruction_slices", nHdl)
	r.Count("simulate_instruction_slices", nSim)
	r.Count("operand_kind_uses", nKind)
	decodeWidth(r, prog, "C01")
	c01LiteralWidth(r, prog)
	c01OpNumbering(r, prog)
	c01HwOptBookkeeping(r, prog)
	c01Memo(r, prog)
}

// ---- (b) opcode numbering ---------------------------------------------------------------

func c01OpNumbering(r *core.Run, prog *core.Program) {
	pk := prog.Pkg("pkg/procbuilder")
	info := pk.TypesInfo
	n := 0
	// helpers that render a number at a width: zeros_prefix(<param a>, get_binary(<param b>)) in the body
	numWrappers := map[types.Object][2]int{}
	core.FuncDecls(pk, func(_ *ast.File, fd *ast.FuncDecl) {
		pidx := map[types.Object]int{}
		i := 0
		for _, f := range fd.Type.Params.List {
			for _, nm := range f.Names {
				pidx[info.ObjectOf(nm)] = i
				i++
			}
		}
		ast.Inspect(fd.Body, func(m ast.Node) bool {
			call, ok := m.(*ast.CallExpr)
			if !ok || len(call.Args) != 2 {
				return true
			}
			if c := core.CalleeOf(info, call); c == nil || c.Name() != "zeros_prefix" {
				return true
			}
			wid, ok1 := ast.Unparen(call.Args[0]).(*ast.Ident)
			gb, ok2 := ast.Unparen(call.Args[1]).(*ast.CallExpr)
			if !ok1 || !ok2 || len(gb.Args) != 1 {
				return true
			}
			if c2 := core.CalleeOf(info, gb); c2 == nil || c2.Name() != "get_binary" {
				return true
			}
			vid, ok3 := ast.Unparen(gb.Args[0]).(*ast.Ident)
			if !ok3 {
				return true
			}
			a, okA := pidx[info.ObjectOf(wid)]
			b, okB := pidx[info.ObjectOf(vid)]
			if okA && okB {
				if o := info.Defs[fd.Name]; o != nil {
					numWrappers[o] = [2]int{a, b}
				}
			}
			return true
		})
	})
	core.FuncDecls(pk, func(_ *ast.File, fd *ast.FuncDecl) {
		lc := &layoutCtx{pk: pk, info: info, mode: "ha"}
		// range loops over a Conproc.Op value: key objects
		opKeys := map[types.Object]bool{}
		ast.Inspect(fd.Body, func(m ast.Node) bool {
			if rs, ok := m.(*ast.RangeStmt); ok {
				if f := core.FieldOf(info, rs.X); f != nil && f.Name() == "Op" && core.IsField(f, "pkg/procbuilder", "Op") {
					if id, ok := rs.Key.(*ast.Ident); ok {
						opKeys[info.ObjectOf(id)] = true
					}
				}
			}
			return true
		})
		// variables used to index a Conproc.Op value are opcode numbers too
		ast.Inspect(fd.Body, func(m ast.Node) bool {
			if ie, ok := m.(*ast.IndexExpr); ok {
				if f := core.FieldOf(info, ie.X); f != nil && core.IsField(f, "pkg/procbuilder", "Op") {
					if id, ok := ast.Unparen(ie.Index).(*ast.Ident); ok {
						opKeys[info.ObjectOf(id)] = true
					}
				}
			}
			return true
		})
		en := lenv{}
		k := 0
		lc.walk(fd.Body.List, en, func(nd ast.Node, en lenv) {
			inspectShallow(nd, func(m ast.Node) bool {
				call, ok := m.(*ast.CallExpr)
				if !ok {
					return true
				}
				c := core.CalleeOf(info, call)
				if c == nil {
					return true
				}
				var widthE, valueE ast.Expr
				if c.Name() == "zeros_prefix" && len(call.Args) == 2 {
					widthE = call.Args[0]
					if gb, isCall := ast.Unparen(call.Args[1]).(*ast.CallExpr); isCall {
						if c2 := core.CalleeOf(info, gb); c2 != nil && c2.Name() == "get_binary" && len(gb.Args) == 1 {
							valueE = gb.Args[0]
						}
					}
				} else if w, ok := numWrappers[c]; ok && w[0] < len(call.Args) && w[1] < len(call.Args) {
					// a helper that renders zeros_prefix(<bits param>, get_binary(<value param>))
					widthE, valueE = call.Args[w[0]], call.Args[w[1]]
				} else {
					return true
				}
				if lc.eval(widthE, en).String() != "opbits" {
					return true
				}
				k++
				n++
				inst := fmt.Sprintf("C01/OPNUM:%s:site%d", core.FuncKey(pk, fd), k)
				ok2 := false
				if valueE != nil {
					if id, isID := ast.Unparen(valueE).(*ast.Ident); isID && opKeys[info.ObjectOf(id)] {
						ok2 = true
					}
				}
				if ok2 {
					r.OK("C01/OPNUM", inst, prog.Pos(call.Pos()), "opcode number is the index in the Op list, at opcode-bits width")
				} else {
					r.Violation("C01/OPNUM", inst, prog.Pos(call.Pos()), fmt.Sprintf("%s writes an opcode-width field whose value is not the range index over Conproc.Op: encoder, localparam table and decoder no longer number the opcodes alike", core.FuncKey(pk, fd)))
				}
				return true
			})
		})
	})
	r.Count("opcode_number_sites", n)
	// the decoder reads the first opcode-bits of the word and its result indexes Op
	core.FuncDecls(pk, func(_ *ast.File, fd *ast.FuncDecl) {
		if fd.Name.Name != "Decode_opcode" {
			return
		}
		lc := &layoutCtx{pk: pk, info: info, mode: "ha"}
		ok := false
		en := lenv{}
		lc.walk(fd.Body.List, en, func(nd ast.Node, en lenv) {
			inspectShallow(nd, func(m ast.Node) bool {
				if se, isSl := m.(*ast.SliceExpr); isSl && se.High != nil {
					lo := lconst(0)
					if se.Low != nil {
						lo = lc.eval(se.Low, en)
					}
					if lo.String() == "0" && lc.eval(se.High, en).String() == "opbits" {
						ok = true
					}
				}
				return true
			})
		})
		if ok {
			r.OK("C01/OPNUM", "C01/OPNUM:Decode_opcode", prog.Pos(fd.Pos()), "decoder reads the first Opcodes_bits() bits of the word")
		} else {
			r.Violation("C01/OPNUM", "C01/OPNUM:Decode_opcode", prog.Pos(fd.Pos()), "Conproc.Decode_opcode does not read exactly the first Opcodes_bits() bits of the word")
		}
	})
}

// ---- (c) hardware-optimisation bookkeeping ------------------------------------------------

// reqLit extracts (node suffix "/opcodes:<x>", Name, Op) from a bmreqs.ReqRequest literal.
func reqLit(info *types.Info, e ast.Expr) (nodeSuffix, name, op string, ok bool) {
	cl, isCL := ast.Unparen(e).(*ast.CompositeLit)
	if !isCL {
		return
	}
	if nt, isN := info.TypeOf(cl).(*types.Named); !isN || nt.Obj().Name() != "ReqRequest" {
		return
	}
	for _, el := range cl.Elts {
		kv, isKV := el.(*ast.KeyValueExpr)
		if !isKV {
			continue
		}
		k := kv.Key.(*ast.Ident).Name
		switch k {
		case "Node":
			var leaves []ast.Expr
			flattenAdd(kv.Value, &leaves)
			if len(leaves) > 0 {
				if s, isS := constStr(info, leaves[len(leaves)-1]); isS {
					if i := strings.LastIndex(s, "/opcodes:"); i >= 0 {
						nodeSuffix = s[i:]
					}
				}
			}
		case "Name":
			name, _ = constStr(info, kv.Value)
		case "Op":
			op = types.ExprString(kv.Value)
			if i := strings.LastIndex(op, "."); i >= 0 {
				op = op[i+1:]
			}
		}
	}
	return nodeSuffix, name, op, true
}

func c01HwOptBookkeeping(r *core.Run, prog *core.Program) {
	pk := prog.Pkg("pkg/procbuilder")
	info := pk.TypesInfo
	// per opcode type: queried (suffix,name) in generator methods; the normaliser
	type q struct{ suffix, name string }
	queried := map[string]map[q]token.Pos{}
	norm := map[string]*ast.FuncDecl{}
	core.FuncDecls(pk, func(_ *ast.File, fd *ast.FuncDecl) {
		rn := core.RecvTypeName(info, fd)
		if rn == "" {
			return
		}
		if fd.Name.Name == "HLAssemblerNormalize" {
			norm[rn] = fd
			return
		}
		ast.Inspect(fd.Body, func(m ast.Node) bool {
			if cl, ok := m.(*ast.CompositeLit); ok {
				if sfx, name, op, ok := reqLit(info, cl); ok && op == "OpCheck" && sfx != "" && name != "" {
					if queried[rn] == nil {
						queried[rn] = map[q]token.Pos{}
					}
					if _, dup := queried[rn][q{sfx, name}]; !dup {
						queried[rn][q{sfx, name}] = cl.Pos()
					}
				}
			}
			return true
		})
	})
	var types_ []string
	for t := range queried {
		types_ = append(types_, t)
	}
	sort.Strings(types_)
	nQ := 0
	for _, t := range types_ {
		var qs []q
		for k := range queried[t] {
			qs = append(qs, k)
		}
		sort.Slice(qs, func(i, j int) bool { return qs[i].suffix+qs[i].name < qs[j].suffix+qs[j].name })
		for _, qq := range qs {
			nQ++
			base := fmt.Sprintf("C01/HWOPT:pkg/procbuilder.%s:%s%s", t, qq.name, qq.suffix)
			fd := norm[t]
			if fd == nil {
				r.Violation("C01/HWOPT", base, prog.Pos(queried[t][qq]), fmt.Sprintf("%s prunes its state machine on requirement %q of node …%s but has no HLAssemblerNormalize that could record it", t, qq.name, qq.suffix))
				continue
			}
			pi := &pinterp{info: info, noReturn: noReturnCall(info), noFlags: true}
			pi.events = func(nd ast.Node) []pevent {
				var evs []pevent
				ast.Inspect(nd, func(k ast.Node) bool {
					switch x := k.(type) {
					case *ast.FuncLit:
						return false
					case *ast.BlockStmt:
						return k == nd
					case *ast.CompositeLit:
						if sfx, name, op, ok := reqLit(info, x); ok && op == "OpAdd" && name == qq.name && sfx == qq.suffix {
							evs = append(evs, pevent{d: +1, pos: x.Pos()})
						}
					}
					return true
				})
				return evs
			}
			pi.containsEvent = func(ast.Node) bool { return true } // keep the switch-case trail
			pi.onError = func(token.Pos, pstate, string) {}
			undec := ""
			pi.undecided = func(_ token.Pos, w string) { undec = w }
			pi.dropReturn = func(ret *ast.ReturnStmt) bool {
				if len(ret.Results) == 0 {
					return false
				}
				last := ast.Unparen(ret.Results[len(ret.Results)-1])
				id, ok := last.(*ast.Ident)
				return !(ok && id.Name == "nil") // error returns are not accepting paths
			}
			in := pset{}
			in.add(pstate{flags: map[types.Object]bool{}})
			out := pi.block(fd.Body.List, in)
			ends := pset{}
			ends.addAll(out.ret)
			byTrail := map[string]bool{} // trail -> has a zero path
			for _, s := range ends {
				t := strings.Join(s.trail, "/")
				if s.n == 0 {
					byTrail[t] = true
				} else if _, ok := byTrail[t]; !ok {
					byTrail[t] = false
				}
			}
			var trails []string
			for t := range byTrail {
				trails = append(trails, t)
			}
			sort.Strings(trails)
			if undec != "" {
				r.Undecided("C01/HWOPT", base, prog.Pos(fd.Pos()), undec)
				continue
			}
			for _, tr := range trails {
				inst := base + ":" + tr
				if byTrail[tr] {
					r.Violation("C01/HWOPT", inst, prog.Pos(fd.Pos()), fmt.Sprintf("%s prunes case arms of its Verilog state machine by asking whether a register is in the %q set of …%s, but its HLAssemblerNormalize accepts lines on path [%s] without recording that set: with the optimisation enabled the hardware has no arm for a register the program uses, while the simulator executes the instruction", t, qq.name, qq.suffix, tr))
				} else {
					r.OK("C01/HWOPT", inst, prog.Pos(fd.Pos()), "requirement recorded on every accepting path of this case")
				}
			}
		}
	}
	r.Count("hwopt_queries", nQ)
}

// witnessValuation finds a concrete architecture on which the slice is not an assembled field.
func witnessValuation(f lfield, asm []lfield) string {
	syms := map[string]bool{}
	collect := func(l lform) {
		for k := range l.t {
			syms[k] = true
		}
	}
	collect(f.off)
	collect(f.w)
	for _, a := range asm {
		collect(a.off)
		collect(a.w)
	}
	var names []string
	for k := range syms {
		names = append(names, k)
	}
	sort.Strings(names)
	ev := func(l lform, val map[string]int) int {
		v := l.c
		for k, c := range l.t {
			v += c * val[k]
		}
		return v
	}
	// small grid of distinct values per symbol
	bases := [][]int{{3, 4, 2, 5, 1, 6, 7, 8}, {2, 5, 3, 1, 4, 8, 6, 7}, {1, 2, 3, 4, 5, 6, 7, 8}}
	for _, b := range bases {
		val := map[string]int{}
		for i, n := range names {
			val[n] = b[i%len(b)]
			if n == "Rsize" {
				val[n] = 8
			}
		}
		fo, fw := ev(f.off, val), ev(f.w, val)
		hit := false
		for _, a := range asm {
			if ev(a.off, val) == fo && ev(a.w, val) == fw {
				hit = true
			}
		}
		if !hit {
			var parts []string
			for _, n := range names {
				parts = append(parts, fmt.Sprintf("%s=%d", n, val[n]))
			}
			var af []string
			for _, a := range asm {
				af = append(af, fmt.Sprintf("[%d,%d)", ev(a.off, val), ev(a.off, val)+ev(a.w, val)))
			}
			return fmt.Sprintf("%s: decoded operand bits [%d,%d) vs assembled fields %s", strings.Join(parts, ", "), fo, fo+fw, strings.Join(af, " "))
		}
	}
	return "no distinguishing valuation in the sample grid"
}


// c01LiteralWidth (C01/LITWIDTH): a sized Verilog literal <W>'b<bits> emitted by the generators as
// strconv.Itoa(W1) + "'b" + zeros_prefix(W2, …) must have W1 == W2: with W1 < W2 the Verilog front end
// truncates the constant (a port or register label then aliases another one and its case arm is never
// taken), with W1 > W2 it is zero-extended. The hardware's label tables (registers, inputs, outputs,
// opcodes) are such literals; the assembler and the simulator number the same things by plain index.
func c01LiteralWidth(r *core.Run, prog *core.Program) {
	pk := prog.Pkg("pkg/procbuilder")
	info := pk.TypesInfo
	n := 0
	core.FuncDecls(pk, func(_ *ast.File, fd *ast.FuncDecl) {
		if !strings.Contains(strings.ToLower(fd.Name.Name), "verilog") {
			return
		}
		lc := &layoutCtx{pk: pk, info: info, mode: "ha"}
		if fd.Recv != nil && len(fd.Recv.List) > 0 && len(fd.Recv.List[0].Names) > 0 {
			lc.recv = info.ObjectOf(fd.Recv.List[0].Names[0])
		}
		k := 0
		lc.walk(fd.Body.List, lenv{}, func(nd ast.Node, en lenv) {
			inspectShallow(nd, func(m ast.Node) bool {
				be, ok := m.(*ast.BinaryExpr)
				if !ok || be.Op != token.ADD {
					return true
				}
				var leaves []ast.Expr
				flattenAdd(be, &leaves)
				for i := 0; i+2 < len(leaves); i++ {
					c1, ok := ast.Unparen(leaves[i]).(*ast.CallExpr)
					if !ok || !core.IsFunc(core.CalleeOf(info, c1), "strconv", "Itoa") || len(c1.Args) != 1 {
						continue
					}
					lit, ok := constStr(info, leaves[i+1])
					if !ok || lit != "'b" {
						continue
					}
					c2, ok := ast.Unparen(leaves[i+2]).(*ast.CallExpr)
					if !ok || len(c2.Args) != 2 {
						continue
					}
					if c := core.CalleeOf(info, c2); c == nil || c.Name() != "zeros_prefix" {
						continue
					}
					k++
					n++
					inst := fmt.Sprintf("C01/LITWIDTH:%s:lit%d", core.FuncKey(pk, fd), k)
					w1, w2 := lc.eval(c1.Args[0], en), lc.eval(c2.Args[0], en)
					same := w1.eq(w2) || types.ExprString(ast.Unparen(stripIntConv(info, c1.Args[0]))) == types.ExprString(ast.Unparen(stripIntConv(info, c2.Args[0])))
					if same {
						r.OK("C01/LITWIDTH", inst, prog.Pos(c1.Pos()), "declared width and number of digits are the same expression")
					} else {
						r.Violation("C01/LITWIDTH", inst, prog.Pos(c1.Pos()), fmt.Sprintf("%s emits a sized literal whose declared width is %s (%s) but whose digits are padded to %s (%s): when the two differ the Verilog constant is truncated or extended, so the label it defines no longer has the value the assembler and the simulator use for that register/port/opcode (its case arm is never taken, or another's is)", core.FuncKey(pk, fd), types.ExprString(c1.Args[0]), w1, types.ExprString(c2.Args[0]), w2))
					}
				}
				return false
			})
		})
	})
	r.Count("sized_literals", n)
}

// stripIntConv removes int(…)/uint8(…) conversions around an expression.
func stripIntConv(info *types.Info, e ast.Expr) ast.Expr {
	for {
		call, ok := ast.Unparen(e).(*ast.CallExpr)
		if !ok || len(call.Args) != 1 {
			return e
		}
		if tv, ok := info.Types[call.Fun]; !ok || !tv.IsType() {
			return e
		}
		e = call.Args[0]
	}
}
