package checks

import (
	"fmt"
	"go/ast"
	"go/constant"
	"go/token"
	"go/types"
	"sort"
	"strconv"
	"strings"

	"bmverif/internal/core"
	"golang.org/x/tools/go/packages"
)

// C15 — simulation rules are applied as written. Clauses decided here:
//  (a) PRINTPARSE: Rule.String and Simbox.Add are inverse tables (symbolically, per rule shape);
//  (b) SUSPENDED: every consumer loop over Simbox.Rules outside pkg/simbox tests Suspended
//      before any other use of the element (dominance on go/cfg);
//  (c) HANDLER / TABLEREAD: every (Timec, Action) class Add can produce is compared against
//      by some consumer, every config object literal has a case, and every SimDrive/SimReport
//      table filled by Init is read by someone else.

func init() {
	register("C15", checkC15)
	describe("C15", Meta{
		Technique: "table extraction by symbolic evaluation of Simbox.Add / Rule.String ASTs (print/parse inverse check), must-dominance of the Suspended test on go/cfg for every Simbox.Rules consumer, producer/consumer field agreement over go/types objects",
		Claim:     "Decides three structural clauses of C15: parse(print(r))==r for every rule shape Add can build (symbolic in tick/object/extra), every consumer of Simbox.Rules outside pkg/simbox skips suspended rules before touching them on all paths, every rule class/config option accepted by Add has a consumer whose table is read, and no consumer rewrites a field of a rule before interpreting it (RULEPURE). (SINGLEPARSER) the decoder of set-rule values reads literals with bmnumbers.ImportString only. Necessary conditions only: tick arithmetic, name resolution and reported values are not decided.",
		Note:      "Assumes rule objects/extras contain no ':' (they come from strings.Split on ':'); the simulator entry points are found by the Simbox.Rules field object, not by name.",
		DesignRef: "DESIGN.md §2 C15",
	})
}

// ---- symbolic pieces -----------------------------------------------------------

// sval is a symbolic word/field value: a literal, or a reference to an input word, or
// the decimal print of the tick.
type sval struct {
	kind string // "lit", "word", "atoi" (integer parsed from word i), "tick" (Itoa of Tick), "obj", "extra", "opaque", "condextra"
	lit  string
	idx  int
	alt  *[2][]sval // condextra: what is printed when Extra is non-empty / empty
}

func (v sval) String() string {
	switch v.kind {
	case "lit":
		return strconv.Quote(v.lit)
	case "word":
		return fmt.Sprintf("words[%d]", v.idx)
	case "atoi":
		return fmt.Sprintf("Atoi(words[%d])", v.idx)
	}
	return "<" + v.kind + ">"
}

type addShape struct {
	pos     string
	nwords  int
	kw      map[int]string // position -> required literal
	atoi    map[int]bool   // positions that must parse as integer
	timec   int64
	action  int64
	timecN  string
	actionN string
	tick    sval // atoi(i) or lit "0"
	object  sval // word(i) or lit
	extra   sval
	susp    string
	bad     string // reason why the shape could not be fully interpreted
}

func (s addShape) key() string {
	var ks []string
	for i := 0; i < s.nwords; i++ {
		if l, ok := s.kw[i]; ok {
			ks = append(ks, l)
		} else if s.atoi[i] {
			ks = append(ks, "<n>")
		} else {
			ks = append(ks, "<w>")
		}
	}
	return strings.Join(ks, ":")
}

type strCase struct {
	pos    string
	timec  int64
	action int64
	object *string // nil = any / default
	exclud []string
	segs   []sval
	bad    string
}

func constInt(info *types.Info, e ast.Expr) (int64, string, bool) {
	tv, ok := info.Types[e]
	if !ok || tv.Value == nil {
		return 0, "", false
	}
	if v, ok := constant.Int64Val(constant.ToInt(tv.Value)); ok {
		return v, types.ExprString(e), true
	}
	return 0, "", false
}

func constStr(info *types.Info, e ast.Expr) (string, bool) {
	tv, ok := info.Types[e]
	if !ok || tv.Value == nil || tv.Value.Kind() != constant.String {
		return "", false
	}
	return constant.StringVal(tv.Value), true
}

func checkC15(r *core.Run) {
	r.Explanation = "Decides structural clauses of C15 (the print model follows a local that depends on Extra being empty and prints a rule both ways when Extra is an input word): (a) for every Rule literal Simbox.Add can build, the text Rule.String prints for it is re-accepted by Add and rebuilds the same (Timec, Action, Tick, Object, Extra), symbolically in tick/object/extra; (b) every loop over Simbox.Rules outside pkg/simbox tests Suspended and leaves the iteration before any other use of the element, on every CFG path; (c) every (Timec, Action) class and every config option accepted by Add is compared against by a consumer, and every SimDrive/SimReport/SimConfig table written by Init is read elsewhere. " +
		"Does NOT decide: tick arithmetic, which element a name resolves to, valid-flag side effects, reported values, rule-file save/load."
	r.Assumptions = []string{"objects and extras contain no ':'", "consumers are identified by the types.Var of field simbox.Simbox.Rules"}
	prog := r.Load(core.LoadConfig{})
	if prog == nil {
		return
	}
	sb := prog.Pkg("pkg/simbox")
	if sb == nil {
		r.Fatal("pkg/simbox not loaded")
		return
	}
	shapes := extractAdd(r, prog, sb)
	cases := extractString(r, prog, sb)
	r.Count("add_rule_literals", len(shapes))
	r.Count("string_returns", len(cases))
	c15PrintParse(r, shapes, cases)
	c15Suspended(r, prog, sb)
	c15RulePure(r, prog)
	c15Handlers(r, prog, sb, shapes)
	// (d) the compiled tables are indexed in their own index spaces (injectable / reportable /
	// showable / event-data position vs. external input index)
	e := newIKEngine(r, prog, "C15")
	e.run([]string{"pkg/bondmachine", "cmd/bondmachine"}, func(pk *packages.Package, fd *ast.FuncDecl) bool {
		return e.mentionsFieldOf(pk, fd, "pkg/bondmachine.SimDrive.", "pkg/bondmachine.SimReport.")
	})
	ruleSingleParser(r, prog, "C15", []string{"pkg/bondmachine", "cmd/bondmachine"})
}

// ---- (a) extraction of Add ----------------------------------------------------------

func extractAdd(r *core.Run, prog *core.Program, sb *packages.Package) []addShape {
	info := sb.TypesInfo
	var shapes []addShape
	core.FuncDecls(sb, func(_ *ast.File, fd *ast.FuncDecl) {
		if fd.Name.Name != "Add" || core.RecvTypeName(info, fd) != "Simbox" {
			return
		}
		// the local holding strings.Split(arg, ":")
		var words types.Object
		ast.Inspect(fd.Body, func(n ast.Node) bool {
			as, ok := n.(*ast.AssignStmt)
			if !ok || len(as.Lhs) != 1 || len(as.Rhs) != 1 {
				return true
			}
			if call, ok := as.Rhs[0].(*ast.CallExpr); ok && core.IsFunc(core.CalleeOf(info, call), "strings", "Split") {
				if sep, ok := constStr(info, call.Args[1]); ok && sep == ":" {
					if id, ok := as.Lhs[0].(*ast.Ident); ok {
						words = info.ObjectOf(id)
					}
				}
			}
			return true
		})
		if words == nil {
			r.Undecided("C15/PRINTPARSE", "C15/PRINTPARSE:Add:split", prog.Pos(fd.Pos()), "Simbox.Add no longer splits its argument on ':' into a local; the rule grammar cannot be extracted")
			return
		}
		wordIdx := func(e ast.Expr) (int, bool) {
			ie, ok := ast.Unparen(e).(*ast.IndexExpr)
			if !ok {
				return 0, false
			}
			id, ok := ast.Unparen(ie.X).(*ast.Ident)
			if !ok || info.ObjectOf(id) != words {
				return 0, false
			}
			v, _, ok := constInt(info, ie.Index)
			return int(v), ok
		}
		type cond struct {
			nwords int // -1 none
			kw     map[int]string
			atoi   map[int]bool
			bad    string
		}
		type env struct {
			c     cond
			binds map[types.Object]sval
		}
		clone := func(e env) env {
			n := env{c: cond{nwords: e.c.nwords, kw: map[int]string{}, atoi: map[int]bool{}, bad: e.c.bad}, binds: map[types.Object]sval{}}
			for k, v := range e.c.kw {
				n.c.kw[k] = v
			}
			for k, v := range e.c.atoi {
				n.c.atoi[k] = v
			}
			for k, v := range e.binds {
				n.binds[k] = v
			}
			return n
		}
		// addCond folds a (positive) condition into env; unknown conjuncts poison it.
		var addCond func(e *env, c ast.Expr)
		addCond = func(e *env, c ast.Expr) {
			c = ast.Unparen(c)
			if be, ok := c.(*ast.BinaryExpr); ok {
				switch be.Op {
				case token.LAND:
					addCond(e, be.X)
					addCond(e, be.Y)
					return
				case token.EQL:
					// len(words) == N
					if call, ok := ast.Unparen(be.X).(*ast.CallExpr); ok {
						if id, ok := call.Fun.(*ast.Ident); ok && id.Name == "len" && len(call.Args) == 1 {
							if a, ok := ast.Unparen(call.Args[0]).(*ast.Ident); ok && info.ObjectOf(a) == words {
								if v, _, ok := constInt(info, be.Y); ok {
									e.c.nwords = int(v)
									return
								}
							}
						}
					}
					if i, ok := wordIdx(be.X); ok {
						if s, ok := constStr(info, be.Y); ok {
							e.c.kw[i] = s
							return
						}
					}
					// err == nil after Atoi init
					if id, ok := ast.Unparen(be.X).(*ast.Ident); ok {
						if y, ok := ast.Unparen(be.Y).(*ast.Ident); ok && y.Name == "nil" {
							if v, ok := e.binds[info.ObjectOf(id)]; ok && v.kind == "atoierr" {
								e.c.atoi[v.idx] = true
								return
							}
						}
					}
				}
			}
			e.c.bad = "unrecognised condition " + types.ExprString(c)
		}
		var valOf func(e env, x ast.Expr) sval
		valOf = func(e env, x ast.Expr) sval {
			x = ast.Unparen(x)
			if s, ok := constStr(info, x); ok {
				return sval{kind: "lit", lit: s}
			}
			if v, _, ok := constInt(info, x); ok {
				return sval{kind: "lit", lit: strconv.FormatInt(v, 10)}
			}
			if i, ok := wordIdx(x); ok {
				return sval{kind: "word", idx: i}
			}
			if id, ok := x.(*ast.Ident); ok {
				if v, ok := e.binds[info.ObjectOf(id)]; ok {
					return v
				}
			}
			if call, ok := x.(*ast.CallExpr); ok && len(call.Args) == 1 {
				if tv, ok := info.Types[call.Fun]; ok && tv.IsType() { // conversion
					return valOf(e, call.Args[0])
				}
			}
			return sval{kind: "opaque", lit: types.ExprString(x)}
		}
		var walk func(stmts []ast.Stmt, e env)
		var walkStmt func(s ast.Stmt, e env)
		record := func(cl *ast.CompositeLit, e env) {
			sh := addShape{pos: prog.Pos(cl.Pos()), nwords: e.c.nwords, kw: e.c.kw, atoi: e.c.atoi, bad: e.c.bad, tick: sval{kind: "lit", lit: "0"}, object: sval{kind: "lit"}, extra: sval{kind: "lit"}, susp: "false"}
			st, _ := info.TypeOf(cl).Underlying().(*types.Struct)
			for i, el := range cl.Elts {
				name := ""
				val := el
				if kv, ok := el.(*ast.KeyValueExpr); ok {
					name = kv.Key.(*ast.Ident).Name
					val = kv.Value
				} else if st != nil && i < st.NumFields() {
					name = st.Field(i).Name()
				}
				switch name {
				case "Timec":
					if v, n, ok := constInt(info, val); ok {
						sh.timec, sh.timecN = v, n
					} else {
						sh.bad = "non-constant Timec"
					}
				case "Action":
					if v, n, ok := constInt(info, val); ok {
						sh.action, sh.actionN = v, n
					} else {
						sh.bad = "non-constant Action"
					}
				case "Tick":
					sh.tick = valOf(e, val)
				case "Object":
					sh.object = valOf(e, val)
				case "Extra":
					sh.extra = valOf(e, val)
				case "Suspended":
					sh.susp = types.ExprString(val)
				}
			}
			if sh.nwords < 0 && sh.bad == "" {
				sh.bad = "Rule literal not under a len(words)==N condition"
			}
			shapes = append(shapes, sh)
		}
		scanLits := func(n ast.Node, e env) {
			ast.Inspect(n, func(m ast.Node) bool {
				if cl, ok := m.(*ast.CompositeLit); ok {
					if nt, ok := info.TypeOf(cl).(*types.Named); ok && nt.Obj().Name() == "Rule" && nt.Obj().Pkg() == sb.Types {
						record(cl, e)
						return false
					}
				}
				return true
			})
		}
		walkStmt = func(s ast.Stmt, e env) {
			switch x := s.(type) {
			case *ast.BlockStmt:
				walk(x.List, e)
			case *ast.IfStmt:
				te := clone(e)
				if x.Init != nil {
					// v, err := strconv.Atoi(words[i])
					if as, ok := x.Init.(*ast.AssignStmt); ok && len(as.Rhs) == 1 && len(as.Lhs) == 2 {
						if call, ok := as.Rhs[0].(*ast.CallExpr); ok && core.IsFunc(core.CalleeOf(info, call), "strconv", "Atoi") {
							if i, ok := wordIdx(call.Args[0]); ok {
								if v, ok := as.Lhs[0].(*ast.Ident); ok {
									te.binds[info.ObjectOf(v)] = sval{kind: "atoi", idx: i}
								}
								if er, ok := as.Lhs[1].(*ast.Ident); ok {
									te.binds[info.ObjectOf(er)] = sval{kind: "atoierr", idx: i}
								}
							} else {
								te.c.bad = "Atoi of something that is not words[i]"
							}
						} else {
							te.c.bad = "unrecognised if-init " + types.ExprString(as.Rhs[0])
						}
					}
				}
				addCond(&te, x.Cond)
				walk(x.Body.List, te)
				if x.Else != nil {
					walkStmt(x.Else, clone(e)) // negative information is not needed (first full match wins)
				}
			case *ast.SwitchStmt:
				if x.Tag == nil {
					for _, c := range x.Body.List {
						cc := c.(*ast.CaseClause)
						ce := clone(e)
						if len(cc.List) == 1 {
							addCond(&ce, cc.List[0])
						} else if len(cc.List) > 1 {
							ce.c.bad = "multi-expression tagless case"
						}
						walk(cc.Body, ce)
					}
					return
				}
				i, ok := wordIdx(x.Tag)
				for _, c := range x.Body.List {
					cc := c.(*ast.CaseClause)
					if len(cc.List) == 0 {
						ce := clone(e)
						walk(cc.Body, ce)
						continue
					}
					for _, v := range cc.List {
						ce := clone(e)
						if s, isStr := constStr(info, v); ok && isStr {
							ce.c.kw[i] = s
						} else {
							ce.c.bad = "switch on " + types.ExprString(x.Tag)
						}
						walk(cc.Body, ce)
					}
				}
			case *ast.ForStmt, *ast.RangeStmt:
				ne := clone(e)
				ne.c.bad = "Rule literal inside a loop"
				scanLits(s, ne)
			default:
				scanLits(s, e)
			}
		}
		walk = func(stmts []ast.Stmt, e env) {
			for _, s := range stmts {
				walkStmt(s, e)
			}
		}
		walk(fd.Body.List, env{c: cond{nwords: -1, kw: map[int]string{}, atoi: map[int]bool{}}, binds: map[types.Object]sval{}})
	})
	return shapes
}

// ---- (a) extraction of String -----------------------------------------------------

func extractString(r *core.Run, prog *core.Program, sb *packages.Package) []strCase {
	info := sb.TypesInfo
	var out []strCase
	core.FuncDecls(sb, func(_ *ast.File, fd *ast.FuncDecl) {
		if fd.Name.Name != "String" || core.RecvTypeName(info, fd) != "Rule" {
			return
		}
		var recv types.Object
		if len(fd.Recv.List[0].Names) > 0 {
			recv = info.ObjectOf(fd.Recv.List[0].Names[0])
		}
		fieldOfRecv := func(e ast.Expr) string {
			sel, ok := ast.Unparen(e).(*ast.SelectorExpr)
			if !ok {
				return ""
			}
			id, ok := ast.Unparen(sel.X).(*ast.Ident)
			if !ok || info.ObjectOf(id) != recv {
				return ""
			}
			return sel.Sel.Name
		}
		type ctx struct {
			timec, action *int64
			object        *string
			exclud        []string
			bad           string
		}
		condLocals := map[types.Object]*[2][]sval{}
		var flatten func(e ast.Expr, out *[]sval)
		flatten = func(e ast.Expr, segs *[]sval) {
			e = ast.Unparen(e)
			if id, ok := e.(*ast.Ident); ok {
				if alt, ok := condLocals[info.ObjectOf(id)]; ok {
					*segs = append(*segs, sval{kind: "condextra", alt: alt})
					return
				}
			}
			if be, ok := e.(*ast.BinaryExpr); ok && be.Op == token.ADD {
				flatten(be.X, segs)
				flatten(be.Y, segs)
				return
			}
			if s, ok := constStr(info, e); ok {
				*segs = append(*segs, sval{kind: "lit", lit: s})
				return
			}
			switch fieldOfRecv(e) {
			case "Object":
				*segs = append(*segs, sval{kind: "obj"})
				return
			case "Extra":
				*segs = append(*segs, sval{kind: "extra"})
				return
			}
			if call, ok := e.(*ast.CallExpr); ok && len(call.Args) >= 1 {
				c := core.CalleeOf(info, call)
				if core.IsFunc(c, "strconv", "Itoa") || core.IsFunc(c, "strconv", "FormatUint") || core.IsFunc(c, "strconv", "FormatInt") {
					a := ast.Unparen(call.Args[0])
					for {
						if cv, ok := a.(*ast.CallExpr); ok && len(cv.Args) == 1 {
							if tv, ok := info.Types[cv.Fun]; ok && tv.IsType() {
								a = ast.Unparen(cv.Args[0])
								continue
							}
						}
						break
					}
					base10 := true
					if len(call.Args) == 2 {
						if v, _, ok := constInt(info, call.Args[1]); !ok || v != 10 {
							base10 = false
						}
					}
					if fieldOfRecv(a) == "Tick" && base10 {
						*segs = append(*segs, sval{kind: "tick"})
						return
					}
				}
			}
			*segs = append(*segs, sval{kind: "opaque", lit: types.ExprString(e)})
		}
		// a local that depends on whether Extra is empty:  x := <A>; if rule.Extra != "" { x = <B> }
		for i, st := range fd.Body.List {
			as, ok := st.(*ast.AssignStmt)
			if !ok || len(as.Lhs) != 1 || len(as.Rhs) != 1 || i+1 >= len(fd.Body.List) {
				continue
			}
			id, ok := as.Lhs[0].(*ast.Ident)
			if !ok {
				continue
			}
			ifs, ok := fd.Body.List[i+1].(*ast.IfStmt)
			if !ok || ifs.Else != nil || len(ifs.Body.List) != 1 {
				continue
			}
			be, ok := ast.Unparen(ifs.Cond).(*ast.BinaryExpr)
			if !ok || be.Op != token.NEQ || fieldOfRecv(be.X) != "Extra" {
				continue
			}
			if lit, ok := constStr(info, be.Y); !ok || lit != "" {
				continue
			}
			as2, ok := ifs.Body.List[0].(*ast.AssignStmt)
			if !ok || len(as2.Lhs) != 1 || len(as2.Rhs) != 1 {
				continue
			}
			if id2, ok := as2.Lhs[0].(*ast.Ident); !ok || info.ObjectOf(id2) != info.ObjectOf(id) {
				continue
			}
			var whenEmpty, whenSet []sval
			flatten(as.Rhs[0], &whenEmpty)
			flatten(as2.Rhs[0], &whenSet)
			condLocals[info.ObjectOf(id)] = &[2][]sval{whenSet, whenEmpty}
		}
		var walk func(stmts []ast.Stmt, c ctx)
		walk = func(stmts []ast.Stmt, c ctx) {
			for _, s := range stmts {
				switch x := s.(type) {
				case *ast.SwitchStmt:
					f := ""
					if x.Tag != nil {
						f = fieldOfRecv(x.Tag)
					}
					var seen []string
					for _, cl := range x.Body.List {
						cc := cl.(*ast.CaseClause)
						if len(cc.List) == 0 {
							nc := c
							if f == "Object" {
								nc.exclud = append(append([]string{}, c.exclud...), seen...)
							} else {
								nc.bad = "default case on " + f
							}
							walk(cc.Body, nc)
							continue
						}
						for _, v := range cc.List {
							nc := c
							switch f {
							case "Timec":
								if n, _, ok := constInt(info, v); ok {
									nc.timec = &n
								} else {
									nc.bad = "non-constant case"
								}
							case "Action":
								if n, _, ok := constInt(info, v); ok {
									nc.action = &n
								} else {
									nc.bad = "non-constant case"
								}
							case "Object":
								if sv, ok := constStr(info, v); ok {
									nc.object = &sv
									seen = append(seen, sv)
								} else {
									nc.bad = "non-constant case"
								}
							default:
								nc.bad = "switch on " + types.ExprString(x.Tag)
							}
							walk(cc.Body, nc)
						}
					}
				case *ast.ReturnStmt:
					if len(x.Results) != 1 {
						continue
					}
					if s, ok := constStr(info, x.Results[0]); ok && s == "" {
						continue // the fall-through "no textual form"
					}
					sc := strCase{pos: prog.Pos(x.Pos()), object: c.object, exclud: c.exclud, bad: c.bad}
					if c.timec == nil || c.action == nil {
						sc.bad = "return outside a (Timec, Action) case"
					} else {
						sc.timec, sc.action = *c.timec, *c.action
					}
					flatten(x.Results[0], &sc.segs)
					out = append(out, sc)
				case *ast.IfStmt:
					nc := c
					nc.bad = "if statement in Rule.String (only switch tables are interpreted)"
					walk(x.Body.List, nc)
					if b, ok := x.Else.(*ast.BlockStmt); ok {
						walk(b.List, nc)
					}
				case *ast.BlockStmt:
					walk(x.List, c)
				}
			}
		}
		walk(fd.Body.List, ctx{})
	})
	return out
}

// ---- (a) the inverse check -------------------------------------------------------------

func c15PrintParse(r *core.Run, shapes []addShape, cases []strCase) {
	used := map[int]bool{}
	for _, sh := range shapes {
		inst := fmt.Sprintf("C15/PRINTPARSE:add:%s=>(%s,%s)", sh.key(), sh.timecN, sh.actionN)
		if sh.bad != "" {
			r.Undecided("C15/PRINTPARSE", inst, sh.pos, "cannot interpret this Rule literal of Simbox.Add: "+sh.bad)
			continue
		}
		if sh.susp != "false" {
			r.Violation("C15/PRINTPARSE", inst, sh.pos, "Add builds a rule with Suspended="+sh.susp+"; a freshly added rule must be active")
			continue
		}
		// choose the String case
		ci := -1
		for i, c := range cases {
			if c.bad != "" || c.timec != sh.timec || c.action != sh.action {
				continue
			}
			if c.object != nil {
				if sh.object.kind == "lit" && sh.object.lit == *c.object {
					ci = i
					break
				}
				continue
			}
			// default / object-agnostic case
			if sh.object.kind == "lit" {
				ex := false
				for _, e := range c.exclud {
					if e == sh.object.lit {
						ex = true
					}
				}
				if ex {
					continue
				}
			}
			ci = i
			break
		}
		if ci < 0 {
			r.Violation("C15/PRINTPARSE", inst, sh.pos, fmt.Sprintf("Add accepts %q and builds (%s, %s) but Rule.String has no case for it: the rule prints as the empty string and is lost on save/print", sh.key(), sh.timecN, sh.actionN))
			continue
		}
		used[ci] = true
		c := cases[ci]
		// variants: a segment that depends on Extra being empty is printed both ways when Extra is an
		// input word (which may be empty), one way when Add fixes it to a constant
		type pvariant struct {
			segs []sval
			sh   addShape
			tag  string
		}
		hasCond := false
		for _, sg := range c.segs {
			if sg.kind == "condextra" {
				hasCond = true
			}
		}
		expand := func(which int) []sval {
			var o []sval
			for _, sg := range c.segs {
				if sg.kind == "condextra" {
					o = append(o, sg.alt[which]...)
				} else {
					o = append(o, sg)
				}
			}
			return o
		}
		variants := []pvariant{{c.segs, sh, ""}}
		if hasCond {
			switch {
			case sh.extra.kind == "lit" && sh.extra.lit == "":
				variants = []pvariant{{expand(1), sh, ""}}
			case sh.extra.kind == "lit":
				variants = []pvariant{{expand(0), sh, ""}}
			default:
				shE := sh
				shE.extra = sval{kind: "lit", lit: ""}
				variants = []pvariant{{expand(0), sh, ""}, {expand(1), shE, "[last word empty]"}}
			}
		}
		baseInst := inst
		for _, pv := range variants {
			inst := baseInst + pv.tag
			sh := pv.sh
			// print symbolically, then split on ':'
			var wordsOut [][]sval
			cur := []sval{}
			opaque := ""
			for _, sg := range pv.segs {
				switch sg.kind {
				case "lit":
					parts := strings.Split(sg.lit, ":")
					for k, p := range parts {
						if k > 0 {
							wordsOut = append(wordsOut, cur)
							cur = []sval{}
						}
						if p != "" {
							cur = append(cur, sval{kind: "lit", lit: p})
						}
					}
				case "tick":
					cur = append(cur, sh.tick) // atoi(i) prints back the digits of words[i] (modulo leading zeros/sign)
				case "obj":
					cur = append(cur, sh.object)
				case "extra":
					cur = append(cur, sh.extra)
				default:
					opaque = sg.lit
				}
			}
			wordsOut = append(wordsOut, cur)
			if opaque != "" {
				r.Undecided("C15/PRINTPARSE", inst, c.pos, "Rule.String segment not interpretable: "+opaque)
				continue
			}
			// normalise each printed word: concatenation of literals, or a single symbol
			printed := make([]sval, len(wordsOut))
			okw := true
			for i, w := range wordsOut {
				lit := ""
				var symv *sval
				for _, p := range w {
					p := p
					if p.kind == "lit" {
						lit += p.lit
					} else {
						if symv != nil || lit != "" {
							okw = false
						}
						symv = &p
					}
				}
				if symv != nil {
					if lit != "" {
						okw = false
					}
					printed[i] = *symv
				} else {
					printed[i] = sval{kind: "lit", lit: lit}
				}
			}
			if !okw {
				r.Undecided("C15/PRINTPARSE", inst, c.pos, "printed form mixes literal text and a field inside one ':'-separated word")
				continue
			}
			// a trailing empty literal word stays a word for strings.Split ("config:show_pc:" has 3 words)
			// re-parse: find the Add shapes whose conditions hold on `printed`
			var matches []addShape
			for _, cand := range shapes {
				if cand.bad != "" || cand.nwords != len(printed) {
					continue
				}
				ok := true
				for i, l := range cand.kw {
					if i >= len(printed) || printed[i].kind != "lit" || printed[i].lit != l {
						ok = false
					}
				}
				for i := range cand.atoi {
					if i >= len(printed) {
						ok = false
						continue
					}
					p := printed[i]
					if p.kind == "atoi" {
						continue
					}
					if p.kind == "lit" {
						if _, err := strconv.Atoi(p.lit); err == nil {
							continue
						}
					}
					ok = false
				}
				if ok {
					matches = append(matches, cand)
					break // first full match in source order wins
				}
			}
			ptxt := make([]string, len(printed))
			for i, p := range printed {
				switch p.kind {
				case "lit":
					ptxt[i] = p.lit
				case "word":
					ptxt[i] = fmt.Sprintf("<w%d>", p.idx)
				case "atoi":
					ptxt[i] = fmt.Sprintf("<n%d>", p.idx)
				}
			}
			ptext := strings.Join(ptxt, ":")
			if len(matches) == 0 {
				r.Violation("C15/PRINTPARSE", inst, c.pos, fmt.Sprintf("rule built from %q prints as %q, which Simbox.Add does not accept: print-then-parse loses the rule", sh.key(), ptext))
				continue
			}
			m := matches[0]
			resolve := func(v sval) sval { // value of a field of the re-parsed rule in terms of the ORIGINAL input words
				switch v.kind {
				case "word":
					return printed[v.idx]
				case "atoi":
					p := printed[v.idx]
					if p.kind == "atoi" {
						return p
					}
					if p.kind == "lit" {
						if n, err := strconv.Atoi(p.lit); err == nil {
							return sval{kind: "lit", lit: strconv.Itoa(n)}
						}
					}
					return sval{kind: "opaque"}
				}
				return v
			}
			same := func(a, b sval) bool {
				return a.kind == b.kind && a.lit == b.lit && a.idx == b.idx && a.kind != "opaque"
			}
			var diffs []string
			if m.timec != sh.timec {
				diffs = append(diffs, fmt.Sprintf("Timec %s→%s", sh.timecN, m.timecN))
			}
			if m.action != sh.action {
				diffs = append(diffs, fmt.Sprintf("Action %s→%s", sh.actionN, m.actionN))
			}
			if !same(resolve(m.tick), sh.tick) {
				diffs = append(diffs, fmt.Sprintf("Tick %v→%v", sh.tick, resolve(m.tick)))
			}
			if !same(resolve(m.object), sh.object) {
				diffs = append(diffs, fmt.Sprintf("Object %v→%v", sh.object, resolve(m.object)))
			}
			if !same(resolve(m.extra), sh.extra) {
				diffs = append(diffs, fmt.Sprintf("Extra %v→%v", sh.extra, resolve(m.extra)))
			}
			if len(diffs) > 0 {
				r.Violation("C15/PRINTPARSE", inst, c.pos, fmt.Sprintf("rule built from %q%s prints as %q, which parses back to a different rule: %s", sh.key(), pv.tag, ptext, strings.Join(diffs, ", ")))
			} else {
				r.OK("C15/PRINTPARSE", inst, sh.pos, fmt.Sprintf("prints as %q, re-accepted by shape %q with equal fields", ptext, m.key()))
			}
		}
	}
	for i, c := range cases {
		inst := fmt.Sprintf("C15/PRINTPARSE:string:(%d,%d,%v)", c.timec, c.action, derefS(c.object))
		if c.bad != "" {
			r.Undecided("C15/PRINTPARSE", inst, c.pos, "cannot interpret this return of Rule.String: "+c.bad)
		} else if !used[i] {
			r.Note("C15/PRINTPARSE", inst, c.pos, "Rule.String case not produced by any Add shape (dead print form)")
		}
	}
}

func derefS(s *string) string {
	if s == nil {
		return "*"
	}
	return *s
}

// ---- (b) suspended rules are skipped by every consumer ------------------------------------------

func isRulesField(v *types.Var) bool { return core.IsField(v, "pkg/simbox", "Rules") }

func c15Suspended(r *core.Run, prog *core.Program, sb *packages.Package) {
	nLoops := 0
	for _, pk := range prog.Pkgs {
		if pk == sb {
			continue // pkg/simbox's own bookkeeping must see suspended rules
		}
		info := pk.TypesInfo
		core.FuncDecls(pk, func(_ *ast.File, fd *ast.FuncDecl) {
			var g = buildCFG(info, fd.Body)
			loopN := 0
			rangeX := map[ast.Expr]bool{}
			ast.Inspect(fd.Body, func(n ast.Node) bool {
				rs, ok := n.(*ast.RangeStmt)
				if !ok || !isRulesField(core.FieldOf(info, rs.X)) {
					return true
				}
				rangeX[ast.Unparen(rs.X)] = true
				nLoops++
				loopN++
				inst := fmt.Sprintf("C15/SUSPENDED:%s:loop%d", core.FuncKey(pk, fd), loopN)
				pos := prog.Pos(rs.Pos())
				vid, _ := rs.Value.(*ast.Ident)
				if vid == nil || vid.Name == "_" {
					// index-only loop: every element access must be preceded by a test; handled below as raw index uses
					kid, _ := rs.Key.(*ast.Ident)
					if kid == nil || kid.Name == "_" {
						r.OK("C15/SUSPENDED", inst, pos, "loop does not look at the rules (count only)")
						return true
					}
					r.Undecided("C15/SUSPENDED", inst, pos, "loop over Simbox.Rules by index; the Suspended discipline is only decided for `for _, rule := range`")
					return true
				}
				obj := info.ObjectOf(vid)
				entry, region := rangeBodyRegion(g, rs)
				if entry == nil {
					r.Undecided("C15/SUSPENDED", inst, pos, "no CFG block for the loop body")
					return true
				}
				isSusp := func(e ast.Expr) bool {
					sel, ok := ast.Unparen(e).(*ast.SelectorExpr)
					if !ok || sel.Sel.Name != "Suspended" {
						return false
					}
					id, ok := ast.Unparen(sel.X).(*ast.Ident)
					return ok && info.ObjectOf(id) == obj
				}
				pol := func(c ast.Expr) int {
					c = ast.Unparen(c)
					if isSusp(c) {
						return -1 // guard (not suspended) holds on the FALSE edge
					}
					if be, ok := c.(*ast.BinaryExpr); ok && (be.Op == token.EQL || be.Op == token.NEQ) && isSusp(be.X) {
						if id, ok := ast.Unparen(be.Y).(*ast.Ident); ok && (id.Name == "false" || id.Name == "true") {
							if (id.Name == "false") == (be.Op == token.EQL) {
								return +1
							}
							return -1
						}
					}
					return 0
				}
				good := guardedBlocks(g, entry, region, pol)
				var bad []string
				for b := range region {
					if good[b] {
						continue
					}
					for _, n := range b.Nodes {
						ast.Inspect(n, func(m ast.Node) bool {
							if sel, ok := m.(*ast.SelectorExpr); ok && isSusp(sel) {
								return false // the test itself
							}
							if id, ok := m.(*ast.Ident); ok && info.Uses[id] == obj {
								bad = append(bad, prog.Pos(id.Pos()))
							}
							return true
						})
					}
				}
				sort.Strings(bad)
				if len(bad) == 0 {
					r.OK("C15/SUSPENDED", inst, pos, "every use of the rule is dominated by the not-suspended edge of a Suspended test")
				} else {
					r.Violation("C15/SUSPENDED", inst, pos, fmt.Sprintf("consumer of Simbox.Rules in %s uses the rule without having skipped suspended ones (first unguarded use at %s): a suspended rule still takes effect here", core.FuncKey(pk, fd), r.Rel(bad[0])))
				}
				return true
			})
			// raw index reads X.Rules[i] outside a range header
			ast.Inspect(fd.Body, func(n ast.Node) bool {
				ie, ok := n.(*ast.IndexExpr)
				if !ok || !isRulesField(core.FieldOf(info, ie.X)) {
					return true
				}
				nLoops++
				r.Undecided("C15/SUSPENDED", fmt.Sprintf("C15/SUSPENDED:%s:index", core.FuncKey(pk, fd)), prog.Pos(ie.Pos()), "direct index into Simbox.Rules outside pkg/simbox; the Suspended discipline is only decided for range loops")
				return true
			})
		})
	}
	r.Count("rules_consumer_loops", nLoops)
}

// ---- (c) handlers and table readers -------------------------------------------------------------

func c15Handlers(r *core.Run, prog *core.Program, sb *packages.Package, shapes []addShape) {
	// classes and config objects produced by Add
	type class struct{ t, a int64 }
	classes := map[class]addShape{}
	configObjs := map[string]addShape{}
	var actionConfig, timecNone int64 = -1, -1
	if o, ok := sb.Types.Scope().Lookup("ACTION_CONFIG").(*types.Const); ok {
		actionConfig, _ = constant.Int64Val(o.Val())
	}
	if o, ok := sb.Types.Scope().Lookup("TIMEC_NONE").(*types.Const); ok {
		timecNone, _ = constant.Int64Val(o.Val())
	}
	for _, sh := range shapes {
		if sh.bad != "" {
			continue
		}
		classes[class{sh.timec, sh.action}] = sh
		if sh.action == actionConfig && sh.timec == timecNone && sh.object.kind == "lit" {
			configObjs[sh.object.lit] = sh
		}
	}
	// consumers: functions outside pkg/simbox that range over Simbox.Rules
	handled := map[class]string{}
	handledObj := map[string]string{}
	for _, pk := range prog.Pkgs {
		if pk == sb {
			continue
		}
		info := pk.TypesInfo
		core.FuncDecls(pk, func(_ *ast.File, fd *ast.FuncDecl) {
			ast.Inspect(fd.Body, func(n ast.Node) bool {
				rs, ok := n.(*ast.RangeStmt)
				if !ok || !isRulesField(core.FieldOf(info, rs.X)) {
					return true
				}
				vid, _ := rs.Value.(*ast.Ident)
				if vid == nil {
					return true
				}
				obj := info.ObjectOf(vid)
				fieldCmp := func(e ast.Expr, field string) (int64, bool) {
					be, ok := ast.Unparen(e).(*ast.BinaryExpr)
					if !ok || be.Op != token.EQL {
						return 0, false
					}
					sel, ok := ast.Unparen(be.X).(*ast.SelectorExpr)
					if !ok || sel.Sel.Name != field {
						return 0, false
					}
					if id, ok := ast.Unparen(sel.X).(*ast.Ident); !ok || info.ObjectOf(id) != obj {
						return 0, false
					}
					v, _, ok := constInt(info, be.Y)
					return v, ok
				}
				var conj func(e ast.Expr, out *[]ast.Expr)
				conj = func(e ast.Expr, out *[]ast.Expr) {
					e = ast.Unparen(e)
					if be, ok := e.(*ast.BinaryExpr); ok && be.Op == token.LAND {
						conj(be.X, out)
						conj(be.Y, out)
						return
					}
					*out = append(*out, e)
				}
				noteCond := func(cond ast.Expr, at token.Pos) {
					var cs []ast.Expr
					conj(cond, &cs)
					var t, a *int64
					for _, c := range cs {
						if v, ok := fieldCmp(c, "Timec"); ok {
							v := v
							t = &v
						}
						if v, ok := fieldCmp(c, "Action"); ok {
							v := v
							a = &v
						}
					}
					if t != nil && a != nil {
						if _, dup := handled[class{*t, *a}]; !dup {
							handled[class{*t, *a}] = prog.Pos(at)
						}
					} else if a != nil {
						for c := range classes {
							if c.a == *a {
								if _, dup := handled[c]; !dup {
									handled[c] = prog.Pos(at)
								}
							}
						}
					}
				}
				ast.Inspect(rs.Body, func(m ast.Node) bool {
					switch x := m.(type) {
					case *ast.SwitchStmt:
						// `switch { case rule.Timec == T && rule.Action == A: … }` and
						// `switch rule.Action { case A: … }`: the same comparisons as the if-form
						if x.Tag == nil {
							for _, cl := range x.Body.List {
								for _, v := range cl.(*ast.CaseClause).List {
									noteCond(v, v.Pos())
								}
							}
							return true
						}
						if sel, ok := ast.Unparen(x.Tag).(*ast.SelectorExpr); ok && sel.Sel.Name == "Action" {
							if id, ok := ast.Unparen(sel.X).(*ast.Ident); ok && info.ObjectOf(id) == obj {
								for _, cl := range x.Body.List {
									for _, v := range cl.(*ast.CaseClause).List {
										noteCond(&ast.BinaryExpr{X: x.Tag, Op: token.EQL, Y: v}, v.Pos())
									}
								}
							}
						}
					}
					switch x := m.(type) {
					case *ast.IfStmt:
						var cs []ast.Expr
						conj(x.Cond, &cs)
						var t, a *int64
						for _, c := range cs {
							if v, ok := fieldCmp(c, "Timec"); ok {
								v := v
								t = &v
							}
							if v, ok := fieldCmp(c, "Action"); ok {
								v := v
								a = &v
							}
						}
						if t != nil && a != nil {
							if _, dup := handled[class{*t, *a}]; !dup {
								handled[class{*t, *a}] = prog.Pos(x.Pos())
							}
						} else if a != nil {
							// class-agnostic in time (e.g. evolutionary: any ACTION_SET)
							for c := range classes {
								if c.a == *a {
									if _, dup := handled[c]; !dup {
										handled[c] = prog.Pos(x.Pos())
									}
								}
							}
						}
					case *ast.IndexExpr:
						// lookup-table form: options := map[string]*bool{"show_ticks": &sc.ShowTicks, ...}; options[rule.Object]
						sel, ok := ast.Unparen(x.Index).(*ast.SelectorExpr)
						if !ok || sel.Sel.Name != "Object" {
							return true
						}
						if id, ok := ast.Unparen(sel.X).(*ast.Ident); !ok || info.ObjectOf(id) != obj {
							return true
						}
						tid, ok := ast.Unparen(x.X).(*ast.Ident)
						if !ok {
							return true
						}
						tobj := info.ObjectOf(tid)
						ast.Inspect(fd.Body, func(k ast.Node) bool {
							as, ok := k.(*ast.AssignStmt)
							if !ok || len(as.Lhs) != 1 || len(as.Rhs) != 1 {
								return true
							}
							lid, ok := as.Lhs[0].(*ast.Ident)
							if !ok || info.ObjectOf(lid) != tobj {
								return true
							}
							cl, ok := as.Rhs[0].(*ast.CompositeLit)
							if !ok {
								return true
							}
							for _, e := range cl.Elts {
								if kv, ok := e.(*ast.KeyValueExpr); ok {
									if s, ok := constStr(info, kv.Key); ok {
										if _, dup := handledObj[s]; !dup {
											handledObj[s] = prog.Pos(kv.Key.Pos())
										}
									}
								}
							}
							return true
						})
					case *ast.SwitchStmt:
						if x.Tag == nil {
							return true
						}
						sel, ok := ast.Unparen(x.Tag).(*ast.SelectorExpr)
						if !ok || sel.Sel.Name != "Object" {
							return true
						}
						if id, ok := ast.Unparen(sel.X).(*ast.Ident); !ok || info.ObjectOf(id) != obj {
							return true
						}
						for _, cl := range x.Body.List {
							cc := cl.(*ast.CaseClause)
							for _, v := range cc.List {
								if s, ok := constStr(info, v); ok {
									if _, dup := handledObj[s]; !dup {
										handledObj[s] = prog.Pos(v.Pos())
									}
								}
							}
						}
					}
					return true
				})
				return true
			})
		})
	}
	var cl []class
	for c := range classes {
		cl = append(cl, c)
	}
	sort.Slice(cl, func(i, j int) bool {
		if cl[i].t != cl[j].t {
			return cl[i].t < cl[j].t
		}
		return cl[i].a < cl[j].a
	})
	for _, c := range cl {
		sh := classes[c]
		inst := fmt.Sprintf("C15/HANDLER:class:(%s,%s)", sh.timecN, sh.actionN)
		if pos, ok := handled[c]; ok {
			r.OK("C15/HANDLER", inst, pos, "a consumer of Simbox.Rules compares against this class")
		} else {
			r.Violation("C15/HANDLER", inst, sh.pos, fmt.Sprintf("Simbox.Add accepts rules of class (%s, %s) but no consumer of Simbox.Rules ever compares against it: such a rule is accepted and has no effect", sh.timecN, sh.actionN))
		}
	}
	var objs []string
	for o := range configObjs {
		objs = append(objs, o)
	}
	sort.Strings(objs)
	for _, o := range objs {
		inst := "C15/HANDLER:config:" + o
		if pos, ok := handledObj[o]; ok {
			r.OK("C15/HANDLER", inst, pos, "config option has a case in a consumer")
		} else {
			r.Violation("C15/HANDLER", inst, configObjs[o].pos, fmt.Sprintf("config option %q is accepted by Simbox.Add but no consumer has a case for it", o))
		}
	}
	// the reverse: a consumer case for an option Add can never produce is dead (typo on one side)
	var hobjs []string
	for o := range handledObj {
		hobjs = append(hobjs, o)
	}
	sort.Strings(hobjs)
	for _, o := range hobjs {
		if _, ok := configObjs[o]; !ok {
			r.Violation("C15/HANDLER", "C15/HANDLER:deadcase:"+o, handledObj[o], fmt.Sprintf("a consumer handles config option %q, which Simbox.Add never produces (spelling disagreement between the grammar and the consumer)", o))
		} else {
			r.OK("C15/HANDLER", "C15/HANDLER:deadcase:"+o, handledObj[o], "consumer case matches an option of the grammar")
		}
	}
	r.Count("rule_classes", len(cl))
	r.Count("config_options", len(objs))

	// TABLEREAD: fields of the Sim* structs that an Init method fills must be read by someone else
	nTab := 0
	for _, rel := range []string{"pkg/bondmachine", "pkg/procbuilder"} {
		pk := prog.Pkg(rel)
		if pk == nil {
			continue
		}
		info := pk.TypesInfo
		// structs: receivers of methods named Init that take a *simbox.Simbox parameter
		core.FuncDecls(pk, func(_ *ast.File, fd *ast.FuncDecl) {
			if fd.Name.Name != "Init" || fd.Recv == nil {
				return
			}
			takesSimbox := false
			for _, p := range fd.Type.Params.List {
				if t := info.TypeOf(p.Type); t != nil && strings.HasSuffix(t.String(), "pkg/simbox.Simbox") {
					takesSimbox = true
				}
			}
			if !takesSimbox {
				return
			}
			recvName := core.RecvTypeName(info, fd)
			written := map[*types.Var]token.Pos{}
			ast.Inspect(fd.Body, func(n ast.Node) bool {
				if ue, ok := n.(*ast.UnaryExpr); ok && ue.Op == token.AND {
					// &sc.Field put into a lookup table: written through the pointer
					if f := core.FieldOf(info, ue.X); f != nil {
						if _, ok := written[f]; !ok {
							written[f] = ue.Pos()
						}
					}
					return true
				}
				as, ok := n.(*ast.AssignStmt)
				if !ok {
					return true
				}
				for _, l := range as.Lhs {
					if f := core.FieldOf(info, l); f != nil {
						if _, ok := written[f]; !ok {
							written[f] = l.Pos()
						}
					}
				}
				return true
			})
			var fl []*types.Var
			for f := range written {
				fl = append(fl, f)
			}
			sort.Slice(fl, func(i, j int) bool { return fl[i].Name() < fl[j].Name() })
			for _, f := range fl {
				nTab++
				inst := fmt.Sprintf("C15/TABLEREAD:%s.%s.%s", rel, recvName, f.Name())
				if why, ok := c15AuxiliaryTables[rel+"."+recvName+"."+f.Name()]; ok {
					r.Note("C15/TABLEREAD", inst, prog.Pos(written[f]), "benign exception: "+why)
					continue
				}
				if readPos := fieldReadOutside(prog, f, fd); readPos != "" {
					r.OK("C15/TABLEREAD", inst, readPos, "table filled by Init is read here")
				} else {
					r.Violation("C15/TABLEREAD", inst, prog.Pos(written[f]), fmt.Sprintf("%s.Init compiles rules into field %s, which nothing else ever reads: the rules behind it are accepted and have no effect", recvName, f.Name()))
				}
			}
		})
	}
	r.Count("init_tables", nTab)
}

// c15AuxiliaryTables: fields an Init fills that carry no rule effect (one named field, one reason).
var c15AuxiliaryTables = map[string]string{
	"pkg/bondmachine.SimReport.ShowablesNames": "label list parallel to Showables, used only by the String() dump; what a show rule prints is driven by Showables/ShowablesTypes",
}

// fieldReadOutside finds a read of field f (not the LHS of an assignment) in any
// function other than `except`.
func fieldReadOutside(prog *core.Program, f *types.Var, except *ast.FuncDecl) string {
	for _, pk := range prog.Pkgs {
		info := pk.TypesInfo
		found := ""
		core.FuncDecls(pk, func(_ *ast.File, fd *ast.FuncDecl) {
			if fd == except || found != "" {
				return
			}
			// fmt.Stringer implementations only dump the table; a read there does not
			// make the rules behind it take effect.
			if fd.Name.Name == "String" && fd.Recv != nil {
				return
			}
			lhs := map[ast.Expr]bool{}
			ast.Inspect(fd.Body, func(n ast.Node) bool {
				if as, ok := n.(*ast.AssignStmt); ok && as.Tok == token.ASSIGN {
					for _, l := range as.Lhs {
						lhs[ast.Unparen(l)] = true
					}
				}
				return true
			})
			ast.Inspect(fd.Body, func(n ast.Node) bool {
				sel, ok := n.(*ast.SelectorExpr)
				if !ok || found != "" {
					return true
				}
				if core.FieldOf(info, sel) == f && !lhs[sel] {
					found = prog.Pos(sel.Pos())
				}
				return true
			})
		})
		if found != "" {
			return found
		}
	}
	return ""
}

// c15RulePure (C15/RULEPURE): a rule is applied exactly as written only if nobody rewrites it on the
// way: outside pkg/simbox (which parses and edits the list on the user's behalf) no code may assign to
// a field of a simbox.Rule — neither of an element of Simbox.Rules nor of the loop's copy, since the
// consumer then interprets the rewritten copy (a tick moved, an object renamed).
func c15RulePure(r *core.Run, prog *core.Program) {
	n, bad := 0, 0
	for _, pk := range prog.Pkgs {
		if strings.HasSuffix(pk.PkgPath, "pkg/simbox") {
			continue
		}
		info := pk.TypesInfo
		uses := false
		for _, imp := range pk.Types.Imports() {
			if strings.HasSuffix(imp.Path(), "pkg/simbox") {
				uses = true
			}
		}
		if !uses {
			continue
		}
		core.FuncDecls(pk, func(_ *ast.File, fd *ast.FuncDecl) {
			k := 0
			ast.Inspect(fd.Body, func(nd ast.Node) bool {
				var lhs []ast.Expr
				switch x := nd.(type) {
				case *ast.AssignStmt:
					lhs = x.Lhs
				case *ast.IncDecStmt:
					lhs = []ast.Expr{x.X}
				default:
					return true
				}
				for _, l := range lhs {
					sel, ok := ast.Unparen(l).(*ast.SelectorExpr)
					if !ok {
						continue
					}
					f := core.FieldOf(info, sel)
					if f == nil || f.Pkg() == nil || !strings.HasSuffix(f.Pkg().Path(), "pkg/simbox") {
						continue
					}
					// a field of the struct type Rule
					t := info.TypeOf(sel.X)
					if p, ok := t.(*types.Pointer); ok {
						t = p.Elem()
					}
					nm, ok := t.(*types.Named)
					if !ok || nm.Obj().Name() != "Rule" {
						continue
					}
					// building a fresh rule (a local declared as a Rule value/literal in this function and not a range copy) is allowed
					if id, ok := ast.Unparen(sel.X).(*ast.Ident); ok {
						if freshRuleLocal(info, fd, id) {
							continue
						}
					}
					k++
					bad++
					r.Violation("C15/RULEPURE", fmt.Sprintf("C15/RULEPURE:%s:%s#%d", core.FuncKey(pk, fd), f.Name(), k), prog.Pos(l.Pos()), fmt.Sprintf("%s assigns to %s of a simulation rule before interpreting it: the rule that takes effect is not the rule that was written (e.g. a tick moved), for every rule that satisfies the condition of the assignment", core.FuncKey(pk, fd), types.ExprString(l)))
				}
				return true
			})
			n++
		})
	}
	if bad == 0 {
		r.OK("C15/RULEPURE", "C15/RULEPURE:none", "", "no code outside pkg/simbox assigns to a field of a simbox.Rule it did not build itself")
	}
	r.Count("functions_scanned_for_rule_writes", n)
}

// freshRuleLocal: id is a local variable of this function that is not the key/value of a range
// statement nor a parameter (a rule being built, e.g. for an observation simbox).
func freshRuleLocal(info *types.Info, fd *ast.FuncDecl, id *ast.Ident) bool {
	o := info.ObjectOf(id)
	if o == nil {
		return false
	}
	isRange, isParam := false, false
	for _, p := range fd.Type.Params.List {
		for _, n := range p.Names {
			if info.ObjectOf(n) == o {
				isParam = true
			}
		}
	}
	ast.Inspect(fd.Body, func(n ast.Node) bool {
		if rs, ok := n.(*ast.RangeStmt); ok {
			for _, e := range []ast.Expr{rs.Key, rs.Value} {
				if rid, ok := e.(*ast.Ident); ok && info.ObjectOf(rid) == o {
					isRange = true
				}
			}
		}
		return true
	})
	return !isRange && !isParam
}
