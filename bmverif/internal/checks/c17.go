package checks

import (
	"fmt"
	"go/types"
	"sort"
	"strings"

	"bmverif/internal/core"
	"golang.org/x/tools/go/ssa"
)

func init() {
	register("C17", checkC17)
	describe("C17", Meta{
		Technique: "goroutine-lifecycle analysis on go/ssa: exit reachability of every launched body, join/stop issued on every returning path of the launcher, constructor/release pairing over the call graph, exit-token counting against launched receivers",
		Claim:     "Decides the structural leak clauses of C17 for every go statement in the simulation, tuning and requirement-engine packages: the goroutine body has a reachable return (W1), the launcher joins/stops it on every returning path (W2), an owner type that starts a goroutine in its constructor has its release method called wherever the owner does not escape (W3), exit tokens match the launched receivers, and a goroutine waiting on a channel only its launcher can release is released on every returning path of the launcher (UNBLOCK). RETAIN: nothing reachable from the simulation entry points inserts into a package-level map/sync.Map under a pointer key or appends to a package-level slice (state that grows with the number of simulations). A necessary condition for 'no workers left behind'; memory retained otherwise and exits that exist but are never taken for dynamic reasons are not decided. (ABANDON) a goroutine's blocking send/receive on a channel field has a counterpart that cannot walk away (is not in a select with an alternative).",
		Note:      "Scope is by package (pkg/bondmachine, pkg/procbuilder, pkg/bmreqs, pkg/basm, pkg/simbox, cmd/simfinetune, cmd/bondmachine); network daemons (etherbond, udpbond, brvga, bmapi templates) are long-lived by design and out of scope.",
		DesignRef: "DESIGN.md §2 C17",
	})
}

var c17Scope = []string{"pkg/bondmachine", "pkg/procbuilder", "pkg/bmreqs", "pkg/basm", "pkg/simbox", "cmd/simfinetune", "cmd/bondmachine", "cmd/basm", "cmd/simbox"}

func checkC17(r *core.Run) {
	r.Explanation = "Decides structural clauses of C17 on the SSA form: W1 every goroutine launched from the simulation / tuning / requirement-engine packages has a reachable return; W2 launchers that own a done channel join it on every returning path; W3 every constructor that starts a goroutine and returns its owner (bmreqs.NewReqRoot) has the owner's release method called or the owner escapes to a holder that calls it; exit tokens sent equal exit receivers launched. " +
		"Does NOT decide: retained memory, goroutines blocked for dynamic reasons, the constant c of the property."
	prog := r.Load(core.LoadConfig{SSA: true})
	if prog == nil {
		return
	}
	chanJoinOrder(r, prog, "C17", c17Scope)
	releasePairing(r, prog, "C17")
	exitTokens(r, prog, "C17", c17Scope)
	c17Retain(r, prog)
	c17Abandon(r, prog, []string{"pkg/bmreqs", "pkg/bondmachine", "pkg/procbuilder", "pkg/basm", "pkg/simbox", "cmd/simfinetune", "cmd/bondmachine"})
}

// entry points of "a simulation" for the retention clause
var c17Entries = []struct{ rel, recv, name string }{
	{"pkg/bondmachine", "Bondmachine", "SinglePipelineSimulate"},
	{"pkg/bondmachine", "Bondmachine", "Fitness_default"},
	{"pkg/bondmachine", "VM", "Init"},
	{"pkg/bondmachine", "VM", "Step"},
	{"pkg/bondmachine", "VM", "Launch_processors"},
	{"pkg/procbuilder", "VM", "Step"},
}

// c17Retain (C17/RETAIN): "no more retained simulator state than before the first one". On everything
// reachable (CHA, module functions) from the simulation entry points, a package-level container may not
// grow with the number of simulations: reported are (a) an insertion into a package-level map or
// sync.Map whose key is a pointer (one entry per object — and the objects of a simulation are allocated
// per simulation), and (b) an append to a package-level slice. Insertions keyed by value (a type name, an
// opcode name) are bounded by the number of distinct keys and are noted only.
func c17Retain(r *core.Run, prog *core.Program) {
	cg := prog.CHA()
	reach := map[*ssa.Function]bool{}
	var queue []*ssa.Function
	for _, e := range c17Entries {
		for _, fn := range methodsNamed(prog, e.rel, e.name) {
			if strings.Contains(core.SSAFuncKey(fn), "."+e.recv+".") && !reach[fn] {
				reach[fn] = true
				queue = append(queue, fn)
			}
		}
	}
	nEntries := len(queue)
	for len(queue) > 0 {
		fn := queue[0]
		queue = queue[1:]
		if n := cg.Nodes[fn]; n != nil {
			for _, e := range n.Out {
				c := e.Callee.Func
				if c != nil && core.InModule(c) && !reach[c] {
					reach[c] = true
					queue = append(queue, c)
				}
			}
		}
	}
	r.Count("retention_entry_points", nEntries)
	r.Count("functions_on_simulation_path", len(reach))
	globalOf := func(v ssa.Value) *ssa.Global {
		for i := 0; i < 6; i++ {
			switch x := v.(type) {
			case *ssa.Global:
				return x
			case *ssa.UnOp:
				v = x.X
			case *ssa.FieldAddr:
				v = x.X
			case *ssa.IndexAddr:
				v = x.X
			default:
				return nil
			}
		}
		return nil
	}
	isPtrKey := func(v ssa.Value) bool {
		v = stripConvKeepIface(v)
		_, ok := v.Type().Underlying().(*types.Pointer)
		return ok
	}
	var fns []*ssa.Function
	for fn := range reach {
		fns = append(fns, fn)
	}
	sort.Slice(fns, func(i, j int) bool { return fns[i].String() < fns[j].String() })
	bad, noted := 0, 0
	seen := map[string]bool{}
	for _, fn := range fns {
		// package initialisers run once per process, whatever the call graph says about them
		if fn.Synthetic != "" || fn.Name() == "init" || strings.HasPrefix(fn.Name(), "init#") {
			continue
		}
		for _, b := range fn.Blocks {
			for _, ins := range b.Instrs {
				var g *ssa.Global
				what := ""
				ptr := false
				switch x := ins.(type) {
				case *ssa.MapUpdate:
					g = globalOf(x.Map)
					what, ptr = "map insertion", isPtrKey(x.Key)
				case *ssa.Store:
					if gl, ok := x.Addr.(*ssa.Global); ok {
						if call, ok := x.Val.(*ssa.Call); ok {
							if bi, ok := call.Call.Value.(*ssa.Builtin); ok && bi.Name() == "append" {
								g, what, ptr = gl, "append", true
								// add-if-absent: the function first walks the same slice and returns when
								// it finds the element — bounded by the number of distinct elements
								searchAndReturn := false
								for _, b2 := range fn.Blocks {
									for _, i2 := range b2.Instrs {
										ia, ok := i2.(*ssa.IndexAddr)
										if !ok || !blockInCycle(b2) {
											continue
										}
										if u, ok := ia.X.(*ssa.UnOp); !ok || u.X != ssa.Value(gl) {
											continue
										}
										// a successor outside the loop that returns: the element was found
										for _, sc := range b2.Succs {
											if blockInCycle(sc) {
												continue
											}
											for _, i3 := range sc.Instrs {
												if _, ok := i3.(*ssa.Return); ok {
													searchAndReturn = true
												}
											}
										}
									}
								}
								if searchAndReturn {
									ptr = false
									what = "append guarded by a search of the same slice that returns when the element is present (add-if-absent)"
								}
							}
						}
					}
				case ssa.CallInstruction:
					cc := x.Common()
					if c := cc.StaticCallee(); c != nil && c.Pkg != nil && c.Pkg.Pkg.Path() == "sync" && len(cc.Args) >= 2 {
						switch c.Name() {
						case "Store", "LoadOrStore", "Swap":
							g = globalOf(cc.Args[0])
							what, ptr = "sync.Map insertion", isPtrKey(cc.Args[1])
						}
					}
				}
				if g == nil || !strings.HasPrefix(g.Pkg.Pkg.Path(), core.ModPath) {
					continue
				}
				gname := strings.TrimPrefix(g.Pkg.Pkg.Path(), core.ModPath+"/") + "." + g.Name()
				inst := fmt.Sprintf("C17/RETAIN:%s in %s", gname, core.SSAFuncKey(fn))
				if seen[inst] {
					continue
				}
				seen[inst] = true
				if ptr {
					bad++
					r.Violation("C17/RETAIN", inst, prog.Pos(ins.Pos()), fmt.Sprintf("%s (%s), reachable from a simulation entry point, adds to the package-level container %s one entry per object: the objects of a simulation (VMs, per-processor delay distributions, …) are allocated per simulation, so the container — and everything its entries point to — grows with the number of simulations and is never released", core.SSAFuncKey(fn), what, gname))
				} else {
					noted++
					r.Note("C17/RETAIN", inst, prog.Pos(ins.Pos()), what+" keyed by value: bounded by the number of distinct keys, not by the number of simulations")
				}
			}
		}
	}
	if bad == 0 {
		r.OK("C17/RETAIN", "C17/RETAIN:none", "", "no package-level container on the simulation path grows per object or per call")
	}
	r.Count("global_container_insertions_on_simulation_path", bad+noted)
}

// stripConvKeepIface strips conversions and the interface boxing of a sync.Map key.
func stripConvKeepIface(v ssa.Value) ssa.Value {
	for {
		switch x := v.(type) {
		case *ssa.MakeInterface:
			v = x.X
		case *ssa.ChangeType:
			v = x.X
		case *ssa.ChangeInterface:
			v = x.X
		default:
			return v
		}
	}
}
