package checks

import (
	"fmt"
	"go/ast"
	"go/constant"
	"go/token"
	"go/types"
	"sort"
	"strings"

	"bmverif/internal/core"
	"golang.org/x/tools/go/packages"
)

// E5 INDEXKIND — a units-of-measure check for `int` indices. Index spaces are declared
// per struct field (filled from the repository's own data model); locals get their space
// from how they are defined (range key/value, len, lookup, arithmetic with constants) and
// every use as an index, as a stored element or in a comparison must agree.

type ikind string

const (
	kNone ikind = ""
	kMix  ikind = "MIX"
	kRES  ikind = "RES" // Bond.Res_id outside a Map_to guard: one of XIN / XOUT / PROC
	kEXT  ikind = "EXT" // Bond.Ext_id outside a Map_to guard: one of PIN / POUT
)

// cdesc describes a container (slice, array or map) whose keys / int elements live in an index space.
type cdesc struct {
	key  ikind
	elem ikind
	sub  *cdesc
	pair *[2]ikind // elements are [2]int pairs of indices of these two spaces (EventPointers)
}

func compatible(a, b ikind) bool {
	if a == kNone || b == kNone || a == kMix || b == kMix || a == b {
		return true
	}
	in := func(k ikind, set ...ikind) bool {
		for _, s := range set {
			if k == s {
				return true
			}
		}
		return false
	}
	if (a == kRES && in(b, "XIN", "XOUT", "PROC")) || (b == kRES && in(a, "XIN", "XOUT", "PROC")) {
		return true
	}
	if (a == kEXT && in(b, "PIN", "POUT")) || (b == kEXT && in(a, "PIN", "POUT")) {
		return true
	}
	return false
}

// ikTables: the repository's index spaces. Keys are "<rel pkg>.<Struct>.<Field>".
var ikContainers = map[string]cdesc{
	// the bond graph
	"pkg/bondmachine.Bondmachine.Links":                 {key: "II", elem: "IO"},
	"pkg/bondmachine.Bondmachine.Internal_inputs":       {key: "II"},
	"pkg/bondmachine.Bondmachine.Internal_outputs":      {key: "IO"},
	"pkg/bondmachine.Bondmachine.Processors":            {key: "PROC", elem: "DOM"},
	"pkg/bondmachine.Bondmachine.Domains":               {key: "DOM"},
	"pkg/bondmachine.Bondmachine.Shared_links":          {key: "PROC", sub: &cdesc{elem: "SO"}},
	"pkg/bondmachine.Bondmachine.Shared_objects":        {key: "SO"},
	"pkg/bondmachine.Bondmachine_json.Links":            {key: "II", elem: "IO"},
	"pkg/bondmachine.Bondmachine_json.Internal_inputs":  {key: "II"},
	"pkg/bondmachine.Bondmachine_json.Internal_outputs": {key: "IO"},
	"pkg/bondmachine.Bondmachine_json.Processors":       {key: "PROC", elem: "DOM"},
	"pkg/bondmachine.Bondmachine_json.Domains":          {key: "DOM"},
	"pkg/bondmachine.Bondmachine_json.Shared_links":     {key: "PROC", sub: &cdesc{elem: "SO"}},
	"pkg/bondmachine.Bondmachine_json.Shared_objects":   {key: "SO"},
	// the simulator's mirrors of it
	"pkg/bondmachine.VM.Internal_inputs_regs":  {key: "II"},
	"pkg/bondmachine.VM.InternalInputsValid":   {key: "II"},
	"pkg/bondmachine.VM.InternalInputsRecv":    {key: "II"},
	"pkg/bondmachine.VM.Internal_outputs_regs": {key: "IO"},
	"pkg/bondmachine.VM.InternalOutputsValid":  {key: "IO"},
	"pkg/bondmachine.VM.InternalOutputsRecv":   {key: "IO"},
	"pkg/bondmachine.VM.Inputs_regs":           {key: "XIN"},
	"pkg/bondmachine.VM.InputsValid":           {key: "XIN"},
	"pkg/bondmachine.VM.InputsRecv":            {key: "XIN"},
	"pkg/bondmachine.VM.Outputs_regs":          {key: "XOUT"},
	"pkg/bondmachine.VM.OutputsValid":          {key: "XOUT"},
	"pkg/bondmachine.VM.OutputsRecv":           {key: "XOUT"},
	"pkg/bondmachine.VM.Processors":            {key: "PROC"},
	"pkg/bondmachine.VM.send_chans":            {key: "PROC"},
	"pkg/bondmachine.VM.result_chans":          {key: "PROC"},
	// per-processor ports
	"pkg/procbuilder.VM.Inputs":       {key: "PIN"},
	"pkg/procbuilder.VM.InputsValid":  {key: "PIN"},
	"pkg/procbuilder.VM.InputsRecv":   {key: "PIN"},
	"pkg/procbuilder.VM.Outputs":      {key: "POUT"},
	"pkg/procbuilder.VM.OutputsValid": {key: "POUT"},
	"pkg/procbuilder.VM.OutputsRecv":  {key: "POUT"},
	// simbox rules compiled to tables
	"pkg/bondmachine.SimDrive.Injectables":       {key: "INJ"},
	"pkg/bondmachine.SimDrive.NeedValid":         {key: "INJ", elem: "XIN"},
	"pkg/bondmachine.SimDrive.AbsSet":            {sub: &cdesc{key: "INJ"}},
	"pkg/bondmachine.SimDrive.PerSet":            {sub: &cdesc{key: "INJ"}},
	"pkg/bondmachine.SimReport.Reportables":      {key: "REP"},
	"pkg/bondmachine.SimReport.ReportablesTypes": {key: "REP"},
	"pkg/bondmachine.SimReport.ReportablesNames": {key: "REP"},
	"pkg/bondmachine.SimReport.Showables":        {key: "SHO"},
	"pkg/bondmachine.SimReport.ShowablesTypes":   {key: "SHO"},
	"pkg/bondmachine.SimReport.ShowablesNames":   {key: "SHO"},
	"pkg/bondmachine.SimReport.EventData":        {key: "EVD"},
	"pkg/bondmachine.SimReport.EventGet":         {pair: &[2]ikind{"REP", "EVD"}},
	"pkg/bondmachine.SimReport.EventShow":        {pair: &[2]ikind{"SHO", "EVD"}},
	"pkg/bondmachine.SimReport.AbsGet":           {sub: &cdesc{key: "REP"}},
	"pkg/bondmachine.SimReport.PerGet":           {sub: &cdesc{key: "REP"}},
	"pkg/bondmachine.SimReport.AbsShow":          {sub: &cdesc{key: "SHO"}},
	"pkg/bondmachine.SimReport.PerShow":          {sub: &cdesc{key: "SHO"}},
}

// named map types whose keys carry a kind when reached through the typed tables above are
// handled through `sub`; plain int fields:
var ikIntFields = map[string]ikind{
	"pkg/bondmachine.Bond.Res_id": kRES,
	"pkg/bondmachine.Bond.Ext_id": kEXT,
}

// counts: only give a kind to the counter of `for i := 0; i < X.F; i++` (a count is not an index,
// so it takes no part in comparisons or stores).
var ikCountFields = map[string]ikind{
	"pkg/bondmachine.Bondmachine.Inputs":  "XIN",
	"pkg/bondmachine.Bondmachine.Outputs": "XOUT",
}

type ikEngine struct {
	r                      *core.Run
	prog                   *core.Program
	prop                   string
	owner                  map[*types.Var]string // field -> "<rel>.<Struct>.<Field>"
	mapTo                  map[string]int64      // constant names of Map_to values
	indexOf                map[types.Object]int  // "index-of" helpers: func -> the parameter whose position it returns
	nSinks, nKnown, nFuncs int
}

func newIKEngine(r *core.Run, prog *core.Program, prop string) *ikEngine {
	e := &ikEngine{r: r, prog: prog, prop: prop, owner: map[*types.Var]string{}}
	for _, pk := range prog.Pkgs {
		rel := strings.TrimPrefix(pk.PkgPath, core.ModPath+"/")
		sc := pk.Types.Scope()
		for _, n := range sc.Names() {
			tn, ok := sc.Lookup(n).(*types.TypeName)
			if !ok {
				continue
			}
			st, ok := tn.Type().Underlying().(*types.Struct)
			if !ok {
				continue
			}
			for i := 0; i < st.NumFields(); i++ {
				e.owner[st.Field(i)] = rel + "." + n + "." + st.Field(i).Name()
			}
		}
	}
	// index-of helpers: `func f(list []T, x T) int { for i, y := range list { if y == x { return i } }; return -1 }`
	// return a position in whatever list they are given
	e.indexOf = map[types.Object]int{}
	for _, pk := range prog.Pkgs {
		info := pk.TypesInfo
		core.FuncDecls(pk, func(_ *ast.File, fd *ast.FuncDecl) {
			if fd.Type.Results == nil || len(fd.Type.Results.List) != 1 {
				return
			}
			if b, ok := info.TypeOf(fd.Type.Results.List[0].Type).Underlying().(*types.Basic); !ok || b.Info()&types.IsInteger == 0 {
				return
			}
			pidx := map[types.Object]int{}
			i := 0
			for _, f := range fd.Type.Params.List {
				for _, n := range f.Names {
					pidx[info.ObjectOf(n)] = i
					i++
				}
			}
			found := -1
			ast.Inspect(fd.Body, func(m ast.Node) bool {
				rs, ok := m.(*ast.RangeStmt)
				if !ok {
					return true
				}
				lid, ok := ast.Unparen(rs.X).(*ast.Ident)
				if !ok {
					return true
				}
				k, ok := pidx[info.ObjectOf(lid)]
				if !ok {
					return true
				}
				kid, ok := rs.Key.(*ast.Ident)
				if !ok {
					return true
				}
				ast.Inspect(rs.Body, func(q ast.Node) bool {
					if ret, ok := q.(*ast.ReturnStmt); ok && len(ret.Results) == 1 {
						if rid, ok := ast.Unparen(ret.Results[0]).(*ast.Ident); ok && info.ObjectOf(rid) == info.ObjectOf(kid) {
							found = k
						}
					}
					return true
				})
				return true
			})
			if found >= 0 {
				if o := info.Defs[fd.Name]; o != nil {
					e.indexOf[o] = found
				}
			}
		})
	}
	return e
}

func (e *ikEngine) fieldDesc(f *types.Var) (cdesc, bool) {
	if f == nil {
		return cdesc{}, false
	}
	d, ok := ikContainers[e.owner[f]]
	return d, ok
}

// funcState is the per-function inference state.
type ikFunc struct {
	mix     map[types.Object]map[ikind]bool // locals that received several kinds
	e       *ikEngine
	pk      *packages.Package
	info    *types.Info
	fd      *ast.FuncDecl
	env     map[types.Object]ikind
	cenv    map[types.Object]cdesc
	side    map[types.Object]string // bond variable -> "II" | "IO" (which list it ranges over)
	parents map[ast.Node]ast.Node
}

func (f *ikFunc) setKind(id *ast.Ident, k ikind) {
	if id == nil || id.Name == "_" || k == kNone {
		return
	}
	o := f.info.ObjectOf(id)
	if o == nil {
		return
	}
	if b, ok := o.Type().Underlying().(*types.Basic); !ok || b.Info()&types.IsInteger == 0 {
		return
	}
	if old, ok := f.env[o]; ok && old != k {
		if compatible(old, k) && old != kMix {
			// keep the more specific one
			if old == kRES || old == kEXT {
				f.env[o] = k
			}
			return
		}
		if f.mix == nil {
			f.mix = map[types.Object]map[ikind]bool{}
		}
		if f.mix[o] == nil {
			f.mix[o] = map[ikind]bool{}
		}
		if old != kMix {
			f.mix[o][old] = true
		}
		f.mix[o][k] = true
		f.env[o] = kMix
		return
	}
	f.env[o] = k
}

// mixedAt: the expression is a local that received indices of several spaces (flow-insensitive join)
// and is used where an index of space `want` is required. When one of its definitions is in the wanted
// space and another is not, the use is wrong on the path of that other definition.
func (f *ikFunc) mixedAt(e ast.Expr, want ikind, what string, pos token.Pos) {
	id, ok := ast.Unparen(e).(*ast.Ident)
	if !ok || want == kNone {
		return
	}
	o := f.info.ObjectOf(id)
	kinds := f.mix[o]
	if len(kinds) < 2 {
		return
	}
	hasWant := false
	var others []string
	for k := range kinds {
		if compatible(k, want) {
			hasWant = true
		} else {
			others = append(others, string(k))
		}
	}
	if !hasWant || len(others) == 0 {
		return
	}
	sort.Strings(others)
	f.e.nSinks++
	f.e.nKnown++
	f.report(false, "INDEXKIND", "mixed:"+what, pos, "",
		fmt.Sprintf("%s is used as an index of space %s here, but it is also assigned an index of space %s in this function (e.g. looked up in one list and appended to another): on that path the wrong element is addressed", id.Name, want, strings.Join(others, "/")))
}

func (f *ikFunc) setDesc(id *ast.Ident, d cdesc) {
	if id == nil || id.Name == "_" {
		return
	}
	if o := f.info.ObjectOf(id); o != nil {
		if _, has := f.cenv[o]; !has {
			f.cenv[o] = d
		}
	}
}

// descOf returns the container descriptor of an expression.
func (f *ikFunc) descOf(x ast.Expr) (cdesc, bool) {
	switch v := ast.Unparen(x).(type) {
	case *ast.Ident:
		if o := f.info.ObjectOf(v); o != nil {
			d, ok := f.cenv[o]
			return d, ok
		}
	case *ast.SelectorExpr:
		return f.e.fieldDesc(core.FieldOf(f.info, v))
	case *ast.IndexExpr:
		if d, ok := f.descOf(v.X); ok && d.sub != nil {
			return *d.sub, true
		}
	case *ast.SliceExpr:
		return f.descOf(v.X)
	case *ast.StarExpr:
		return f.descOf(v.X)
	case *ast.CallExpr:
		if id, ok := v.Fun.(*ast.Ident); ok && id.Name == "append" && len(v.Args) > 0 {
			return f.descOf(v.Args[0])
		}
	}
	return cdesc{}, false
}

// mapToGuard finds the constant Map_to value the bond variable is known to have at node n.
func (f *ikFunc) mapToGuard(n ast.Node, bond types.Object) (int64, bool) {
	isMapTo := func(e ast.Expr) bool {
		sel, ok := ast.Unparen(e).(*ast.SelectorExpr)
		if !ok || sel.Sel.Name != "Map_to" {
			return false
		}
		id, ok := ast.Unparen(sel.X).(*ast.Ident)
		return ok && f.info.ObjectOf(id) == bond
	}
	cval := func(e ast.Expr) (int64, bool) {
		if tv, ok := f.info.Types[e]; ok && tv.Value != nil {
			return constant.Int64Val(constant.ToInt(tv.Value))
		}
		return 0, false
	}
	child := n
	for p := f.parents[n]; p != nil; child, p = p, f.parents[p] {
		switch x := p.(type) {
		case *ast.CaseClause:
			if sw, ok := f.parents[f.parents[p]].(*ast.SwitchStmt); ok && sw.Tag != nil && isMapTo(sw.Tag) && len(x.List) == 1 {
				return cval(x.List[0])
			}
		case *ast.IfStmt:
			if child == x.Body {
				var conj func(e ast.Expr) (int64, bool)
				conj = func(e ast.Expr) (int64, bool) {
					e = ast.Unparen(e)
					if be, ok := e.(*ast.BinaryExpr); ok {
						if be.Op == token.LAND {
							if v, ok := conj(be.X); ok {
								return v, true
							}
							return conj(be.Y)
						}
						if be.Op == token.EQL && isMapTo(be.X) {
							return cval(be.Y)
						}
					}
					return 0, false
				}
				if v, ok := conj(x.Cond); ok {
					return v, true
				}
			}
		}
	}
	return 0, false
}

var mapToRes = map[int64]ikind{0: "XIN", 1: "XOUT", 2: "PROC", 3: "PROC"}
var mapToExt = map[int64]ikind{2: "PIN", 3: "POUT"}

func (f *ikFunc) kindOf(x ast.Expr) ikind {
	switch v := ast.Unparen(x).(type) {
	case *ast.Ident:
		if o := f.info.ObjectOf(v); o != nil {
			return f.env[o]
		}
	case *ast.BinaryExpr:
		if v.Op == token.ADD || v.Op == token.SUB {
			if tv, ok := f.info.Types[v.Y]; ok && tv.Value != nil {
				return f.kindOf(v.X)
			}
			if tv, ok := f.info.Types[v.X]; ok && tv.Value != nil && v.Op == token.ADD {
				return f.kindOf(v.Y)
			}
		}
	case *ast.IndexExpr:
		if d, ok := f.descOf(v.X); ok {
			return d.elem
		}
	case *ast.CallExpr:
		if id, ok := v.Fun.(*ast.Ident); ok && id.Name == "len" && len(v.Args) == 1 {
			if d, ok := f.descOf(v.Args[0]); ok {
				return d.key
			}
		}
		if tv, ok := f.info.Types[v.Fun]; ok && tv.IsType() && len(v.Args) == 1 {
			return f.kindOf(v.Args[0])
		}
		if k, ok := f.e.indexOf[core.CalleeOf(f.info, v)]; ok && k < len(v.Args) {
			if d, ok := f.descOf(v.Args[k]); ok {
				return d.key
			}
		}
	case *ast.SelectorExpr:
		fld := core.FieldOf(f.info, v)
		if fld == nil {
			return kNone
		}
		k, ok := ikIntFields[f.e.owner[fld]]
		if !ok {
			return kNone
		}
		if k == kRES || k == kEXT {
			if id, ok := ast.Unparen(v.X).(*ast.Ident); ok {
				if g, ok := f.mapToGuard(v, f.info.ObjectOf(id)); ok {
					if k == kRES {
						if r, ok := mapToRes[g]; ok {
							return r
						}
					} else if r, ok := mapToExt[g]; ok {
						return r
					}
				}
			}
		}
		return k
	}
	return kNone
}

func (f *ikFunc) infer() {
	for iter := 0; iter < 4; iter++ {
		ast.Inspect(f.fd.Body, func(n ast.Node) bool {
			switch s := n.(type) {
			case *ast.RangeStmt:
				if d, ok := f.descOf(s.X); ok {
					if id, ok := s.Key.(*ast.Ident); ok {
						f.setKind(id, d.key)
					}
					if id, ok := s.Value.(*ast.Ident); ok {
						if d.sub != nil {
							f.setDesc(id, *d.sub)
						} else {
							f.setKind(id, d.elem)
						}
						if d.key == "II" || d.key == "IO" {
							if o := f.info.ObjectOf(id); o != nil {
								if nt, ok := o.Type().(*types.Named); ok && nt.Obj().Name() == "Bond" {
									f.side[o] = string(d.key)
								}
							}
						}
					}
				}
			case *ast.ForStmt:
				// for i := 0; i < len(C) (or < X.Inputs); i++
				if as, ok := s.Init.(*ast.AssignStmt); ok && len(as.Lhs) == 1 && len(as.Rhs) == 1 {
					if be, ok := s.Cond.(*ast.BinaryExpr); ok && (be.Op == token.LSS || be.Op == token.LEQ) {
						if id, ok := as.Lhs[0].(*ast.Ident); ok {
							if lid, ok := ast.Unparen(be.X).(*ast.Ident); ok && f.info.ObjectOf(lid) == f.info.ObjectOf(id) {
								if tv, ok := f.info.Types[as.Rhs[0]]; ok && tv.Value != nil {
									k := f.kindOf(be.Y)
									if fld := core.FieldOf(f.info, be.Y); fld != nil && k == kNone {
										k = ikCountFields[f.e.owner[fld]]
									}
									f.setKind(id, k)
								}
							}
						}
					}
				}
			case *ast.AssignStmt:
				if len(s.Lhs) == len(s.Rhs) {
					for i, l := range s.Lhs {
						if id, ok := l.(*ast.Ident); ok {
							if d, ok := f.descOf(s.Rhs[i]); ok {
								f.setDesc(id, d)
							} else if s.Tok == token.DEFINE || s.Tok == token.ASSIGN {
								f.setKind(id, f.kindOf(s.Rhs[i]))
							}
						}
						// alias backwards: X.F = local
						if fd, ok := f.e.fieldDesc(core.FieldOf(f.info, l)); ok {
							if rid, ok := ast.Unparen(s.Rhs[i]).(*ast.Ident); ok {
								f.setDesc(rid, fd)
							}
						}
						// C[k] = local  where C has sub-containers
						if ie, ok := l.(*ast.IndexExpr); ok {
							if d, ok := f.descOf(ie.X); ok && d.sub != nil {
								if rid, ok := ast.Unparen(s.Rhs[i]).(*ast.Ident); ok {
									f.setDesc(rid, *d.sub)
								}
							}
						}
					}
				} else if len(s.Lhs) == 2 && len(s.Rhs) == 1 {
					// v, ok := C[k]
					if ie, ok := ast.Unparen(s.Rhs[0]).(*ast.IndexExpr); ok {
						if d, ok := f.descOf(ie.X); ok {
							if id, ok := s.Lhs[0].(*ast.Ident); ok {
								if d.sub != nil {
									f.setDesc(id, *d.sub)
								} else {
									f.setKind(id, d.elem)
								}
							}
						}
					}
				}
			case *ast.ValueSpec:
				for i, id := range s.Names {
					if i < len(s.Values) {
						if d, ok := f.descOf(s.Values[i]); ok {
							f.setDesc(id, d)
						} else {
							f.setKind(id, f.kindOf(s.Values[i]))
						}
					}
				}
			}
			return true
		})
	}
}

func (f *ikFunc) report(ok bool, rule, what string, pos token.Pos, okd, bad string) {
	inst := fmt.Sprintf("%s/%s:%s:%s", f.e.prop, rule, core.FuncKey(f.pk, f.fd), what)
	if ok {
		f.e.r.OK(f.e.prop+"/"+rule, inst, f.e.prog.Pos(pos), okd)
	} else {
		f.e.r.Violation(f.e.prop+"/"+rule, inst, f.e.prog.Pos(pos), bad)
	}
}

func (f *ikFunc) check() {
	known := func(k ikind) bool { return k != kNone && k != kMix }
	ast.Inspect(f.fd.Body, func(n ast.Node) bool {
		switch x := n.(type) {
		case *ast.IndexExpr:
			d, ok := f.descOf(x.X)
			if !ok || d.key == kNone {
				return true
			}
			f.e.nSinks++
			got := f.kindOf(x.Index)
			if got == kMix {
				f.mixedAt(x.Index, d.key, types.ExprString(x.X)+"["+types.ExprString(x.Index)+"]", x.Pos())
			}
			if !known(got) {
				return true
			}
			f.e.nKnown++
			f.report(compatible(got, d.key), "INDEXKIND", types.ExprString(x.X)+"["+types.ExprString(x.Index)+"]", x.Pos(),
				fmt.Sprintf("index is %s as required", got),
				fmt.Sprintf("%s is indexed by %s, which is an index in the %s space; this container is indexed by %s (the two index spaces differ, so the wrong element is addressed whenever they do not coincide)", types.ExprString(x.X), types.ExprString(x.Index), got, d.key))
		case *ast.BinaryExpr:
			if x.Op == token.ADD {
				f.checkEndpointName(x, known)
			}
			switch x.Op {
			case token.EQL, token.NEQ, token.LSS, token.GTR, token.LEQ, token.GEQ:
				a, b := f.kindOf(x.X), f.kindOf(x.Y)
				if known(a) && known(b) {
					f.e.nSinks++
					f.e.nKnown++
					f.report(compatible(a, b), "INDEXKIND", "cmp:"+types.ExprString(x), x.Pos(),
						fmt.Sprintf("both operands are %s", a),
						fmt.Sprintf("comparison %s relates an index of space %s to an index of space %s", types.ExprString(x), a, b))
				}
			}
		case *ast.AssignStmt:
			if len(x.Lhs) != len(x.Rhs) {
				return true
			}
			for i, l := range x.Lhs {
				var want ikind
				what := ""
				if ie, ok := l.(*ast.IndexExpr); ok {
					if d, ok := f.descOf(ie.X); ok && d.pair != nil {
						if cl, ok := ast.Unparen(x.Rhs[i]).(*ast.CompositeLit); ok && len(cl.Elts) == 2 {
							for pi, el := range cl.Elts {
								got := f.kindOf(el)
								if got == kMix {
									f.mixedAt(el, d.pair[pi], fmt.Sprintf("pair:%s[%d]=%s", types.ExprString(ie.X), pi, types.ExprString(el)), el.Pos())
								}
								if !known(got) {
									continue
								}
								f.e.nSinks++
								f.e.nKnown++
								f.report(compatible(got, d.pair[pi]), "INDEXKIND", fmt.Sprintf("pair:%s[%d]=%s", types.ExprString(ie.X), pi, types.ExprString(el)), el.Pos(),
									fmt.Sprintf("component %d is %s as required", pi, got),
									fmt.Sprintf("component %d of the pair stored into %s is %s, an index of space %s, where an index of space %s is kept: the event will read another element than the one the rule names", pi, types.ExprString(ie.X), types.ExprString(el), got, d.pair[pi]))
							}
						}
						continue
					}
					if d, ok := f.descOf(ie.X); ok && d.elem != kNone {
						want, what = d.elem, "store:"+types.ExprString(ie.X)+"[]="+types.ExprString(x.Rhs[i])
					}
				} else if fld := core.FieldOf(f.info, l); fld != nil {
					if k, ok := ikIntFields[f.e.owner[fld]]; ok && x.Tok == token.ASSIGN {
						want, what = k, "store:"+types.ExprString(l)+"="+types.ExprString(x.Rhs[i])
					}
				}
				if want == kNone {
					continue
				}
				got := f.kindOf(x.Rhs[i])
				if !known(got) {
					continue
				}
				f.e.nSinks++
				f.e.nKnown++
				f.report(compatible(got, want), "INDEXKIND", what, x.Pos(),
					fmt.Sprintf("stored value is %s as required", got),
					fmt.Sprintf("%s = %s stores an index of space %s where an index of space %s is kept", types.ExprString(l), types.ExprString(x.Rhs[i]), got, want))
			}
		case *ast.CallExpr:
			// append(C, v) with int elements
			if id, ok := x.Fun.(*ast.Ident); ok && id.Name == "append" && len(x.Args) >= 2 {
				if d, ok := f.descOf(x.Args[0]); ok && d.elem != kNone {
					for _, a := range x.Args[1:] {
						got := f.kindOf(a)
						if known(got) {
							f.e.nSinks++
							f.e.nKnown++
							f.report(compatible(got, d.elem), "INDEXKIND", "append:"+types.ExprString(x.Args[0])+"<-"+types.ExprString(a), x.Pos(),
								"appended value has the element kind", fmt.Sprintf("append stores an index of space %s into %s, whose elements are indices of space %s", got, types.ExprString(x.Args[0]), d.elem))
						}
					}
				}
			}
		case *ast.CompositeLit:
			// Bond{m, r, e}: r must be a resource id
			if nt, ok := f.info.TypeOf(x).(*types.Named); ok && nt.Obj().Name() == "Bond" && len(x.Elts) == 3 {
				if _, isKV := x.Elts[0].(*ast.KeyValueExpr); !isKV {
					got := f.kindOf(x.Elts[1])
					if known(got) {
						f.e.nSinks++
						f.e.nKnown++
						want := kRES
						if tv, ok := f.info.Types[x.Elts[0]]; ok && tv.Value != nil {
							if v, ok := constant.Int64Val(constant.ToInt(tv.Value)); ok {
								if k, ok := mapToRes[v]; ok {
									want = k
								}
							}
						}
						f.report(compatible(got, want), "INDEXKIND", "bond:"+types.ExprString(x), x.Pos(), "resource id has the kind the Map_to states",
							fmt.Sprintf("%s uses an index of space %s as the resource id of a bond whose Map_to calls for %s", types.ExprString(x), got, want))
					}
				}
			}
		case *ast.CaseClause:
			// BONDSIDE: a case on bond.Map_to must name an endpoint kind that can occur in the list ranged over
			sw, ok := f.parents[f.parents[n]].(*ast.SwitchStmt)
			if !ok || sw.Tag == nil {
				return true
			}
			sel, ok := ast.Unparen(sw.Tag).(*ast.SelectorExpr)
			if !ok || sel.Sel.Name != "Map_to" {
				return true
			}
			id, ok := ast.Unparen(sel.X).(*ast.Ident)
			if !ok {
				return true
			}
			side, ok := f.side[f.info.ObjectOf(id)]
			if !ok {
				return true
			}
			for _, c := range x.List {
				if tv, ok := f.info.Types[c]; ok && tv.Value != nil {
					v, _ := constant.Int64Val(constant.ToInt(tv.Value))
					f.e.nSinks++
					f.e.nKnown++
					good := (side == "II" && (v == 1 || v == 2)) || (side == "IO" && (v == 0 || v == 3))
					list := map[string]string{"II": "Internal_inputs (external outputs and processor inputs)", "IO": "Internal_outputs (external inputs and processor outputs)"}[side]
					f.report(good, "BONDSIDE", fmt.Sprintf("%s.Map_to==%s", id.Name, types.ExprString(c)), c.Pos(),
						"endpoint kind can occur in this list", fmt.Sprintf("case %s can never match: %s ranges over %s, which never holds that endpoint kind — the transfer it guards is silently skipped", types.ExprString(c), id.Name, list))
				}
			}
		}
		return true
	})
}

// checkEndpointName (NAMEKIND): endpoint names are written "p<processor>i<n>", "p<processor>o<n>".
// In a string concatenation, the number printed right after a literal "p" (or one ending in a
// non-letter followed by p) must be a processor index — not a domain index, an endpoint position, …
// The number is followed through strconv.Itoa and through a string local assigned once from it.
func (f *ikFunc) checkEndpointName(x *ast.BinaryExpr, known func(ikind) bool) {
	if p, ok := f.parents[x].(*ast.BinaryExpr); ok && p.Op == token.ADD {
		return // not the top of the chain
	}
	t := f.info.TypeOf(x)
	if t == nil {
		return
	}
	if b, ok := t.Underlying().(*types.Basic); !ok || b.Info()&types.IsString == 0 {
		return
	}
	var leaves []ast.Expr
	flattenAdd(x, &leaves)
	numOf := func(e ast.Expr, depth int) ast.Expr { return nil }
	var numOfRec func(e ast.Expr, depth int) ast.Expr
	numOfRec = func(e ast.Expr, depth int) ast.Expr {
		switch v := ast.Unparen(e).(type) {
		case *ast.CallExpr:
			if c := core.CalleeOf(f.info, v); c != nil && c.Pkg() != nil && c.Pkg().Path() == "strconv" && c.Name() == "Itoa" && len(v.Args) == 1 {
				return v.Args[0]
			}
		case *ast.Ident:
			if depth > 2 {
				return nil
			}
			o := f.info.ObjectOf(v)
			var def ast.Expr
			n := 0
			ast.Inspect(f.fd.Body, func(m ast.Node) bool {
				if as, ok := m.(*ast.AssignStmt); ok && len(as.Lhs) == len(as.Rhs) {
					for i, l := range as.Lhs {
						if id, ok := l.(*ast.Ident); ok && f.info.ObjectOf(id) == o {
							n++
							def = as.Rhs[i]
						}
					}
				}
				return true
			})
			if n == 1 {
				return numOfRec(def, depth+1)
			}
		}
		return nil
	}
	numOf = numOfRec
	for i := 1; i < len(leaves); i++ {
		lit, ok := constStr(f.info, leaves[i-1])
		if !ok || lit == "" {
			continue
		}
		if lit != "p" {
			if !strings.HasSuffix(lit, "p") || len(lit) < 2 {
				continue
			}
			c := lit[len(lit)-2]
			if (c >= 'a' && c <= 'z') || (c >= 'A' && c <= 'Z') || (c >= '0' && c <= '9') || c == '_' {
				continue
			}
		}
		num := numOf(leaves[i], 0)
		if num == nil {
			continue
		}
		got := f.kindOf(num)
		if !known(got) {
			continue
		}
		f.e.nSinks++
		f.e.nKnown++
		f.report(compatible(got, "PROC"), "INDEXKIND", "name:p+"+types.ExprString(num), leaves[i].Pos(),
			"the number in the processor name is a processor index",
			fmt.Sprintf("the endpoint name built here prints %s after \"p\", and %s is an index in the %s space, not a processor index: the name denotes the endpoints of another processor (or of none) whenever the two numberings differ", types.ExprString(num), types.ExprString(num), got))
	}
}

// run analyses every function of the given packages that mentions a kinded field.
func (e *ikEngine) run(rels []string, filters ...func(pk *packages.Package, fd *ast.FuncDecl) bool) {
	for _, rel := range rels {
		pk := e.prog.Pkg(rel)
		if pk == nil {
			continue
		}
		core.FuncDecls(pk, func(_ *ast.File, fd *ast.FuncDecl) {
			mentions := false
			ast.Inspect(fd.Body, func(n ast.Node) bool {
				if sel, ok := n.(*ast.SelectorExpr); ok {
					if fld := core.FieldOf(pk.TypesInfo, sel); fld != nil {
						o := e.owner[fld]
						if _, ok := ikContainers[o]; ok {
							mentions = true
						}
						if _, ok := ikIntFields[o]; ok {
							mentions = true
						}
						if _, ok := ikCountFields[o]; ok {
							mentions = true
						}
					}
				}
				return !mentions
			})
			if !mentions {
				return
			}
			for _, flt := range filters {
				if !flt(pk, fd) {
					return
				}
			}
			e.nFuncs++
			f := &ikFunc{e: e, pk: pk, info: pk.TypesInfo, fd: fd, env: map[types.Object]ikind{}, cenv: map[types.Object]cdesc{}, side: map[types.Object]string{}, parents: map[ast.Node]ast.Node{}}
			var stack []ast.Node
			ast.Inspect(fd.Body, func(n ast.Node) bool {
				if n == nil {
					stack = stack[:len(stack)-1]
					return true
				}
				if len(stack) > 0 {
					f.parents[n] = stack[len(stack)-1]
				}
				stack = append(stack, n)
				return true
			})
			f.infer()
			f.check()
		})
	}
	e.r.Count("functions_analysed", e.nFuncs)
	e.r.Count("index_sinks", e.nSinks)
	e.r.Count("index_sinks_with_known_kind", e.nKnown)
}

var _ = sort.Strings

// mentionsFieldOf reports whether the function mentions a kinded field whose owner key has one of the prefixes.
func (e *ikEngine) mentionsFieldOf(pk *packages.Package, fd *ast.FuncDecl, prefixes ...string) bool {
	found := false
	ast.Inspect(fd.Body, func(n ast.Node) bool {
		if sel, ok := n.(*ast.SelectorExpr); ok {
			if fld := core.FieldOf(pk.TypesInfo, sel); fld != nil {
				o := e.owner[fld]
				if _, ok := ikContainers[o]; ok {
					for _, p := range prefixes {
						if strings.HasPrefix(o, p) {
							found = true
						}
					}
				}
			}
		}
		return !found
	})
	return found
}

// storesTopology reports whether the function assigns to (an element of) one of the
// Bondmachine topology fields.
func (e *ikEngine) storesTopology(pk *packages.Package, fd *ast.FuncDecl) bool {
	topo := map[string]bool{"Links": true, "Internal_inputs": true, "Internal_outputs": true, "Inputs": true, "Outputs": true, "Processors": true, "Shared_links": true}
	found := false
	isTopo := func(x ast.Expr) bool {
		for {
			switch v := ast.Unparen(x).(type) {
			case *ast.IndexExpr:
				x = v.X
				continue
			case *ast.SelectorExpr:
				if fld := core.FieldOf(pk.TypesInfo, v); fld != nil {
					o := e.owner[fld]
					return strings.HasPrefix(o, "pkg/bondmachine.Bondmachine.") && topo[fld.Name()]
				}
			}
			return false
		}
	}
	ast.Inspect(fd.Body, func(n ast.Node) bool {
		switch x := n.(type) {
		case *ast.AssignStmt:
			for _, l := range x.Lhs {
				if isTopo(l) {
					found = true
				}
			}
		case *ast.IncDecStmt:
			if isTopo(x.X) {
				found = true
			}
		}
		return !found
	})
	return found
}
