package checks

import (
	"fmt"
	"go/ast"
	"go/token"
	"go/types"
	"regexp"
	"sort"
	"strings"

	"bmverif/internal/core"
	"golang.org/x/tools/go/packages"
)

func init() {
	register("C18", checkC18)
	describe("C18", Meta{
		Technique: "skeleton extraction from the HDL string builders (literal text with holes) plus three structural rules: declare-once groups (OnlyOne guard lists agree across the group and no member declares the shared identifier unguarded), identifier/driver consistency of self-contained module generators, and index-space discipline (processor vs domain vs shared-object index) across the three module levels",
		Claim:     "Decides structural clauses of C18 on the generators (no Verilog tool exists in the sandbox): (G) for every helper register declared under an arch.OnlyOne guard, every opcode of the guard list carries the same guarded declaration with the same list, the declaring opcode is in its own list, and no other opcode declares the same identifier unconditionally — so the identifier is declared exactly once for every opcode subset that contains a user; (M) in every generator that emits a whole module (module … endmodule in one function), every literal identifier used as a clock in an event control, or as the target of a procedural or continuous assignment, is declared in that module, and no register is assigned in two always blocks that can be emitted together; (K) the module, instance and wrapper generators index processors, domains and shared objects in their own index spaces (a processor index used as a domain index yields mismatched port lists). (PORTS) for every shared-object kind and opcode-presence condition, the port names in the module header equal the names the architecture and processor modules declare, the number of ports equals the number of wires the top level connects by position, and those wires are declared. (ROLES) the module of a FIFO-like shared object gets, per attached processor, as many sender/receiver port groups as the top level connects — decided by interpreting the list-building code for every subset of the opcodes GetPerProcPortsHeader tests. The two other declare-once idioms are decided too: an opcode that leaves declarations to another opcode (deference loop over arch.Op) relies on that opcode declaring each identifier in the same method, and all users of one Runinfo.Check flag guard the same declarations. (DECLCOND) every identifier Conproc.Write_verilog declares under a condition (execution mode, threading, a constant local set per mode) is spelled by the opcode templates and the shared helpers (NextInstruction, ThreadInstructionStart, ExecutionCase …) only under conditions that imply the declaring one — decided by enumerating modes and condition valuations over a fragment tree of the generators. (LISTCLOSE) a localparam list opened by a generator is closed before the next module item on every path, loops counted 0, 1, 2 and 3+ times with first/last-iteration tests evaluated. (FRESHFLAGS) a loop that writes one processor module per iteration gives each a RuntimeInfo (declare-once flag registry) allocated in that iteration. Necessary conditions only: syntax of arbitrary configurations, widths, and identifiers spelled through holes that the patterns cannot relate are not decided.",
		Note:      "Holes (non-literal parts of a concatenation) match any identifier fragment; a verdict 'undeclared' is only issued for fully literal identifiers in modules whose declarations contain no bare hole.",
		DesignRef: "DESIGN.md §2 C18",
	})
}

func checkC18(r *core.Run) {
	r.Explanation = "Decides structural clauses of C18 on the Go generators: G declare-once groups behind arch.OnlyOne, M identifier/driver consistency inside self-contained module generators, K index-space discipline of processor / domain / shared-object indices in the HDL generators. " +
		"Does NOT decide: that every emitted file parses, width agreement, port-count agreement between separately generated files (only the index-space precondition of it), vendor IP and static blobs."
	prog := r.Load(core.LoadConfig{})
	if prog == nil {
		return
	}
	c18Groups(r, prog)
	c18Ports(r, prog)
	c18Roles(r, prog)
	c18Modules(r, prog)
	c18DeclCond(r, prog)
	c18ListClose(r, prog)
	c18FreshFlags(r, prog)
	// K
	e := newIKEngine(r, prog, "C18")
	e.run([]string{"pkg/bondmachine", "pkg/procbuilder"}, func(pk *packages.Package, fd *ast.FuncDecl) bool {
		n := strings.ToLower(fd.Name.Name)
		if !(strings.Contains(n, "verilog") || strings.Contains(n, "vhdl") || strings.HasPrefix(n, "get") || strings.Contains(n, "header") || strings.Contains(n, "params") || strings.Contains(n, "ports")) {
			return false
		}
		return e.mentionsFieldOf(pk, fd, "pkg/bondmachine.Bondmachine.Shared_links", "pkg/bondmachine.Bondmachine.Domains", "pkg/bondmachine.Bondmachine.Processors", "pkg/bondmachine.Bondmachine.Shared_objects")
	})
}

// ---- skeletons ---------------------------------------------------------------------------

const hole = "§"

// selSubst: while a loop over a package-level table of records is unrolled (c18ports.go), the constant
// string fields of the current element, keyed by the selector as written (`port.name`).
var selSubst map[string]string

// c18Tables: package-level variables initialised with a composite literal (tables of records).
var c18Tables = map[types.Object]*ast.CompositeLit{}

// skeletonOf renders a string-valued expression: literals verbatim, everything else a hole.
func skeletonOf(info *types.Info, e ast.Expr) string { return skeletonWith(info, e, nil) }

// skeletonWith renders an expression; identifiers bound in `temps` (local string temporaries whose
// own skeleton is known) are inlined.
func skeletonWith(info *types.Info, e ast.Expr, temps map[types.Object]string) string {
	var leaves []ast.Expr
	flattenAdd(e, &leaves)
	var sb strings.Builder
	for _, l := range leaves {
		if s, ok := constStr(info, l); ok {
			sb.WriteString(s)
			continue
		}
		if id, ok := ast.Unparen(l).(*ast.Ident); ok && temps != nil {
			if t, ok := temps[info.ObjectOf(id)]; ok {
				sb.WriteString(t)
				continue
			}
		}
		if se, ok := ast.Unparen(l).(*ast.SelectorExpr); ok && selSubst != nil {
			if t, ok := selSubst[types.ExprString(se)]; ok {
				sb.WriteString(t)
				continue
			}
		}
		sb.WriteString(hole)
	}
	return sb.String()
}

// localTemporaries computes, for every local string variable other than `acc`, the concatenation of
// everything appended to it in source order (holes for non-literals).
func localTemporaries(info *types.Info, body *ast.BlockStmt, acc types.Object) map[types.Object]string {
	temps := map[types.Object]string{}
	ast.Inspect(body, func(m ast.Node) bool {
		as, ok := m.(*ast.AssignStmt)
		if !ok || len(as.Lhs) != 1 || len(as.Rhs) != 1 {
			return true
		}
		id, ok := as.Lhs[0].(*ast.Ident)
		if !ok {
			return true
		}
		o := info.ObjectOf(id)
		if o == nil || o == acc {
			return true
		}
		if b, ok := o.Type().Underlying().(*types.Basic); !ok || b.Info()&types.IsString == 0 {
			return true
		}
		piece := skeletonWith(info, as.Rhs[0], nil)
		switch as.Tok {
		case token.DEFINE, token.ASSIGN:
			// x = x + "..." keeps what was there
			if strings.HasPrefix(types.ExprString(as.Rhs[0]), id.Name+" +") {
				temps[o] += strings.TrimPrefix(piece, hole)
			} else if _, had := temps[o]; had && piece != "" {
				temps[o] += piece // re-slicing like x = x[0:len(x)-3] shows up as a hole; keep the text
			} else {
				temps[o] = piece
			}
		case token.ADD_ASSIGN:
			temps[o] += piece
		}
		return true
	})
	return temps
}

// appendedText lists the skeletons appended to string accumulators (x += e, x = x + e) in a node.
func appendedText(info *types.Info, n ast.Node) []struct {
	text string
	pos  token.Pos
} {
	var out []struct {
		text string
		pos  token.Pos
	}
	ast.Inspect(n, func(m ast.Node) bool {
		if ret, ok := m.(*ast.ReturnStmt); ok {
			// text returned directly (`return "\treg cmpflag;\n"`)
			for _, res := range ret.Results {
				if _, isID := ast.Unparen(res).(*ast.Ident); isID {
					continue
				}
				if t := info.TypeOf(res); t != nil {
					if b, ok := t.Underlying().(*types.Basic); ok && b.Info()&types.IsString != 0 {
						if sk := skeletonOf(info, res); sk != "" {
							out = append(out, struct {
								text string
								pos  token.Pos
							}{sk, ret.Pos()})
						}
					}
				}
			}
			return true
		}
		as, ok := m.(*ast.AssignStmt)
		if !ok || len(as.Lhs) != 1 || len(as.Rhs) != 1 {
			return true
		}
		t := info.TypeOf(as.Lhs[0])
		if t == nil {
			return true
		}
		if b, ok := t.Underlying().(*types.Basic); !ok || b.Info()&types.IsString == 0 {
			return true
		}
		if as.Tok == token.ADD_ASSIGN || as.Tok == token.ASSIGN || as.Tok == token.DEFINE {
			out = append(out, struct {
				text string
				pos  token.Pos
			}{skeletonOf(info, as.Rhs[0]), as.Pos()})
		}
		return true
	})
	return out
}

var declRe = regexp.MustCompile(`(?m)^\s*(?:reg|wire)\s+(?:\[[^\]]*\]\s*)?([A-Za-z_§][A-Za-z0-9_§]*)\s*(?:\[[^\]]*\]\s*)?;`)

func declaredIn(text string) []string {
	var out []string
	for _, m := range declRe.FindAllStringSubmatch(text, -1) {
		out = append(out, m[1])
	}
	return out
}

// ---- G: declare-once groups -------------------------------------------------------------------

type guardSite struct {
	typ, method string
	list        []string
	listOK      bool
	decls       []string
	pos         token.Pos
}

func c18Groups(r *core.Run, prog *core.Program) {
	pk := prog.Pkg("pkg/procbuilder")
	if pk == nil {
		r.Fatal("pkg/procbuilder not loaded")
		return
	}
	info := pk.TypesInfo
	// the `unique` table
	uniq := map[string][]string{}
	for _, f := range pk.Syntax {
		for _, d := range f.Decls {
			gd, ok := d.(*ast.GenDecl)
			if !ok || gd.Tok != token.VAR {
				continue
			}
			for _, sp := range gd.Specs {
				vs := sp.(*ast.ValueSpec)
				for i, n := range vs.Names {
					if n.Name != "unique" || i >= len(vs.Values) {
						continue
					}
					if cl, ok := vs.Values[i].(*ast.CompositeLit); ok {
						for _, el := range cl.Elts {
							kv, ok := el.(*ast.KeyValueExpr)
							if !ok {
								continue
							}
							k, _ := constStr(info, kv.Key)
							if vl, ok := kv.Value.(*ast.CompositeLit); ok {
								for _, e := range vl.Elts {
									if s, ok := constStr(info, e); ok {
										uniq[k] = append(uniq[k], s)
									}
								}
							}
						}
					}
				}
			}
		}
	}
	listOf := func(e ast.Expr) ([]string, bool) {
		switch x := ast.Unparen(e).(type) {
		case *ast.IndexExpr: // unique["key"]
			if id, ok := x.X.(*ast.Ident); ok && id.Name == "unique" {
				if k, ok := constStr(info, x.Index); ok {
					l, ok := uniq[k]
					return l, ok
				}
			}
		case *ast.CompositeLit:
			var l []string
			for _, el := range x.Elts {
				s, ok := constStr(info, el)
				if !ok {
					return nil, false // dynamic family: names built at run time
				}
				l = append(l, s)
			}
			return l, true
		}
		return nil, false
	}
	opName := map[string]string{}
	var sites []guardSite
	unguarded := map[string]map[string]token.Pos{} // decl pattern -> type -> pos (declarations outside any OnlyOne guard)
	core.FuncDecls(pk, func(_ *ast.File, fd *ast.FuncDecl) {
		rn := core.RecvTypeName(info, fd)
		if rn == "" {
			return
		}
		if fd.Name.Name == "Op_get_name" {
			for _, st := range fd.Body.List {
				if ret, ok := st.(*ast.ReturnStmt); ok && len(ret.Results) == 1 {
					if s, ok := constStr(info, ret.Results[0]); ok {
						opName[rn] = s
					}
				}
			}
			return
		}
		if !strings.Contains(strings.ToLower(fd.Name.Name), "verilog") {
			return
		}
		guardedRanges := [][2]token.Pos{}
		// guard-clause form: `if !arch.OnlyOne(name, list) { return … }` at the top level of the method —
		// everything after it is the guarded block
		for i, st := range fd.Body.List {
			ifs, ok := st.(*ast.IfStmt)
			if !ok || ifs.Else != nil || len(ifs.Body.List) == 0 {
				continue
			}
			if _, isRet := ifs.Body.List[len(ifs.Body.List)-1].(*ast.ReturnStmt); !isRet {
				continue
			}
			ue, ok := ast.Unparen(ifs.Cond).(*ast.UnaryExpr)
			if !ok || ue.Op != token.NOT {
				continue
			}
			call, ok := ast.Unparen(ue.X).(*ast.CallExpr)
			if !ok {
				continue
			}
			c := core.CalleeOf(info, call)
			if c == nil || c.Name() != "OnlyOne" || len(call.Args) != 2 {
				continue
			}
			l, okl := listOf(call.Args[1])
			gs := guardSite{typ: rn, method: fd.Name.Name, list: l, listOK: okl, pos: ifs.Pos()}
			rest := &ast.BlockStmt{List: fd.Body.List[i+1:]}
			for _, t := range appendedText(info, rest) {
				gs.decls = append(gs.decls, declaredIn(t.text)...)
			}
			sites = append(sites, gs)
			if i+1 < len(fd.Body.List) {
				guardedRanges = append(guardedRanges, [2]token.Pos{fd.Body.List[i+1].Pos(), fd.Body.End()})
			}
		}
		ast.Inspect(fd.Body, func(n ast.Node) bool {
			ifs, ok := n.(*ast.IfStmt)
			if !ok {
				return true
			}
			call, ok := ast.Unparen(ifs.Cond).(*ast.CallExpr)
			if !ok {
				return true
			}
			c := core.CalleeOf(info, call)
			if c == nil || c.Name() != "OnlyOne" || len(call.Args) != 2 {
				return true
			}
			l, okl := listOf(call.Args[1])
			gs := guardSite{typ: rn, method: fd.Name.Name, list: l, listOK: okl, pos: ifs.Pos()}
			for _, t := range appendedText(info, ifs.Body) {
				gs.decls = append(gs.decls, declaredIn(t.text)...)
			}
			sites = append(sites, gs)
			guardedRanges = append(guardedRanges, [2]token.Pos{ifs.Body.Pos(), ifs.Body.End()})
			return true
		})
		for _, t := range appendedText(info, fd.Body) {
			in := false
			for _, g := range guardedRanges {
				if t.pos >= g[0] && t.pos <= g[1] {
					in = true
				}
			}
			if in {
				continue
			}
			for _, d := range declaredIn(t.text) {
				if unguarded[d] == nil {
					unguarded[d] = map[string]token.Pos{}
				}
				if _, dup := unguarded[d][rn]; !dup {
					unguarded[d][rn] = t.pos
				}
			}
		}
	})
	typeOfName := map[string]string{}
	for t, n := range opName {
		typeOfName[n] = t
	}
	r.Count("onlyone_guard_sites", len(sites))
	nG := 0
	seenGD := map[string]bool{}
	setKey := func(l []string) string {
		c := append([]string{}, l...)
		sort.Strings(c)
		return strings.Join(c, ",")
	}
	for _, gs := range sites {
		if !gs.listOK {
			r.Note("C18/ONCE", fmt.Sprintf("C18/ONCE:%s.%s:dynamic", gs.typ, gs.method), prog.Pos(gs.pos), "guard list of a dynamic opcode family is built at run time; not decided")
			continue
		}
		self := opName[gs.typ]
		base := fmt.Sprintf("C18/ONCE:%s.%s[%s]", gs.typ, gs.method, setKey(gs.list))
		if len(gs.decls) == 0 {
			r.Note("C18/ONCE", base+":nodecl", prog.Pos(gs.pos), "guard does not protect a declaration; outside the declare-once clause")
			continue
		}
		// G-a
		nG++
		inList := false
		for _, m := range gs.list {
			if m == self {
				inList = true
			}
		}
		if inList {
			r.OK("C18/ONCE", base+":self", prog.Pos(gs.pos), "the declaring opcode is a member of its guard list")
		} else {
			r.Violation("C18/ONCE", base+":self", prog.Pos(gs.pos), fmt.Sprintf("%s guards a declaration with OnlyOne(%q, [%s]) but is not in that list: OnlyOne never returns true for it, so the guarded declarations (%s) are never emitted on its behalf", gs.typ, self, setKey(gs.list), strings.Join(gs.decls, ",")))
		}
		// G-b: every static member carries the same guard in the same method
		for _, m := range gs.list {
			mt, ok := typeOfName[m]
			if !ok || mt == gs.typ {
				continue
			}
			nG++
			found := false
			for _, o := range sites {
				if o.typ == mt && o.method == gs.method && o.listOK && setKey(o.list) == setKey(gs.list) && setKey(o.decls) == setKey(gs.decls) {
					found = true
				}
			}
			inst := base + ":member:" + m
			if found {
				r.OK("C18/ONCE", inst, prog.Pos(gs.pos), "member carries the same guarded declarations with the same list")
			} else {
				r.Violation("C18/ONCE", inst, prog.Pos(gs.pos), fmt.Sprintf("opcode %q is in the OnlyOne list [%s] used by %s.%s to declare {%s} exactly once, but %s.%s has no guard with the same list and the same declarations: in a processor where %q sorts first among the present members, nobody (or two of them) declares those identifiers", m, setKey(gs.list), gs.typ, gs.method, strings.Join(gs.decls, ","), mt, gs.method, m))
			}
		}
		// G-d: no other opcode declares the same identifier unconditionally
		for _, d := range gs.decls {
			var others []string
			for t := range unguarded[d] {
				if t != gs.typ {
					others = append(others, t)
				}
			}
			sort.Strings(others)
			for _, o := range others {
				inst := fmt.Sprintf("C18/ONCE:decl:%s:unguarded-in:%s", d, o)
				if seenGD[inst] {
					continue
				}
				seenGD[inst] = true
				nG++
				r.Violation("C18/ONCE", inst, prog.Pos(unguarded[d][o]), fmt.Sprintf("identifier %q is declared exactly once by the OnlyOne group [%s], but %s declares it unconditionally: a processor containing %s and any member of the group declares it twice", strings.ReplaceAll(d, hole, "<name>"), setKey(gs.list), o, opName[o]))
			}
		}
	}
	r.Count("declare_once_obligations", nG)
	c18Deference(r, prog, opName, typeOfName)
}

// c18Deference decides the two other declare-once idioms of pkg/procbuilder:
//
//	(D) deference:  flag := true; for _, o := range arch.Op { if o.Op_get_name() == "X" { flag = false; break } ... }
//	                if flag { <declarations> }     — the opcode leaves the declarations to X when X is present;
//	(F) first-come: flag := conf.Runinfo.Check("name"); if flag { <declarations> }  — whoever renders first declares.
//
// (D) every opcode X deferred to must emit, in the same method, every identifier the deferring block
// declares (otherwise a processor holding both uses it undeclared). (F) all users of one flag name
// must guard the same set of declarations (otherwise what is declared depends on who came first).
func c18Deference(r *core.Run, prog *core.Program, opName, typeOfName map[string]string) {
	pk := prog.Pkg("pkg/procbuilder")
	info := pk.TypesInfo
	type dsite struct {
		typ, method string
		to          []string // opcode names deferred to
		flag        string   // Runinfo.Check flag name
		decls       []string
		pos         token.Pos
	}
	var dsites []dsite
	allDecls := map[string]map[string]bool{} // "Type.Method" -> declared identifiers anywhere in the method
	core.FuncDecls(pk, func(_ *ast.File, fd *ast.FuncDecl) {
		rn := core.RecvTypeName(info, fd)
		if rn == "" || !strings.Contains(strings.ToLower(fd.Name.Name), "verilog") {
			return
		}
		key := rn + "." + fd.Name.Name
		allDecls[key] = map[string]bool{}
		for _, t := range appendedText(info, fd.Body) {
			for _, d := range declaredIn(t.text) {
				allDecls[key][d] = true
			}
		}
		ast.Inspect(fd.Body, func(n ast.Node) bool {
			ifs, ok := n.(*ast.IfStmt)
			if !ok {
				return true
			}
			fid, ok := ast.Unparen(ifs.Cond).(*ast.Ident)
			if !ok {
				return true
			}
			fobj := info.ObjectOf(fid)
			if fobj == nil {
				return true
			}
			ds := dsite{typ: rn, method: fd.Name.Name, pos: ifs.Pos()}
			for _, t := range appendedText(info, ifs.Body) {
				ds.decls = append(ds.decls, declaredIn(t.text)...)
			}
			if len(ds.decls) == 0 {
				return true
			}
			// how is the flag computed? (statements of the function before the if)
			ast.Inspect(fd.Body, func(m ast.Node) bool {
				if m == nil || m.Pos() >= ifs.Pos() {
					return m == nil || m.Pos() < ifs.Pos()
				}
				switch x := m.(type) {
				case *ast.AssignStmt:
					if len(x.Lhs) == 1 && len(x.Rhs) == 1 {
						if id, ok := x.Lhs[0].(*ast.Ident); ok && info.ObjectOf(id) == fobj {
							if call, ok := x.Rhs[0].(*ast.CallExpr); ok {
								if c := core.CalleeOf(info, call); c != nil && c.Name() == "Check" && len(call.Args) == 1 {
									if f, ok := constStr(info, call.Args[0]); ok {
										ds.flag = f
									}
								}
							}
						}
					}
				case *ast.IfStmt:
					// if <cond naming opcodes> { flag = false; ... }
					sets := false
					for _, st := range x.Body.List {
						if as, ok := st.(*ast.AssignStmt); ok && len(as.Lhs) == 1 && len(as.Rhs) == 1 {
							if id, ok := as.Lhs[0].(*ast.Ident); ok && info.ObjectOf(id) == fobj {
								if v, ok := as.Rhs[0].(*ast.Ident); ok && v.Name == "false" {
									sets = true
								}
							}
						}
					}
					if sets {
						ast.Inspect(x.Cond, func(k ast.Node) bool {
							if be, ok := k.(*ast.BinaryExpr); ok && be.Op == token.EQL {
								for _, pair := range [][2]ast.Expr{{be.X, be.Y}, {be.Y, be.X}} {
									if call, ok := ast.Unparen(pair[0]).(*ast.CallExpr); ok {
										if c := core.CalleeOf(info, call); c != nil && c.Name() == "Op_get_name" {
											if sname, ok := constStr(info, pair[1]); ok {
												ds.to = append(ds.to, sname)
											}
										}
									}
								}
							}
							return true
						})
					}
				}
				return true
			})
			if ds.flag != "" || len(ds.to) > 0 {
				dsites = append(dsites, ds)
			}
			return true
		})
	})
	sort.Slice(dsites, func(i, j int) bool {
		if dsites[i].typ != dsites[j].typ {
			return dsites[i].typ < dsites[j].typ
		}
		return dsites[i].pos < dsites[j].pos
	})
	uniqS := func(l []string) []string {
		m := map[string]bool{}
		for _, x := range l {
			m[x] = true
		}
		var o []string
		for x := range m {
			o = append(o, x)
		}
		sort.Strings(o)
		return o
	}
	nD, nF := 0, 0
	// (D)
	for _, ds := range dsites {
		for _, to := range uniqS(ds.to) {
			tt, ok := typeOfName[to]
			if !ok {
				r.Violation("C18/ONCE", fmt.Sprintf("C18/ONCE:defer:%s.%s->%s:unknown", ds.typ, ds.method, to), prog.Pos(ds.pos), fmt.Sprintf("%s.%s leaves its declarations {%s} to opcode %q, which is not a registered opcode name: the declarations are never emitted", ds.typ, ds.method, strings.Join(uniqS(ds.decls), ","), to))
				continue
			}
			have := allDecls[tt+"."+ds.method]
			for _, d := range uniqS(ds.decls) {
				nD++
				inst := fmt.Sprintf("C18/ONCE:defer:%s.%s->%s:%s", ds.typ, ds.method, to, d)
				if have[d] {
					r.OK("C18/ONCE", inst, prog.Pos(ds.pos), "the opcode deferred to declares the identifier in the same method")
				} else {
					r.Violation("C18/ONCE", inst, prog.Pos(ds.pos), fmt.Sprintf("%s.%s does not declare %q when opcode %q is in the processor (it defers to it), but %s.%s never declares %q: a processor holding both %q and %q emits Verilog that uses the identifier without a declaration", ds.typ, ds.method, strings.ReplaceAll(d, hole, "<name>"), to, tt, ds.method, strings.ReplaceAll(d, hole, "<name>"), opName[ds.typ], to))
				}
			}
		}
	}
	// (F)
	byFlag := map[string][]dsite{}
	for _, ds := range dsites {
		if ds.flag != "" {
			byFlag[ds.flag+"@"+ds.method] = append(byFlag[ds.flag+"@"+ds.method], ds)
		}
	}
	var fk []string
	for k := range byFlag {
		fk = append(fk, k)
	}
	sort.Strings(fk)
	for _, k := range fk {
		g := byFlag[k]
		ref := strings.Join(uniqS(g[0].decls), ",")
		for _, ds := range g {
			nF++
			inst := fmt.Sprintf("C18/ONCE:flag:%s:%s.%s", k, ds.typ, ds.method)
			if got := strings.Join(uniqS(ds.decls), ","); got == ref {
				r.OK("C18/ONCE", inst, prog.Pos(ds.pos), "same declarations as the other users of the flag")
			} else {
				r.Violation("C18/ONCE", inst, prog.Pos(ds.pos), fmt.Sprintf("%s.%s declares {%s} under the first-come flag %q while %s.%s declares {%s} under the same flag: which identifiers exist depends on which opcode is rendered first, and the other's are used undeclared", ds.typ, ds.method, got, k, g[0].typ, g[0].method, ref))
			}
		}
	}
	r.Count("deference_obligations", nD)
	r.Count("first_come_flag_sites", nF)
}

// ---- M: self-contained module generators ----------------------------------------------------------

var (
	alwaysRe   = regexp.MustCompile(`always\s*@\s*\(\s*(?:posedge|negedge)\s+([A-Za-z_§][A-Za-z0-9_§]*)`)
	assignRe   = regexp.MustCompile(`(?m)^\s*assign\s+([A-Za-z_§][A-Za-z0-9_§]*)`)
	nbAssignRe = regexp.MustCompile(`(?m)^\s*([A-Za-z_§][A-Za-z0-9_§]*)\s*(?:\[[^\]]*\]\s*)?<=`)
	portDeclRe = regexp.MustCompile(`(?m)(?:input|output|inout)\s+(?:wire\s+|reg\s+)?(?:signed\s+)?(?:\[[^\]]*\]\s*)?([A-Za-z_§][A-Za-z0-9_§]*)`)
	anyDeclRe  = regexp.MustCompile(`(?m)(?:reg|wire|integer|parameter|localparam|genvar)\s+(?:signed\s+)?(?:\[[^\]]*\]\s*)?([A-Za-z_§][A-Za-z0-9_§]*)`)
	moduleHdr  = regexp.MustCompile(`(?s)module\s+[A-Za-z_§][A-Za-z0-9_§]*\s*(?:#\s*\(.*?\))?\s*\((.*?)\)\s*;`)
	declListRe = regexp.MustCompile(`(?m)(?:input|output|inout|reg|wire|integer|parameter|localparam|genvar)\s+(?:wire\s+|reg\s+)?(?:signed\s+)?(?:\[[^\]]*\]\s*)?([A-Za-z_§][^;()]*)`)
	portConnRe = regexp.MustCompile(`\.[A-Za-z_][A-Za-z0-9_]*\s*\(\s*([A-Za-z_§][A-Za-z0-9_§]*)\s*\)`)
	identRe    = regexp.MustCompile(`[A-Za-z_§][A-Za-z0-9_§]*`)
)

func c18Modules(r *core.Run, prog *core.Program) {
	nMods := 0
	for _, rel := range []string{"pkg/bondmachine", "pkg/procbuilder"} {
		pk := prog.Pkg(rel)
		if pk == nil {
			continue
		}
		info := pk.TypesInfo
		core.FuncDecls(pk, func(_ *ast.File, fd *ast.FuncDecl) {
			// whole text emitted by the function, in source order, top-level accumulator only
			// the accumulator: the string variable with the most appends
			counts := map[types.Object]int{}
			ast.Inspect(fd.Body, func(m ast.Node) bool {
				if as, ok := m.(*ast.AssignStmt); ok && len(as.Lhs) == 1 && as.Tok == token.ADD_ASSIGN {
					if id, ok := as.Lhs[0].(*ast.Ident); ok {
						if o := info.ObjectOf(id); o != nil {
							if b, ok := o.Type().Underlying().(*types.Basic); ok && b.Info()&types.IsString != 0 {
								counts[o]++
							}
						}
					}
				}
				return true
			})
			var acc types.Object
			for o, n := range counts {
				if acc == nil || n > counts[acc] || (n == counts[acc] && o.Pos() < acc.Pos()) {
					acc = o
				}
			}
			if acc == nil {
				return
			}
			temps := localTemporaries(info, fd.Body, acc)
			var sb strings.Builder
			ast.Inspect(fd.Body, func(m ast.Node) bool {
				as, ok := m.(*ast.AssignStmt)
				if !ok || len(as.Lhs) != 1 || len(as.Rhs) != 1 {
					return true
				}
				if id, ok := as.Lhs[0].(*ast.Ident); ok && info.ObjectOf(id) == acc && (as.Tok == token.ADD_ASSIGN || as.Tok == token.DEFINE || as.Tok == token.ASSIGN) {
					sb.WriteString(skeletonWith(info, as.Rhs[0], temps))
				}
				return true
			})
			text := sb.String()
			// static vendor-style blobs (a whole module inside one string constant) are not generators
			if maxLiteral(info, fd.Body) > 1500 {
				return
			}
			if !strings.Contains(text, "endmodule") || !moduleHdr.MatchString(text) {
				return
			}
			// split into modules
			mods := strings.Split(text, "endmodule")
			for mi, m := range mods {
				loc := moduleHdr.FindStringSubmatchIndex(m)
				if loc == nil {
					continue
				}
				body := m[loc[0]:]
				hdr := m[loc[2]:loc[3]]
				nMods++
				fkey := fmt.Sprintf("%s#%d", core.FuncKey(pk, fd), mi)
				declared := map[string]bool{}
				holeDecl := false
				for _, id := range identRe.FindAllString(hdr, -1) {
					switch id {
					case "input", "output", "inout", "wire", "reg", "signed":
						continue
					}
					declared[id] = true
					if id == hole {
						holeDecl = true
					}
				}
				if strings.TrimSpace(hdr) == hole || strings.Contains(hdr, hole+hole) {
					holeDecl = true
				}
				for _, mm := range declListRe.FindAllStringSubmatch(body, -1) {
					for _, nm := range strings.Split(mm[1], ",") {
						nm = strings.TrimSpace(nm)
						if i := strings.IndexAny(nm, " =["); i >= 0 {
							nm = nm[:i]
						}
						if nm == "" {
							continue
						}
						declared[nm] = true
						if nm == hole {
							holeDecl = true
						}
					}
				}
				// nets named only in instance port connections are implicitly declared wires
				for _, mm := range portConnRe.FindAllStringSubmatch(body, -1) {
					declared[mm[1]] = true
				}
				// a bare hole on a line of its own may expand to declarations
				for _, line := range strings.Split(body, "\n") {
					if strings.TrimSpace(line) == hole {
						holeDecl = true
					}
				}
				matches := func(id string) bool {
					if declared[id] {
						return true
					}
					// declared patterns with holes
					for d := range declared {
						if !strings.Contains(d, hole) {
							continue
						}
						re := "^" + strings.ReplaceAll(regexp.QuoteMeta(d), regexp.QuoteMeta(hole), `[A-Za-z0-9_§]*`) + "$"
						if ok, _ := regexp.MatchString(re, id); ok {
							return true
						}
					}
					return false
				}
				checkUse := func(kind, id string) {
					if strings.Contains(id, hole) {
						return // spelled through a hole: not decided
					}
					inst := fmt.Sprintf("C18/MODULE:%s:%s:%s", fkey, kind, id)
					if matches(id) {
						r.OK("C18/MODULE", inst, prog.Pos(fd.Pos()), "identifier is declared in the module")
						return
					}
					if holeDecl {
						r.Note("C18/MODULE", inst, prog.Pos(fd.Pos()), "not decided: the module has declarations spelled through holes")
						return
					}
					r.Violation("C18/MODULE", inst, prog.Pos(fd.Pos()), fmt.Sprintf("the module emitted by %s uses %q as %s but never declares it (ports and declarations of that module: %s): a Verilog front end rejects the file (undeclared identifier / implicit net)", core.FuncKey(pk, fd), id, kind, strings.Join(sortedKeys(declared), " ")))
				}
				seenUse := map[string]bool{}
				for _, mm := range alwaysRe.FindAllStringSubmatch(body, -1) {
					if !seenUse["clock:"+mm[1]] {
						seenUse["clock:"+mm[1]] = true
						checkUse("clock of an always block", mm[1])
					}
				}
				for _, mm := range assignRe.FindAllStringSubmatch(body, -1) {
					if !seenUse["assign:"+mm[1]] {
						seenUse["assign:"+mm[1]] = true
						checkUse("continuous assignment target", mm[1])
					}
				}
				// multiple procedural drivers: split the body at `always`
				blocks := strings.Split(body, "always")
				drivers := map[string]map[int]bool{}
				for bi, blk := range blocks[1:] {
					for _, mm := range nbAssignRe.FindAllStringSubmatch(blk, -1) {
						id := mm[1]
						if strings.Contains(id, hole) {
							continue
						}
						if drivers[id] == nil {
							drivers[id] = map[int]bool{}
						}
						drivers[id][bi] = true
					}
				}
				for _, id := range sortedKeysM(drivers) {
					inst := fmt.Sprintf("C18/MODULE:%s:drivers:%s", fkey, id)
					if len(drivers[id]) > 1 {
						r.Violation("C18/MODULE", inst, prog.Pos(fd.Pos()), fmt.Sprintf("the module emitted by %s assigns register %q from %d different always blocks: multiple procedural drivers (not synthesizable)", core.FuncKey(pk, fd), id, len(drivers[id])))
					} else {
						r.OK("C18/MODULE", inst, prog.Pos(fd.Pos()), "single procedural driver")
					}
				}
			}
		})
	}
	r.Count("self_contained_modules", nMods)
}

func maxLiteral(info *types.Info, body *ast.BlockStmt) int {
	mx := 0
	ast.Inspect(body, func(m ast.Node) bool {
		if e, ok := m.(ast.Expr); ok {
			if sv, ok := constStr(info, e); ok && len(sv) > mx {
				mx = len(sv)
			}
		}
		return true
	})
	return mx
}

func sortedKeys(m map[string]bool) []string {
	var out []string
	for k := range m {
		out = append(out, k)
	}
	sort.Strings(out)
	return out
}

func sortedKeysM(m map[string]map[int]bool) []string {
	var out []string
	for k := range m {
		out = append(out, k)
	}
	sort.Strings(out)
	return out
}
