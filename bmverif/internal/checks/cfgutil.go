package checks

import (
	"go/ast"
	"go/token"
	"go/types"

	"golang.org/x/tools/go/cfg"
)

// buildCFG builds the control-flow graph of a function body. Calls to panic,
// os.Exit and log.Fatal* are treated as non-returning.
func buildCFG(info *types.Info, body *ast.BlockStmt) *cfg.CFG {
	mayReturn := func(call *ast.CallExpr) bool {
		switch f := ast.Unparen(call.Fun).(type) {
		case *ast.Ident:
			if f.Name == "panic" {
				if _, ok := info.Uses[f].(*types.Builtin); ok {
					return false
				}
			}
		case *ast.SelectorExpr:
			if obj := info.Uses[f.Sel]; obj != nil && obj.Pkg() != nil {
				p, n := obj.Pkg().Path(), obj.Name()
				if p == "os" && n == "Exit" {
					return false
				}
				if p == "log" && (n == "Fatal" || n == "Fatalf" || n == "Fatalln" || n == "Panic" || n == "Panicf" || n == "Panicln") {
					return false
				}
			}
		}
		return true
	}
	return cfg.New(body, mayReturn)
}

// guardPolarity classifies a leaf branch condition: +1 if the condition being TRUE
// establishes the guard, -1 if it being FALSE establishes it, 0 otherwise.
type guardPolarity func(cond ast.Expr) int

// blockCond returns the branch condition of a block (its last node when the
// block has two successors and that node is an expression).
func blockCond(b *cfg.Block) ast.Expr {
	if len(b.Succs) != 2 || len(b.Nodes) == 0 {
		return nil
	}
	if e, ok := b.Nodes[len(b.Nodes)-1].(ast.Expr); ok {
		return e
	}
	return nil
}

// condFacts decomposes a branch condition (go/cfg keeps `!`, `&&`, `||` inside one node):
// gT / gF report whether the guard is established when the whole condition is true / false.
func condFacts(c ast.Expr, pol guardPolarity) (gT, gF bool) {
	switch x := ast.Unparen(c).(type) {
	case *ast.UnaryExpr:
		if x.Op == token.NOT {
			t, f := condFacts(x.X, pol)
			return f, t
		}
	case *ast.BinaryExpr:
		switch x.Op {
		case token.LAND:
			at, af := condFacts(x.X, pol)
			bt, bf := condFacts(x.Y, pol)
			return at || bt, af && bf
		case token.LOR:
			at, af := condFacts(x.X, pol)
			bt, bf := condFacts(x.Y, pol)
			return at && bt, af || bf
		}
	}
	switch pol(ast.Unparen(c)) {
	case +1:
		return true, false
	case -1:
		return false, true
	}
	return false, false
}

// regionFrom returns the live blocks reachable from entry without entering a stop block.
func regionFrom(entry *cfg.Block, stop func(*cfg.Block) bool) map[*cfg.Block]bool {
	in := map[*cfg.Block]bool{}
	var walk func(b *cfg.Block)
	walk = func(b *cfg.Block) {
		if in[b] || !b.Live || stop(b) {
			return
		}
		in[b] = true
		for _, s := range b.Succs {
			walk(s)
		}
	}
	walk(entry)
	return in
}

// rangeBodyRegion returns the entry block and the region of a range statement's body.
func rangeBodyRegion(g *cfg.CFG, rs *ast.RangeStmt) (*cfg.Block, map[*cfg.Block]bool) {
	var entry *cfg.Block
	for _, b := range g.Blocks {
		if b.Stmt == rs && b.Kind == cfg.KindRangeBody {
			entry = b
		}
	}
	if entry == nil {
		return nil, nil
	}
	return entry, regionFrom(entry, func(b *cfg.Block) bool {
		return b.Stmt == rs && (b.Kind == cfg.KindRangeLoop || b.Kind == cfg.KindRangeDone)
	})
}

// guardedBlocks computes, for every block of the region, whether the guard is
// established on EVERY path from the region entry to that block's entry: a forward
// must-analysis (greatest fixpoint). Edges entering the region from outside carry
// no fact, so nothing survives into the next loop iteration.
func guardedBlocks(g *cfg.CFG, entry *cfg.Block, region map[*cfg.Block]bool, pol guardPolarity) map[*cfg.Block]bool {
	preds := map[*cfg.Block][]*cfg.Block{}
	for _, b := range g.Blocks {
		if !b.Live {
			continue
		}
		for _, s := range b.Succs {
			preds[s] = append(preds[s], b)
		}
	}
	good := map[*cfg.Block]bool{}
	for b := range region {
		good[b] = b != entry // optimistic start; the entry has no fact
	}
	edgeFact := func(p, b *cfg.Block) bool {
		if !region[p] {
			return false
		}
		if good[p] {
			return true
		}
		if c := blockCond(p); c != nil {
			gT, gF := condFacts(c, pol)
			if gT && p.Succs[0] == b && p.Succs[1] != b {
				return true
			}
			if gF && p.Succs[1] == b && p.Succs[0] != b {
				return true
			}
		}
		return false
	}
	changed := true
	for changed {
		changed = false
		for b := range region {
			if !good[b] {
				continue
			}
			ok := len(preds[b]) > 0
			for _, p := range preds[b] {
				if !edgeFact(p, b) {
					ok = false
					break
				}
			}
			if !ok {
				good[b] = false
				changed = true
			}
		}
	}
	return good
}

// usesOf lists the identifiers in n that resolve to obj.
func usesOf(info *types.Info, n ast.Node, obj types.Object) []*ast.Ident {
	var out []*ast.Ident
	ast.Inspect(n, func(m ast.Node) bool {
		if id, ok := m.(*ast.Ident); ok && info.Uses[id] == obj {
			out = append(out, id)
		}
		return true
	})
	return out
}
